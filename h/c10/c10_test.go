// C10: a field keeps a single type, persistently.
//
// Part 1 (histories, engine opseq): every sequence of ≤ d operations over
// {write m.f as float|integer|string, write m.g, write m2.f, drop measurement m, snapshot, clean
// close-reopen, kill-restart} on a real tsdb.Shard, compared op by op and at the end with a reference model
// (measurement,field)→type + accepted data; plus the multi-field levels (points carrying a new field next to a
// conflicting one, then the new field alone, restart, probe of another type).
//
// Part 2 (schedules, engine vsched): two Shard.WritePoints racing to create the same new field with
// different / equal types, every interleaving with ≤ B preemptions at the sync points of tsdb/shard.go,
// tsm1/engine.go, tsm1/cache.go, tsm1/ring.go.
//
// Part 3 (crash points, engine crashfs): WriteHistory runs as a history writer subprocess under strace with
// BEGIN/ACK markers; every prefix image and every torn image of the field-schema files is recovered by
// CheckCrashRecovery (real open path, probe write of another type, second process death) in fresh subprocesses.
package c10

import (
	"bufio"
	"crypto/sha256"
	"encoding/hex"
	"encoding/json"
	"errors"
	"fmt"
	"os"
	"os/exec"
	"path/filepath"
	"regexp"
	"runtime/debug"
	"sort"
	"strconv"
	"strings"
	"sync"
	"testing"
	"time"

	"github.com/influxdata/influxdb/v2/pkg/verifrt/vrt"
	"verif/h/crashfs"
	"verif/h/shardkit"
	"verif/h/vlib"
)

// ---------- operations ----------

type writeDef struct{ m, f, typ string }

var writeOps = map[string]writeDef{
	"WF": {"m", "f", "float"},
	"WI": {"m", "f", "integer"},
	"WS": {"m", "f", "string"},
	"WG": {"m", "g", "float"},
	"W2": {"m2", "f", "integer"},
	// only used by the multi-field families: the fields a and z (sorting before / after f) written alone, with the
	// type the multi-field points carry (WA, WZ) and with another type (PA, PZ: the probes)
	"WA": {"m", "a", "float"},
	"WZ": {"m", "z", "float"},
	"PA": {"m", "a", "integer"},
	"PZ": {"m", "z", "integer"},
}

// multiOps are the writes whose points carry TWO fields of measurement m: f as a string together with a float
// field that sorts before f (MA: a) or after f (MZ: z). models.Point iterates fields in key order, so with m.f
// recorded as float or integer the conflict is met after (MA) resp. before (MZ) the other field was looked at.
var multiOps = map[string][]writeDef{
	"MA": {{"m", "a", "float"}, {"m", "f", "string"}},
	"MZ": {{"m", "f", "string"}, {"m", "z", "float"}},
}

// fieldsOf returns the fields the points of a write op carry (nil for ops that are not writes).
func fieldsOf(op string) []writeDef {
	if d, ok := writeOps[op]; ok {
		return []writeDef{d}
	}
	return multiOps[op]
}

const (
	opDrop     = "DM" // Shard.DeleteMeasurement("m")
	opSnapshot = "SN" // Engine.WriteSnapshot
	opReopen   = "RO" // clean Close + Open
	opKill     = "KR" // unclean restart: process-kill image of the directory is opened
)

var fullAlphabet = []string{"WF", "WI", "WS", "WG", "W2", opDrop, opSnapshot, opReopen, opKill}
var coreAlphabet = []string{"WF", "WI", opDrop, opSnapshot, opReopen, opKill}

// pointsPerWrite points are written by every write op (so that Dropped counts points, not calls).
const pointsPerWrite = 2

func writeSpecs(op string, k int) []shardkit.PointSpec {
	ds := fieldsOf(op)
	var out []shardkit.PointSpec
	for j := 1; j <= pointsPerWrite; j++ {
		p := shardkit.PointSpec{M: ds[0].m, T: int64(100*(k+1) + j)}
		for _, d := range ds {
			p.Fields = append(p.Fields, shardkit.FieldSpec{Name: d.f, Type: d.typ, Val: int64(10*(k+1) + j)})
		}
		out = append(out, p)
	}
	return out
}

// ---------- reference model (from the statement) ----------

// Model is the state the statement prescribes after a history.
type Model struct {
	Schema map[string]map[string]string // measurement → field → type
	Data   map[string][]shardkit.Val    // composite key → accepted, not dropped values
	Result []string                     // expected result of every op so far
	Fate   map[int]string               // write op index → "accepted" | "rejected" | "dropped" (accepted, measurement dropped later)
	Drops  int                          // effective drops so far (the measurement existed)
	// Maybe: fields that were NEW in a rejected multi-field point, with the type it carried. The statement says the
	// point is rejected and never stored; it is silent on whether its other, non-conflicting new fields are recorded
	// by the attempt, so either answer is accepted until an accepted write (or a drop) settles the field.
	Maybe map[string]map[string]string
	// Open: some op addressed a Maybe field with ANOTHER type: the statement leaves its result open (the
	// enumerations skip such histories).
	Open bool
	ops  []string
}

func NewModel() *Model {
	return &Model{Schema: map[string]map[string]string{}, Data: map[string][]shardkit.Val{}, Fate: map[int]string{}, Maybe: map[string]map[string]string{}}
}

// Apply executes op number k on the model and returns the expected result: "ok" or "conflict:<dropped>".
func (m *Model) Apply(op string, k int) string {
	res := "ok"
	if ds := fieldsOf(op); ds != nil {
		conflict := false
		for _, d := range ds {
			if cur, exists := m.Schema[d.m][d.f]; exists && cur != d.typ {
				conflict = true
			} else if mt, maybe := m.Maybe[d.m][d.f]; !exists && maybe && mt != d.typ {
				m.Open = true
			}
		}
		if conflict {
			res = fmt.Sprintf("conflict:%d", pointsPerWrite)
			m.Fate[k] = "rejected"
			for _, d := range ds { // the other new fields of the rejected points (only multi-field points have any)
				if _, exists := m.Schema[d.m][d.f]; !exists {
					if m.Maybe[d.m] == nil {
						m.Maybe[d.m] = map[string]string{}
					}
					m.Maybe[d.m][d.f] = d.typ
				}
			}
		} else {
			if m.Schema[d0(ds).m] == nil {
				m.Schema[d0(ds).m] = map[string]string{}
			}
			for _, d := range ds {
				m.Schema[d.m][d.f] = d.typ
				delete(m.Maybe[d.m], d.f)
			}
			for _, p := range writeSpecs(op, k) {
				for _, f := range p.Fields {
					key := shardkit.CompositeKey(p.SeriesKey(), f.Name)
					m.Data[key] = append(m.Data[key], shardkit.Val{T: p.T, V: f.Rendered()})
				}
			}
			m.Fate[k] = "accepted"
		}
	} else if op == opDrop {
		if _, ok := m.Schema["m"]; ok {
			m.Drops++
		}
		delete(m.Schema, "m")
		delete(m.Maybe, "m")
		for key := range m.Data {
			if strings.HasPrefix(key, "m#!~#") || strings.HasPrefix(key, "m,") {
				delete(m.Data, key)
			}
		}
		for i, f := range m.Fate {
			if f == "accepted" && i < k {
				if ds := fieldsOf(m.opOf(i)); ds != nil && ds[0].m == "m" {
					m.Fate[i] = "dropped"
				}
			}
		}
	}
	m.Result = append(m.Result, res)
	m.ops = append(m.ops, op)
	return res
}

func d0(ds []writeDef) writeDef { return ds[0] }

func (m *Model) opOf(i int) string {
	if i < len(m.ops) {
		return m.ops[i]
	}
	return ""
}

// ModelOf runs a whole history on a fresh model.
func ModelOf(ops []string) *Model {
	m := NewModel()
	for k, op := range ops {
		m.Apply(op, k)
	}
	return m
}

// ---------- history writer (real shard) ----------

// Options of a history run.
type Options struct {
	SeriesTypeCheck bool
	TSIPartitions   int // 0 = default (8)
}

func (o Options) kit() shardkit.Options {
	return shardkit.Options{SeriesTypeCheck: o.SeriesTypeCheck, TSIPartitions: o.TSIPartitions}
}

// doOp performs op number k on the open fixture and returns "ok", "conflict:<n>" or "err:<text>".
func doOp(fx *shardkit.Fixture, op string, k int) string {
	var err error
	switch op {
	case opDrop:
		err = fx.DropMeasurement("m")
	case opSnapshot:
		err = fx.Snapshot()
	case opReopen:
		err = fx.Reopen()
	case opKill:
		err = fx.KillRestart(fmt.Sprintf("%s.kr%d", strings.SplitN(fx.Dir, ".kr", 2)[0], k))
	default:
		pts, perr := shardkit.Points(writeSpecs(op, k))
		if perr != nil {
			return "err:points: " + perr.Error()
		}
		err = fx.Write(pts)
		if n, ok := shardkit.Dropped(err); ok {
			return fmt.Sprintf("conflict:%d", n)
		}
	}
	if err != nil {
		s := err.Error()
		if len(s) > 160 {
			s = s[:160] + "…"
		}
		return "err:" + s
	}
	return "ok"
}

// WriteHistory performs ops on the shard below dir (created if missing) with the real write path and
// returns the result of every op. The shard is left OPEN in the returned fixture: the caller closes it
// (clean shutdown) or abandons it (crash). onOp, if set, is called before ("begin") and after ("ack") each
// op — the crash check writes its markers there. fx.Dir differs from dir after a kill-restart op.
func WriteHistory(dir string, ops []string, o Options, onOp func(k int, phase, op, result string)) (fx *shardkit.Fixture, results []string, err error) {
	fx, err = shardkit.Open(dir, o.kit())
	if err != nil {
		return nil, nil, err
	}
	for k, op := range ops {
		if onOp != nil {
			onOp(k, "begin", op, "")
		}
		r := doOp(fx, op, k)
		results = append(results, r)
		if onOp != nil {
			onOp(k, "ack", op, r)
		}
		if fx.Shard == nil { // a restart op failed: nothing is open any more
			return fx, results, fmt.Errorf("op %d (%s): %s", k, op, r)
		}
	}
	return fx, results, nil
}

// ---------- recovery checker ----------

// Mismatch is one disagreement between the real shard and a model.
type Mismatch struct{ Clause, Msg string }

var universe = []struct{ m, f string }{{"m", "f"}, {"m", "g"}, {"m2", "f"}, {"m2", "g"}, {"m", "a"}, {"m", "z"}}

// Observe reads the three observations of an open shard.
type Observation struct {
	Schema    map[string]map[string]string
	Raw       map[string][]shardkit.Val
	Cursor    map[string][]shardkit.Val
	CursorErr []string // "<key>: <error>" of cursor reads that failed (recorded type vs stored blocks)
}

func Observe(fx *shardkit.Fixture) (ob Observation, err error) {
	if ob.Schema, err = fx.Schema(); err != nil {
		return
	}
	if ob.Raw, err = fx.DumpRaw(); err != nil {
		return
	}
	ob.Cursor = map[string][]shardkit.Val{}
	for _, u := range universe {
		vs, _, rerr := fx.ReadField(u.m, nil, u.f)
		if rerr != nil {
			ob.CursorErr = append(ob.CursorErr, fmt.Sprintf("%s.%s: %v", u.m, u.f, rerr))
			continue
		}
		if len(vs) > 0 {
			ob.Cursor[shardkit.CompositeKey(u.m, u.f)] = vs
		}
	}
	return
}

func (ob Observation) String() string {
	s := fmt.Sprintf("schema={%s} raw={%s} cursor={%s}", shardkit.SchemaString(ob.Schema, true), shardkit.RawString(ob.Raw), shardkit.RawString(ob.Cursor))
	if len(ob.CursorErr) > 0 {
		s += " cursor-errors=" + fmt.Sprint(ob.CursorErr)
	}
	return s
}

// Compare lists the disagreements of an observation with the model.
func Compare(ob Observation, m *Model) []Mismatch {
	var out []Mismatch
	// field types
	type mf struct{ m, f string }
	seen := map[mf]bool{}
	for ms, fs := range m.Schema {
		for f := range fs {
			seen[mf{ms, f}] = true
		}
	}
	for ms, fs := range ob.Schema {
		for f := range fs {
			seen[mf{ms, f}] = true
		}
	}
	var keys []mf
	for k := range seen {
		keys = append(keys, k)
	}
	sort.Slice(keys, func(i, j int) bool { return keys[i].m+"\x00"+keys[i].f < keys[j].m+"\x00"+keys[j].f })
	for _, k := range keys {
		want, wok := m.Schema[k.m][k.f]
		got, gok := ob.Schema[k.m][k.f]
		switch {
		case !wok && gok && m.Maybe[k.m][k.f] == got:
			// new field of a rejected multi-field point, recorded with the type that point carried: left open by the statement
		case wok && !gok:
			out = append(out, Mismatch{"field-type-lost", fmt.Sprintf("%s.%s should be %s but the shard records no such field", k.m, k.f, want)})
		case !wok && gok:
			cl := "field-type-unexpected"
			if k.m == "m" && m.Drops > 0 {
				cl = "dropped-schema-resurrected"
			}
			out = append(out, Mismatch{cl, fmt.Sprintf("%s.%s is recorded as %s but should not exist", k.m, k.f, got)})
		case want != got:
			out = append(out, Mismatch{"field-type-changed", fmt.Sprintf("%s.%s is recorded as %s, should be %s", k.m, k.f, got, want)})
		}
	}
	out = append(out, compareData(ob.Raw, m, "raw")...)
	for _, e := range ob.CursorErr {
		out = append(out, Mismatch{"read-error", "reading through the cursor API failed: " + e})
	}
	out = append(out, compareData(ob.Cursor, m, "cursor")...)
	return out
}

func compareData(got map[string][]shardkit.Val, m *Model, via string) []Mismatch {
	var out []Mismatch
	keys := map[string]bool{}
	for k := range got {
		keys[k] = true
	}
	for k := range m.Data {
		keys[k] = true
	}
	var ks []string
	for k := range keys {
		ks = append(ks, k)
	}
	sort.Strings(ks)
	for _, k := range ks {
		want := map[shardkit.Val]int{}
		for _, v := range m.Data[k] {
			want[v]++
		}
		for _, v := range got[k] {
			if want[v] > 0 {
				want[v]--
				continue
			}
			op := int(v.T/100) - 1
			switch m.Fate[op] {
			case "rejected":
				out = append(out, Mismatch{"conflicting-value-stored/" + via, fmt.Sprintf("%s: %q holds %d=%s written by the rejected op #%d", via, k, v.T, v.V, op)})
			case "dropped":
				out = append(out, Mismatch{"dropped-data-resurrected/" + via, fmt.Sprintf("%s: %q holds %d=%s of op #%d whose measurement was dropped later", via, k, v.T, v.V, op)})
			default:
				out = append(out, Mismatch{"unexpected-value/" + via, fmt.Sprintf("%s: %q holds unexpected %d=%s", via, k, v.T, v.V)})
			}
		}
		var miss []shardkit.Val
		for v, n := range want {
			if n > 0 {
				miss = append(miss, v)
			}
		}
		shardkit.SortVals(miss)
		for _, v := range miss {
			out = append(out, Mismatch{"accepted-value-lost/" + via, fmt.Sprintf("%s: %q lacks %d=%s of accepted op #%d", via, k, v.T, v.V, int(v.T/100)-1)})
		}
	}
	return out
}

// CheckRecovery opens dir with the real open path, observes it and compares it with every allowed model;
// it returns no mismatch if some model agrees, else the mismatches against allowed[0]. The shard is closed
// again (clean) before returning; the observation is returned for messages.
func CheckRecovery(dir string, o Options, allowed []*Model) ([]Mismatch, Observation, error) {
	fx, err := shardkit.Open(dir, o.kit())
	if err != nil {
		return nil, Observation{}, err
	}
	defer fx.Close()
	ob, err := Observe(fx)
	if err != nil {
		return nil, ob, err
	}
	var first []Mismatch
	for i, m := range allowed {
		mm := Compare(ob, m)
		if len(mm) == 0 {
			return nil, ob, nil
		}
		if i == 0 {
			first = mm
		}
	}
	return first, ob, nil
}

// ---------- histories part ----------

// Hist is one enumerated history (the replayable case).
type Hist struct {
	Part      string   `json:"part"` // "history"
	Ops       []string `json:"ops"`
	TypeCheck bool     `json:"series_type_check,omitempty"`
	TSIParts  int      `json:"tsi_partitions,omitempty"` // 0 = default (8)
}

func (h Hist) String() string {
	s := "[" + strings.Join(h.Ops, " ") + "]"
	if h.TypeCheck {
		s += " (series type check on)"
	}
	if h.TSIParts == 0 {
		s += " (8 tsi partitions)"
	}
	return s
}

// context features of a history prefix used in signatures.
func histCtx(ops []string, tc bool) string {
	clean, kill, drop := false, false, false
	for _, op := range ops {
		switch op {
		case opReopen:
			clean = clean || drop
		case opKill:
			kill = kill || drop
		case opDrop:
			drop = true
		}
	}
	s := "no-drop"
	switch {
	case kill:
		s = "kill-restart-after-drop"
	case clean:
		s = "clean-restart-after-drop"
	case drop:
		s = "drop-without-restart"
	}
	if tc {
		s += ",series-type-check=on"
	}
	return s
}

type histReport struct {
	results   []string
	want      []string
	viol      []Mismatch // clause already includes context
	obs       string
	stateKey  string
	harness   string
	readPanic bool // a cursor read panicked or failed: TSM file references may be leaked, Close may hang
}

// closeHung closes the fixture in the background and reports whether that is still blocked after 30 s
// (teardown only: no verdict depends on it).
func closeHung(fx *shardkit.Fixture) bool {
	done := make(chan struct{})
	go func() { fx.Close(); close(done) }()
	select {
	case <-done:
		return false
	case <-time.After(30 * time.Second):
		return true
	}
}

func layout(fx *shardkit.Fixture) string {
	ex := func(p string) bool { _, err := os.Stat(p); return err == nil }
	tsm, _ := filepath.Glob(filepath.Join(shardkit.ShardPath(fx.Dir), "*.tsm"))
	tomb, _ := filepath.Glob(filepath.Join(shardkit.ShardPath(fx.Dir), "*.tombstone"))
	cache := 0
	if e, err := fx.Engine(); err == nil {
		cache = len(e.Cache.Keys())
	}
	return fmt.Sprintf("idx=%v,idxl=%v,tsm=%d,tomb=%d,cachekeys=%d", ex(shardkit.FieldsIdxPath(fx.Dir)), ex(shardkit.FieldsLogPath(fx.Dir)), len(tsm), len(tomb), cache)
}

func resultKind(r string) string {
	if strings.HasPrefix(r, "err:") {
		return "error"
	}
	if strings.HasPrefix(r, "conflict:") {
		return "conflict"
	}
	return r
}

func runHist(h Hist) (rep histReport) {
	dir := vlib.Scratch("c10-")
	os.Remove(dir) // WriteHistory creates it; kill-restarts use siblings dir.kr<k>
	base := dir
	defer func() {
		sib, _ := filepath.Glob(base + ".kr*")
		for _, s := range sib {
			os.RemoveAll(s)
		}
		os.RemoveAll(base)
	}()
	model := NewModel()
	for k, op := range h.Ops {
		rep.want = append(rep.want, model.Apply(op, k))
	}
	fx, results, err := WriteHistory(dir, h.Ops, Options{SeriesTypeCheck: h.TypeCheck, TSIPartitions: h.TSIParts}, nil)
	if fx != nil {
		defer func() {
			// A cursor constructor that panics (see read-panic) leaks its TSM file references and
			// TSMReader.Close then waits forever: never block the enumeration on the teardown.
			if closeHung(fx) && rep.harness == "" && !rep.readPanic {
				rep.harness = "closing the shard after the history did not return within 30s"
			}
		}()
	}
	rep.results = results
	// Only the FIRST divergence of a history is reported: everything after it is a consequence (every prefix is
	// itself an enumerated history, so a divergence of the final state is found at the shortest history showing it).
	for k, r := range results {
		if r == rep.want[k] {
			continue
		}
		op := h.Ops[k]
		ctx := histCtx(h.Ops[:k], h.TypeCheck)
		if fieldsOf(op) != nil {
			got := resultKind(r)
			if got == "conflict" && resultKind(rep.want[k]) == "conflict" {
				got = "conflict-wrong-count"
			}
			rep.viol = append(rep.viol, Mismatch{vlib.JoinSig("write-result", "want="+resultKind(rep.want[k]), "got="+got, ctx),
				fmt.Sprintf("op #%d %s returned %q, the statement prescribes %q", k, op, r, rep.want[k])})
		} else {
			rep.viol = append(rep.viol, Mismatch{vlib.JoinSig("op-failed", op, ctx), fmt.Sprintf("op #%d %s returned %q", k, op, r)})
		}
		return
	}
	if err != nil {
		// a restart failed: the open error is the verdict (already recorded above)
		return
	}
	ctx := histCtx(h.Ops, h.TypeCheck)
	var ob Observation
	var oerr error
	if p, d := vlib.Guard(func() { ob, oerr = Observe(fx) }); p {
		rep.viol = append(rep.viol, Mismatch{vlib.JoinSig("read-panic", ctx), "reading the shard back after the history panicked: " + d})
		rep.readPanic = true
		return
	}
	if oerr != nil {
		rep.harness = "observe: " + oerr.Error()
		return
	}
	rep.obs = ob.String()
	if len(ob.CursorErr) > 0 {
		rep.readPanic = true // a cursor constructor that fails leaks its TSM references as well
	}
	for _, mm := range Compare(ob, model) {
		rep.viol = append(rep.viol, Mismatch{vlib.JoinSig(mm.Clause, ctx), mm.Msg})
		break // first divergence only (schema before data, raw before cursor)
	}
	rep.stateKey = shardkit.SchemaString(model.Schema, true) + " | " + layout(fx)
	return
}

// sequences enumerates the cartesian product of per-position alphabets (odometer order).
func sequences(pos [][]string, fn func([]string)) {
	n := len(pos)
	idx := make([]int, n)
	for {
		s := make([]string, n)
		for i, x := range idx {
			s[i] = pos[i][x]
		}
		fn(s)
		i := n - 1
		for ; i >= 0; i-- {
			idx[i]++
			if idx[i] < len(pos[i]) {
				break
			}
			idx[i] = 0
		}
		if i < 0 {
			return
		}
	}
}

func in(list []string, x string) bool {
	for _, y := range list {
		if x == y {
			return true
		}
	}
	return false
}

func allIn(list []string, s []string) bool {
	for _, x := range s {
		if !in(list, x) {
			return false
		}
	}
	return true
}

type level struct {
	name      string
	pos       [][]string
	typeCheck bool
	skip      func([]string) bool // sequences already run by an earlier level
	tsiParts  int                 // 0 = default 8 partitions
}

func rep(alpha []string, n int) [][]string {
	out := make([][]string, n)
	for i := range out {
		out[i] = alpha
	}
	return out
}

var writesOnly = []string{"WF", "WI", "WS", "WG", "W2"}

func levels(thorough bool) []level {
	writeFirst := func(alpha []string, n int) [][]string {
		p := rep(alpha, n)
		var w []string
		for _, op := range alpha {
			if _, ok := writeOps[op]; ok {
				w = append(w, op)
			}
		}
		p[0] = w
		return p
	}
	ls := []level{
		{"all-ops/len1/default-tsi-partitions", rep(fullAlphabet, 1), false, nil, 0},
		{"all-ops/len1", rep(fullAlphabet, 1), false, nil, 1},
		{"all-ops/len2", rep(fullAlphabet, 2), false, nil, 1},
		{"all-ops/len3", rep(fullAlphabet, 3), false, nil, 1},
	}
	// a change log holding [create m2.f] [create m.*] [drop m] [create m.* again], replayed by a kill-restart (m2 keeps
	// the field set non-empty, so the engine does not rebuild it from the stored data at open)
	mWrites := []string{"WF", "WI", "WS", "WG"}
	ls = append(ls, level{"other-write-drop-write-kill/len5", [][]string{{"W2"}, mWrites, {opDrop}, mWrites, {opKill}}, false, nil, 1})
	// multi-field points: m.f exists; a write whose points carry f as a string TOGETHER WITH a new float field sorting
	// before f (MA: a) or after f (MZ: z) — rejected when m.f is float, accepted when it is a string; then a write that
	// uses one of the new fields alone (accepted); then {kill-restart, clean restart, snapshot}; then a write of
	// ANOTHER type to one of the new fields, which must be rejected with Dropped=2 once an accepted write has used the
	// field. Histories whose last write addresses a field that only a rejected point carried are skipped (the
	// statement leaves their result open; Model.Open).
	ls = append(ls, level{"multi-field/len5", [][]string{{"WF", "WS"}, {"MA", "MZ"}, {"WA", "WZ"}, {opKill, opReopen, opSnapshot}, {"PA", "PZ"}}, false, nil, 1})
	if thorough {
		// the same heads followed by EVERY sequence of length 1..3 over the new fields' writes and the restarts
		tail := []string{"WA", "WZ", "PA", "PZ", opKill, opReopen, opSnapshot}
		for n := 1; n <= 3; n++ {
			pos := append([][]string{{"WF", "WS"}, {"MA", "MZ"}}, rep(tail, n)...)
			skip := func(s []string) bool { return false }
			if n == 3 {
				skip = func(s []string) bool { // already run by multi-field/len5
					return in([]string{"WA", "WZ"}, s[2]) && in([]string{opKill, opReopen, opSnapshot}, s[3]) && in([]string{"PA", "PZ"}, s[4])
				}
			}
			ls = append(ls, level{fmt.Sprintf("multi-field/head2+tail%d", n), pos, false, skip, 1})
		}
	}
	if !thorough {
		core4 := writeFirst(coreAlphabet, 4)
		return append(ls,
			level{"core-ops/len4/write-first", core4, false, nil, 1},
			// write, {restart|snapshot|drop}, {write|drop}, restart: schema split over fields.idx and fields.idxl
			level{"write-x-write-restart/len4", [][]string{writesOnly, {opReopen, opKill, opSnapshot, opDrop}, append(append([]string{}, writesOnly...), opDrop), {opReopen, opKill}}, false,
				func(s []string) bool { return allIn(coreAlphabet, s) }, 1},
		)
	}
	return append(ls,
		level{"all-ops/len2/default-tsi-partitions", rep(fullAlphabet, 2), false, nil, 0},
		level{"all-ops/len3/default-tsi-partitions", rep(fullAlphabet, 3), false, nil, 0},
		level{"all-ops/len1/series-type-check", rep(fullAlphabet, 1), true, nil, 1},
		level{"all-ops/len2/series-type-check", rep(fullAlphabet, 2), true, nil, 1},
		level{"all-ops/len3/series-type-check", rep(fullAlphabet, 3), true, nil, 1},
		level{"all-ops/len4/write-first", writeFirst(fullAlphabet, 4), false, nil, 1},
		level{"core-ops/len5/write-first", writeFirst(coreAlphabet, 5), false, nil, 1},
	)
}

// runHistories runs the levels [from, to) of the tier.
func runHistories(c *vlib.Ctx, idx *int64, from, to int) {
	lvs := levels(c.Thorough())
	if to > len(lvs) {
		to = len(lvs)
	}
	for _, lv := range lvs[from:to] {
		lv := lv
		capped := false
		sequences(lv.pos, func(s []string) {
			if lv.skip != nil && lv.skip(s) {
				return
			}
			if ModelOf(s).Open {
				if c.Shard == 0 {
					c.Extra("histories_skipped_result_left_open_by_the_statement", 1)
				}
				return
			}
			*idx++
			if !c.Mine(*idx) || capped {
				return
			}
			if c.Expired() {
				c.Cap("budget expired in the histories part during level " + lv.name + " (levels run shortest first)")
				capped = true
				return
			}
			h := Hist{Part: "history", Ops: s, TypeCheck: lv.typeCheck, TSIParts: lv.tsiParts}
			var rep histReport
			if p, d := vlib.Guard(func() { rep = runHist(h) }); p {
				c.Eval(1)
				c.Outcome("panic")
				c.Violation(vlib.JoinSig("panic", strings.TrimSpace(d[strings.LastIndex(d, "@")+1:]), histCtx(h.Ops, h.TypeCheck)), h.String()+": "+d, h)
				return
			}
			if rep.harness != "" {
				c.HarnessError(h.String() + ": " + rep.harness)
				return
			}
			c.Eval(1)
			c.Trace(1)
			c.Extra("histories", 1)
			c.Transition(int64(len(rep.results)))
			if rep.stateKey != "" {
				c.State(rep.stateKey)
			}
			nontrivial := false
			dropped := false
			for k, r := range rep.results {
				kind := resultKind(r)
				if h.Ops[k] == opDrop {
					dropped = true
				}
				if (h.Ops[k] == opReopen || h.Ops[k] == opKill) && dropped {
					nontrivial = true
					kind += "(after-drop)"
				}
				if kind == "conflict" {
					nontrivial = true
				}
				c.Outcome(h.Ops[k] + ":" + kind)
			}
			if nontrivial {
				c.NontrivialN(1)
			}
			for _, v := range rep.viol {
				c.Violation(v.Clause, fmt.Sprintf("%s: %s | results=%v expected=%v %s", h, v.Msg, rep.results, rep.want, rep.obs), h)
			}
			if nontrivial && c.WantSample() {
				c.Sample(map[string]any{"history": h, "results": rep.results, "final": rep.obs})
			}
		})
		if capped {
			return
		}
	}
}

func replayHist(raw json.RawMessage) (bool, string) {
	var h Hist
	if err := json.Unmarshal(raw, &h); err != nil {
		return false, err.Error()
	}
	var rep histReport
	if p, d := vlib.Guard(func() { rep = runHist(h) }); p {
		return true, d
	}
	if rep.harness != "" {
		return false, "harness: " + rep.harness
	}
	var msgs []string
	for _, v := range rep.viol {
		msgs = append(msgs, v.Clause+": "+v.Msg)
	}
	return len(rep.viol) > 0, fmt.Sprintf("%s results=%v expected=%v %s\n%s", h, rep.results, rep.want, rep.obs, strings.Join(msgs, "\n"))
}

// ---------- schedules part (vsched) ----------

// Scenario: after the init ops, every thread performs one write op concurrently.
type Scenario struct {
	Name      string   `json:"name"`
	Init      []string `json:"init"`
	Threads   []string `json:"threads"` // write ops, one per thread
	TypeCheck bool     `json:"series_type_check,omitempty"`
	Bound     int      `json:"-"` // preemption bound of the exploration (not part of a case)
}

// SchedCase is a replayable schedule.
type SchedCase struct {
	Part     string   `json:"part"` // "schedule"
	Scenario Scenario `json:"scenario"`
	Choices  []int    `json:"schedule"`
	Trace    []string `json:"trace,omitempty"`
}

func scenarios(thorough bool) []Scenario {
	if !thorough {
		return []Scenario{
			{Name: "new-measurement/float-vs-integer", Threads: []string{"WF", "WI"}, Bound: 2},
			{Name: "new-measurement/float-vs-float", Threads: []string{"WF", "WF"}, Bound: 1},
			{Name: "existing-measurement/float-vs-integer", Init: []string{"WG"}, Threads: []string{"WF", "WI"}, Bound: 1},
		}
	}
	return []Scenario{
		{Name: "new-measurement/float-vs-integer", Threads: []string{"WF", "WI"}, Bound: 3},
		{Name: "new-measurement/float-vs-float", Threads: []string{"WF", "WF"}, Bound: 3},
		{Name: "existing-measurement/float-vs-integer", Init: []string{"WG"}, Threads: []string{"WF", "WI"}, Bound: 2},
		{Name: "dropped-measurement/float-vs-integer", Init: []string{"WS", "DM"}, Threads: []string{"WF", "WI"}, Bound: 2},
		{Name: "new-measurement/float-vs-integer/series-type-check", Threads: []string{"WF", "WI"}, TypeCheck: true, Bound: 2},
		{Name: "new-measurement/float-vs-integer-vs-string", Threads: []string{"WF", "WI", "WS"}, Bound: 2},
	}
}

// schedFilter keeps the scheduling points of the write path that matter for field creation: the shard and
// field-set locks, the change-log writer, the engine write and the cache entry creation. Everything else
// (metrics, ring partitions' internals, ...) is passed through silently by the baton holder.
func schedFilter(kind vrt.OpKind, label string) bool {
	for _, p := range []string{"tsdb.(*Shard).", "tsdb.(*MeasurementFieldSet).", "tsdb.(*measurementFieldSetChangeMgr).",
		"tsm1.(*Engine).WritePoints", "tsm1.(*Cache).WriteMulti:RLock", "tsm1.(*partition).write:Lock"} {
		if strings.HasPrefix(label, p) {
			return true
		}
	}
	return false
}

type schedObs struct {
	results []string
	obs     Observation
	obsErr  string
	harness string
}

func schedHarness(sc Scenario, out *schedObs) *vrt.Harness {
	return &vrt.Harness{Name: sc.Name, Filter: schedFilter, Body: func(x *vrt.Exec) {
		*out = schedObs{}
		dir := vlib.Scratch("c10s-")
		defer os.RemoveAll(dir)
		fx, _, err := WriteHistory(dir, sc.Init, Options{SeriesTypeCheck: sc.TypeCheck, TSIPartitions: 1}, nil)
		if err != nil {
			out.harness = "init: " + err.Error()
			if fx != nil {
				fx.Close()
			}
			return
		}
		res := make([]string, len(sc.Threads))
		for i, op := range sc.Threads {
			i, op := i, op
			x.Go(fmt.Sprintf("T%d:%s", i, op), func() {
				res[i] = doOp(fx, op, len(sc.Init)+i)
			})
		}
		x.Run()
		x.S.Drain()
		out.results = res
		if !x.S.Deadlock && !x.S.StepCap {
			if p, d := vlib.Guard(func() {
				ob, oerr := Observe(fx)
				out.obs = ob
				if oerr != nil {
					out.obsErr = oerr.Error()
				}
			}); p {
				out.obsErr = d
			}
		}
		if cerr := fx.Close(); cerr != nil && out.harness == "" {
			out.harness = "close: " + cerr.Error()
		}
	}}
}

// judgeSched: the results and the final state must equal those of SOME sequential order of the threads.
func judgeSched(sc Scenario, so *schedObs) (ok bool, clause, why, winner string) {
	n := len(sc.Threads)
	perm := make([]int, n)
	for i := range perm {
		perm[i] = i
	}
	best := ""
	bestClause := ""
	var rec func(k int) bool
	try := func() bool {
		m := NewModel()
		for k, op := range sc.Init {
			m.Apply(op, k)
		}
		want := make([]string, n)
		for _, ti := range perm {
			want[ti] = m.Apply(sc.Threads[ti], len(sc.Init)+ti)
		}
		for i := range want {
			if want[i] != so.results[i] {
				if best == "" {
					got := resultKind(so.results[i])
					if got == "conflict" && resultKind(want[i]) == "conflict" {
						got = "conflict-wrong-count"
					}
					bestClause = "write-result/want=" + resultKind(want[i]) + "/got=" + got
					best = fmt.Sprintf("thread %d (%s) returned %q; in the order %v it must return %q", i, sc.Threads[i], so.results[i], perm, want[i])
				}
				return false
			}
		}
		if so.obsErr != "" {
			bestClause, best = "read-failed", "reading the shard back failed: "+so.obsErr
			return false
		}
		if mm := Compare(so.obs, m); len(mm) > 0 {
			bestClause, best = mm[0].Clause, mm[0].Msg+fmt.Sprintf(" (results match the order %v)", perm)
			return false
		}
		winner = sc.Threads[perm[0]]
		return true
	}
	rec = func(k int) bool {
		if k == n {
			return try()
		}
		for i := k; i < n; i++ {
			perm[k], perm[i] = perm[i], perm[k]
			if rec(k + 1) {
				return true
			}
			perm[k], perm[i] = perm[i], perm[k]
		}
		return false
	}
	if rec(0) {
		return true, "", "", winner
	}
	return false, bestClause, best, ""
}

func schedSig(sc Scenario, clause string) string {
	kinds := append([]string(nil), sc.Threads...)
	sort.Strings(kinds)
	init := "fresh"
	if len(sc.Init) > 0 {
		init = strings.Join(sc.Init, "+")
	}
	s := vlib.JoinSig("schedule", clause, strings.Join(kinds, "||"), "init="+init)
	if sc.TypeCheck {
		s += "/series-type-check=on"
	}
	return s
}

func runSchedules(t *testing.T, c *vlib.Ctx) {
	for _, sc := range scenarios(c.Thorough()) {
		if c.Expired() {
			c.Cap("budget expired before schedule scenario " + sc.Name)
			break
		}
		sc := sc
		var so schedObs
		h := schedHarness(sc, &so)
		st := vrt.Explore(t, h, sc.Bound, c.Shard, c.NShards, c.Expired, func(r *vrt.Result) {
			c.Eval(1)
			if r.Preempts > 0 {
				c.NontrivialN(1)
			}
			if r.Diverged != "" {
				c.HarnessError("schedule " + sc.Name + ": " + r.Diverged)
				return
			}
			if so.harness != "" {
				c.HarnessError("schedule " + sc.Name + ": " + so.harness)
				return
			}
			cs := SchedCase{Part: "schedule", Scenario: sc, Choices: r.Choices}
			if r.StepCap {
				c.Cap("schedule " + sc.Name + ": step cap")
				return
			}
			if r.Deadlock {
				c.Outcome("schedule:deadlock")
				c.Violation(schedSig(sc, "deadlock"), sc.Name+": deadlock: "+strings.Join(r.Blocked, "; "), cs)
				return
			}
			ok, clause, why, winner := judgeSched(sc, &so)
			if ok {
				c.Outcome(fmt.Sprintf("schedule:%s:first=%s:%s", sc.Name, winner, strings.Join(kindsOf(so.results), ",")))
			} else {
				c.Outcome("schedule:violation:" + clause)
				for _, s := range r.Steps {
					cs.Trace = append(cs.Trace, fmt.Sprintf("T%d %s", s.Thread, s.Label))
				}
				c.Violation(schedSig(sc, clause), fmt.Sprintf("%s: %s | results=%v %s", sc.Name, why, so.results, so.obs), cs)
			}
			if c.WantSample() && r.Preempts == sc.Bound {
				c.Sample(map[string]any{"scenario": sc.Name, "schedule": r.Choices, "preemptions": r.Preempts, "results": so.results})
			}
		})
		c.StateN(st.Nodes)
		c.Transition(st.Transitions)
		c.Trace(st.Executions)
		c.Extra("schedule_executions", st.Executions)
		if c.Shard == 0 {
			c.Note("schedule_bound_"+sc.Name, fmt.Sprint(sc.Bound))
		}
		if !st.Complete {
			c.Cap("budget expired in the schedules part during scenario " + sc.Name)
			break
		}
	}
}

func kindsOf(rs []string) []string {
	out := make([]string, len(rs))
	for i, r := range rs {
		out[i] = resultKind(r)
	}
	return out
}

func replaySched(t *testing.T, raw json.RawMessage) (bool, string) {
	var cs SchedCase
	if err := json.Unmarshal(raw, &cs); err != nil {
		return false, err.Error()
	}
	var so schedObs
	r := vrt.RunOnce(t, schedHarness(cs.Scenario, &so), cs.Choices)
	if os.Getenv("C10_TRACE") != "" {
		for i, st := range r.Steps {
			fmt.Fprintf(os.Stderr, "step %d: T%d %s enabled=%v\n", i, st.Thread, st.Label, st.Enabled)
		}
		fmt.Fprintf(os.Stderr, "threads=%v deadlock=%v blocked=%v\n", r.Names, r.Deadlock, r.Blocked)
	}
	if r.Diverged != "" {
		return false, "diverged: " + r.Diverged
	}
	if so.harness != "" {
		return false, "harness: " + so.harness
	}
	if r.Deadlock {
		return true, "deadlock: " + strings.Join(r.Blocked, "; ")
	}
	ok, clause, why, _ := judgeSched(cs.Scenario, &so)
	return !ok, fmt.Sprintf("%s schedule=%v results=%v %s\n%s: %s", cs.Scenario.Name, cs.Choices, so.results, so.obs, clause, why)
}

// =========================================================================================================
// PART 3 crash points (engine: verif/h/crashfs)
//
// A history writer (this binary re-executed under strace) performs a history with WriteHistory, bracketing the
// initial open of the empty directory (k=0) and every op (k=i+1) with BEGIN/ACK markers, and exits without closing.
// Every prefix image of the syscall log (crash between two syscalls) and every torn length of the writes to the
// field-schema files (fields.idxl, fields.idx.tmp, fields.idx; thorough: of every write) is materialized and
// recovered in a fresh subprocess by CheckCrashRecovery with the real open path. No U images: the statement speaks of
// process death and tsdb/shard.go promises no fsync-before-acknowledge for the field files beyond their O_SYNC.

// CrashHistory is one work item of the crash part: a history and the op window whose cuts are evaluated.
type CrashHistory struct {
	Name string   `json:"name"`
	Ops  []string `json:"ops"`
	// From/Upto: only the images whose cut lies inside or after op From (-1: also the initial open) and before the
	// BEGIN of op Upto (0 = len(Ops)) are evaluated; each work item records the whole history again.
	From int `json:"from"`
	Upto int `json:"upto,omitempty"`
	// AllTorn: torn images of every write (else only of the writes to the field-schema files).
	AllTorn bool `json:"all_torn,omitempty"`
	// ProbeField: the field of m the probe write addresses when the op in flight is not a single-field write
	// ("" = f).
	ProbeField string `json:"probe_field,omitempty"`
}

func (h CrashHistory) String() string {
	w := ""
	if h.Upto != 0 {
		w = fmt.Sprintf(" cuts of ops %d..%d", h.From, h.Upto-1)
	} else if h.From > 0 {
		w = fmt.Sprintf(" cuts of ops %d..", h.From)
	}
	return h.Name + " [" + strings.Join(h.Ops, " ") + "]" + w
}

// splitAt splits a history into work items at the given op indexes (increasing, inside the window).
func splitAt(h CrashHistory, at ...int) []CrashHistory {
	var out []CrashHistory
	lo := h.From
	for _, b := range append(at, len(h.Ops)) {
		w := h
		w.From, w.Upto = lo, b
		out = append(out, w)
		lo = b
	}
	return out
}

func perOp(h CrashHistory) []CrashHistory {
	var at []int
	for i := max(h.From, 0) + 1; i < len(h.Ops); i++ {
		at = append(at, i)
	}
	return splitAt(h, at...)
}

// crashAlphabet: the ops of the enumerated crash histories (kill-restart copies the directory elsewhere and is not
// part of a recorded history).
var crashAlphabet = []string{"WF", "WI", "WG", "W2", opDrop, opSnapshot, opReopen}

func crashHistories(tier string) []CrashHistory {
	thorough := tier == "thorough"
	var hs []CrashHistory
	add := func(h CrashHistory, quickSplit ...int) {
		if thorough {
			hs = append(hs, perOp(h)...)
		} else {
			hs = append(hs, splitAt(h, quickSplit...)...)
		}
	}
	// drop and re-creation inside ONE change log (no clean close in between, so recovery replays [create m.f] [drop m]
	// [create ...] from fields.idxl): the dropped measurement's field comes back with the same type, with another type,
	// as another field — without and with a record of another measurement in between; cuts of the last op (including
	// the cut after its acknowledgement). First in the list: short, and reached even when the budget share is cut.
	// The engine rebuilds an EMPTY field set from the stored data at open (tsm1 Engine.LoadMetadataIndex), which hides
	// whatever the replay lost: so another measurement (m2) is recorded first in three of them.
	for _, ops := range [][]string{{"W2", "WF", opDrop, "WF"}, {"W2", "WF", opDrop, "WI"}, {"W2", "WF", opDrop, "WG"}, {"WF", opDrop, "WI"}, {"WF", "W2", opDrop, "WF"}} {
		hs = append(hs, CrashHistory{Name: "drop-recreate", Ops: ops, From: len(ops) - 1})
	}
	// multi-field points: m.f is float; a write whose points carry f as a string together with a NEW float field sorting
	// before f (MA: a) / after f (MZ: z) is rejected; then an accepted write uses a new field alone (WA / WZ): from
	// its acknowledgement on the field's type must be found by every recovery, and the probe write of another type to
	// it must be rejected. Cuts of the rejected write, of the accepted one and after it; the third history adds a
	// snapshot (the accepted values sit in a TSM file, the WAL segment is gone) and takes the cuts from the snapshot on.
	for _, mh := range []CrashHistory{
		{Name: "multi-field", Ops: []string{"WF", "MA", "WA"}, From: 1, ProbeField: "a"},
		{Name: "multi-field", Ops: []string{"WF", "MZ", "WZ"}, From: 1, ProbeField: "z"},
		{Name: "multi-field", Ops: []string{"WF", "MA", "WA", opSnapshot}, From: 3, ProbeField: "a"},
	} {
		hs = append(hs, mh)
	}
	if thorough {
		for _, mh := range []CrashHistory{
			{Name: "multi-field", Ops: []string{"WF", "MA", "WZ"}, From: 1, ProbeField: "z"}, // the accepted write creates its field itself
			{Name: "multi-field", Ops: []string{"WF", "MZ", "WA"}, From: 1, ProbeField: "a"},
			{Name: "multi-field", Ops: []string{"WS", "MA", "WA"}, From: 1, ProbeField: "a"}, // the multi-field write is accepted: two creation records in one change
			{Name: "multi-field", Ops: []string{"WS", "MZ", "WZ"}, From: 1, ProbeField: "z"},
			{Name: "multi-field", Ops: []string{"WF", "MZ", "WZ", opSnapshot}, From: 3, ProbeField: "z"},
			{Name: "multi-field", Ops: []string{"WF", "MA", "WA", opReopen, "WA"}, From: 3, ProbeField: "a"}, // clean close folds the in-memory schema into fields.idx
			{Name: "multi-field", Ops: []string{"W2", "WF", "MA", "WA"}, From: 2, ProbeField: "a"},
			{Name: "multi-field", Ops: []string{"WF", "MA", "MA", "WA"}, From: 2, ProbeField: "a"},
			{Name: "multi-field", Ops: []string{"WF", "MA", opDrop, "WA"}, From: 2, ProbeField: "a"},
		} {
			hs = append(hs, mh)
		}
	}
	// field create (fields.idxl append), conflicting write (no record), second field, drop (deletion record), the
	// same field again with another type, other measurement
	add(CrashHistory{Name: "create-conflict-drop", Ops: []string{"WF", "WI", "WG", opDrop, "WS", "W2"}, From: -1}, 1, 3, 4)
	// fields.idx rewrite: clean close folds fields.idxl into fields.idx (tmp + rename); drop on top of a fields.idx that
	// lists the measurement; field create on top of fields.idx; second fold
	add(CrashHistory{Name: "fold-drop-fold", Ops: []string{"WF", "W2", opReopen, opDrop, "WI", opReopen, "WG"}}, 2, 3, 4, 5)
	// snapshot to TSM, then drop (TSM tombstones + deletion record), re-creation with another type, snapshot, reopen
	add(CrashHistory{Name: "snapshot-drop", Ops: []string{"WF", opSnapshot, opDrop, "WI", opSnapshot, opReopen}}, 2, 3, 5)
	if !thorough {
		return hs
	}
	add(CrashHistory{Name: "create-conflict-drop/all-torn", Ops: []string{"WF", "WI", "WG", opDrop, "WS", "W2"}, From: -1, AllTorn: true})
	add(CrashHistory{Name: "drop-twice", Ops: []string{"WF", "WG", opDrop, opDrop, "WF", opReopen, opDrop, opReopen, "WS"}})
	// every sequence of length 1..3 over the crash alphabet, cuts of the last op only
	maxLen := 3
	if s := os.Getenv("C10_CRASH_DEPTH"); s != "" {
		fmt.Sscan(s, &maxLen)
	}
	for n := 1; n <= maxLen; n++ {
		sequences(rep(crashAlphabet, n), func(s []string) {
			hs = append(hs, CrashHistory{Name: "seq", Ops: s, From: n - 1})
		})
	}
	// every sequence of length 4 over the 4 ops whose change-log records interact (two types of m.f, another
	// measurement, drop), cuts of the last op only
	if maxLen >= 3 {
		sequences(rep([]string{"WF", "WI", "W2", opDrop}, 4), func(s []string) {
			hs = append(hs, CrashHistory{Name: "seq4", Ops: s, From: 3})
		})
	}
	return hs
}

// crashOpts: the configuration of every crash history (1 tsi1 partition; series type check off).
var crashOpts = Options{TSIPartitions: 1}

// ---------- history writer (runs under strace) ----------

type crashWriterSpec struct {
	Dir     string   `json:"dir"`
	Markers string   `json:"markers"`
	Ops     []string `json:"ops"`
}

type markerOp struct {
	I  int    `json:"i"` // -1: the initial open
	Op string `json:"op"`
}

func crashWriterMain(js string) int {
	var sp crashWriterSpec
	if err := json.Unmarshal([]byte(js), &sp); err != nil {
		fmt.Fprintln(os.Stderr, "c10 writer: bad spec:", err)
		return 2
	}
	m, err := crashfs.OpenMarkers(sp.Markers)
	if err != nil {
		fmt.Fprintln(os.Stderr, "c10 writer:", err)
		return 2
	}
	opened := false
	open := func() {
		if !opened {
			opened = true
			m.Ack(0, "ok")
		}
	}
	m.Begin(0, markerOp{I: -1, Op: "open"})
	_, _, err = WriteHistory(sp.Dir, sp.Ops, crashOpts, func(k int, phase, op, result string) {
		if phase == "begin" {
			open()
			m.Begin(k+1, markerOp{I: k, Op: op})
		} else {
			m.Ack(k+1, result)
		}
	})
	if err != nil {
		fmt.Fprintln(os.Stderr, "c10 writer: history failed live:", err)
		return 1
	}
	open()
	return 0 // the process exits with the shard open
}

// ---------- acknowledgement context ----------

type crashCtx struct {
	NAcked int    // acknowledged ops (a prefix of the history), without the initial open
	Infl   string // op in flight ("" none, "open" the initial open)
	InflI  int
}

func contextOf(h CrashHistory, im *crashfs.Image) (cx crashCtx, err error) {
	cx.InflI = -1
	want := ModelOf(h.Ops).Result
	for _, a := range im.Acked() {
		var mo markerOp
		if err := json.Unmarshal([]byte(a.Op), &mo); err != nil {
			return cx, fmt.Errorf("marker payload %q: %v", a.Op, err)
		}
		if mo.I < 0 {
			continue
		}
		if mo.I != cx.NAcked || mo.Op != h.Ops[mo.I] {
			return cx, fmt.Errorf("acknowledgements are not a prefix of the history: op %d %s at position %d", mo.I, mo.Op, cx.NAcked)
		}
		if a.Result != want[mo.I] {
			return cx, fmt.Errorf("the history failed live: op %d %s returned %q, the model says %q", mo.I, mo.Op, a.Result, want[mo.I])
		}
		cx.NAcked++
	}
	if f := im.InFlight(); f != nil {
		var mo markerOp
		if err := json.Unmarshal([]byte(f.Op), &mo); err != nil {
			return cx, fmt.Errorf("marker payload %q: %v", f.Op, err)
		}
		cx.Infl, cx.InflI = mo.Op, mo.I
	}
	return cx, nil
}

func (h CrashHistory) keep(cx crashCtx) bool {
	pos := cx.NAcked - 1
	if cx.Infl != "" {
		pos = cx.InflI
	}
	return pos >= h.From && (h.Upto == 0 || pos < h.Upto)
}

// inflClass names the op in flight for signatures and outcomes, by what it does to the schema.
func inflClass(ops []string, cx crashCtx) string {
	switch cx.Infl {
	case "":
		return "none"
	case "open", opDrop, opSnapshot, opReopen:
		return cx.Infl
	}
	before := ModelOf(ops[:cx.NAcked])
	if ds := multiOps[cx.Infl]; ds != nil {
		if ModelOf(ops[:cx.NAcked+1]).Fate[cx.NAcked] == "rejected" {
			return "write-multi-field-conflicting"
		}
		return "write-multi-field"
	}
	d := writeOps[cx.Infl]
	cur, ok := before.Schema[d.m][d.f]
	switch {
	case !ok:
		return "write-new-field"
	case cur != d.typ:
		return "write-conflicting"
	}
	return "write-existing-field"
}

// ---------- recovery checker ----------

// CrashObs is the verdict of CheckCrashRecovery on one image under one acknowledgement context.
type CrashObs struct {
	ID     string `json:"id"`
	Done   bool   `json:"done"`
	Stage  string `json:"stage,omitempty"`  // recovery | probe | second-restart
	Clause string `json:"clause,omitempty"` // "" = the image recovers as the oracle demands
	Why    string `json:"why,omitempty"`
	Panic  string `json:"panic,omitempty"`
	Died   string `json:"died,omitempty"`   // set by the parent: the recovery subprocess died or hung on this image, also when run alone
	Settle string `json:"settle,omitempty"` // which schema the recovered shard shows: before | after | same (before = after)
	Probe  string `json:"probe,omitempty"`  // probe write and its result
	State  string `json:"state,omitempty"`  // recovered schema
}

func schemaMismatches(ob Observation, m *Model) []Mismatch {
	var out []Mismatch
	for _, mm := range Compare(Observation{Schema: ob.Schema, Raw: m.Data, Cursor: m.Data}, m) {
		out = append(out, mm)
	}
	return out
}

// multiset is in fact a set: the raw dump lists a value once per place it is stored in, and a crash between the
// rename of a snapshot's TSM file and the removal of its WAL segments legitimately leaves a value in both.
func multiset(vs []shardkit.Val) map[shardkit.Val]int {
	out := map[shardkit.Val]int{}
	for _, v := range vs {
		out[v] = 1
	}
	return out
}

// crashCompareData: per key, the stored values must contain what both models hold and nothing that neither holds.
func crashCompareData(got map[string][]shardkit.Val, before, after *Model, via string) []Mismatch {
	var out []Mismatch
	keys := map[string]bool{}
	for _, m := range []map[string][]shardkit.Val{got, before.Data, after.Data} {
		for k := range m {
			keys[k] = true
		}
	}
	var ks []string
	for k := range keys {
		ks = append(ks, k)
	}
	sort.Strings(ks)
	for _, k := range ks {
		b, a, g := multiset(before.Data[k]), multiset(after.Data[k]), multiset(got[k])
		var vals []shardkit.Val
		seen := map[shardkit.Val]bool{}
		for _, l := range [][]shardkit.Val{got[k], before.Data[k], after.Data[k]} {
			for _, v := range l {
				if !seen[v] {
					seen[v] = true
					vals = append(vals, v)
				}
			}
		}
		shardkit.SortVals(vals)
		for _, v := range vals {
			lo, hi := min(b[v], a[v]), max(b[v], a[v])
			op := int(v.T/100) - 1
			switch {
			case g[v] > hi:
				cl := "unexpected-value/"
				switch fateOf(before, after, op) {
				case "rejected":
					cl = "conflicting-value-stored/"
				case "dropped":
					cl = "dropped-data-resurrected/"
				}
				out = append(out, Mismatch{cl + via, fmt.Sprintf("%s: %q holds %d=%s (op #%d) which neither the state before nor after the op in flight contains", via, k, v.T, v.V, op)})
			case g[v] < lo:
				out = append(out, Mismatch{"accepted-value-lost/" + via, fmt.Sprintf("%s: %q lacks %d=%s of the acknowledged op #%d", via, k, v.T, v.V, op)})
			}
		}
	}
	return out
}

func fateOf(before, after *Model, op int) string {
	if f, ok := after.Fate[op]; ok {
		return f
	}
	return before.Fate[op]
}

func otherType(t string) string {
	switch t {
	case "float":
		return "integer"
	case "integer":
		return "string"
	}
	return "float"
}

// probeFor chooses the write made after the recovery: the field the op in flight touches (else m.f) with a type
// different from the one recorded before the cut (else from the one the op in flight carries).
func probeFor(ops []string, n int, infl string, before *Model, probeField string) (m, f, typ string) {
	m, f = "m", "f"
	if probeField != "" {
		f = probeField
	}
	if d, ok := writeOps[infl]; ok {
		m, f = d.m, d.f
		typ = otherType(d.typ)
	}
	if cur, ok := before.Schema[m][f]; ok {
		typ = otherType(cur)
	} else if mt, ok := before.Maybe[m][f]; ok {
		typ = otherType(mt)
	} else if typ == "" {
		typ = "integer"
	}
	return
}

func typeOfRendered(v string) string { return strings.SplitN(v, ":", 2)[0] }

// oneTypePerField: every stored value of a field has the type the shard records for that field.
func oneTypePerField(ob Observation) *Mismatch {
	var ks []string
	for k := range ob.Raw {
		ks = append(ks, k)
	}
	sort.Strings(ks)
	for _, k := range ks {
		parts := strings.SplitN(k, "#!~#", 2)
		if len(parts) != 2 {
			continue
		}
		meas := strings.SplitN(parts[0], ",", 2)[0]
		rec, ok := ob.Schema[meas][parts[1]]
		for _, v := range ob.Raw[k] {
			if t := typeOfRendered(v.V); !ok || t != rec {
				if !ok {
					rec = "<not recorded>"
				}
				return &Mismatch{"stored-value-type-differs-from-recorded-type", fmt.Sprintf("%q holds %d=%s but the shard records %s.%s as %s", k, v.T, v.V, meas, parts[1], rec)}
			}
		}
	}
	return nil
}

func sameRaw(a, b map[string][]shardkit.Val) bool {
	return shardkit.RawString(a) == shardkit.RawString(b)
}

// CheckCrashRecovery is the recovery checker of the crash part. dir holds a crash image of the history ops taken
// when ops[:n] were acknowledged and infl ("" = none) was in flight.
func CheckCrashRecovery(dir string, o Options, ops []string, n int, infl string, probeField string) (co CrashObs) {
	before := ModelOf(ops[:n])
	after := before
	if infl != "" && infl != "open" {
		after = ModelOf(ops[:n+1])
	}
	fail := func(stage, clause, why string) CrashObs {
		co.Stage, co.Clause, co.Why, co.Done = stage, clause, why, true
		return co
	}
	fx, err := shardkit.Open(dir, o.kit())
	if err != nil {
		return fail("recovery", "open-failed", "the shard does not open on the crash image: "+err.Error())
	}
	closed := false
	defer func() {
		if !closed && fx != nil && fx.Shard != nil {
			closeHung(fx)
		}
	}()
	// stage 1: what the recovered shard holds
	ob, err := Observe(fx)
	if err != nil {
		return fail("recovery", "harness", "observe: "+err.Error())
	}
	co.State = shardkit.SchemaString(ob.Schema, true)
	mb, ma := schemaMismatches(ob, before), schemaMismatches(ob, after)
	settled := before
	switch {
	case len(mb) == 0 && len(ma) == 0:
		co.Settle = "same"
	case len(mb) == 0:
		co.Settle = "before"
	case len(ma) == 0:
		co.Settle, settled = "after", after
	default:
		mm := mb[0]
		if len(ma) < len(mb) {
			mm = ma[0]
		}
		return fail("recovery", mm.Clause, fmt.Sprintf("%s (recorded schema {%s}; before the op in flight {%s}, after it {%s})", mm.Msg, co.State, shardkit.SchemaString(before.Schema, true), shardkit.SchemaString(after.Schema, true)))
	}
	if mm := crashCompareData(ob.Raw, before, after, "raw"); len(mm) > 0 {
		return fail("recovery", mm[0].Clause, mm[0].Msg)
	}
	if len(ob.CursorErr) > 0 {
		return fail("recovery", "read-error", "reading through the cursor API failed: "+strings.Join(ob.CursorErr, "; "))
	}
	if mm := crashCompareData(ob.Cursor, before, after, "cursor"); len(mm) > 0 {
		return fail("recovery", mm[0].Clause, mm[0].Msg)
	}
	if mm := oneTypePerField(ob); mm != nil {
		return fail("recovery", mm.Clause, mm.Msg)
	}
	// stage 2: a write of another type to the field in question, judged by the schema the shard settled on
	pm, pf, pt := probeFor(ops, n, infl, before, probeField)
	k := len(ops) + 1
	var specs []shardkit.PointSpec
	for j := 1; j <= pointsPerWrite; j++ {
		specs = append(specs, shardkit.PointSpec{M: pm, T: int64(100*(k+1) + j), Fields: []shardkit.FieldSpec{{Name: pf, Type: pt, Val: int64(10*(k+1) + j)}}})
	}
	pts, err := shardkit.Points(specs)
	if err != nil {
		return fail("probe", "harness", err.Error())
	}
	want := "ok"
	if cur, ok := settled.Schema[pm][pf]; ok && cur != pt {
		want = fmt.Sprintf("conflict:%d", pointsPerWrite)
	}
	got := "ok"
	if werr := fx.Write(pts); werr != nil {
		if nd, ok := shardkit.Dropped(werr); ok {
			got = fmt.Sprintf("conflict:%d", nd)
		} else {
			got = "err:" + werr.Error()
		}
	}
	// the probed field was new in a rejected multi-field point and no accepted write has used it: whether it exists is
	// left open by the statement, so the probe is rejected (Dropped=2) iff the recovered shard records it
	if mt, maybe := settled.Maybe[pm][pf]; maybe && mt != pt {
		if _, definite := settled.Schema[pm][pf]; !definite {
			want = "ok"
			if rec, ok := ob.Schema[pm][pf]; ok && rec != pt {
				want = fmt.Sprintf("conflict:%d", pointsPerWrite)
			}
		}
	}
	co.Probe = fmt.Sprintf("%s.%s as %s -> %s", pm, pf, pt, got)
	if got != want {
		g := resultKind(got)
		if g == "conflict" && resultKind(want) == "conflict" {
			g = "conflict-wrong-count"
		}
		return fail("probe", "write-result/want="+resultKind(want)+"/got="+g, fmt.Sprintf("after the recovery (recorded schema {%s}) a write of %s.%s as %s returned %q, the statement prescribes %q", co.State, pm, pf, pt, got, want))
	}
	ob2, err := Observe(fx)
	if err != nil {
		return fail("probe", "harness", "observe: "+err.Error())
	}
	wantSchema := map[string]map[string]string{}
	for ms, fs := range settled.Schema {
		wantSchema[ms] = map[string]string{}
		for f, t := range fs {
			wantSchema[ms][f] = t
		}
	}
	for ms, fs := range settled.Maybe { // open fields the recovered shard records (checked against Maybe at stage 1) stay as they are
		for f := range fs {
			if t, ok := ob.Schema[ms][f]; ok {
				if wantSchema[ms] == nil {
					wantSchema[ms] = map[string]string{}
				}
				wantSchema[ms][f] = t
			}
		}
	}
	if want == "ok" {
		if wantSchema[pm] == nil {
			wantSchema[pm] = map[string]string{}
		}
		wantSchema[pm][pf] = pt
	}
	if g, w := shardkit.SchemaString(ob2.Schema, true), shardkit.SchemaString(wantSchema, true); g != w {
		return fail("probe", "field-type-changed-by-probe", fmt.Sprintf("after the probe write (%s) the shard records {%s}, should be {%s}", co.Probe, g, w))
	}
	pkey := shardkit.CompositeKey(specs[0].SeriesKey(), pf)
	nProbe := 0
	for _, v := range ob2.Raw[pkey] {
		if v.T/100 == int64(k+1) {
			nProbe++
		}
	}
	if want == "ok" && nProbe != pointsPerWrite {
		return fail("probe", "accepted-value-lost/raw", fmt.Sprintf("the accepted probe write (%s) left %d of its %d values in %q", co.Probe, nProbe, pointsPerWrite, pkey))
	}
	if want != "ok" && nProbe != 0 {
		return fail("probe", "conflicting-value-stored/raw", fmt.Sprintf("the rejected probe write (%s) left %d values in %q", co.Probe, nProbe, pkey))
	}
	if len(ob2.CursorErr) > 0 {
		return fail("probe", "read-error", "reading through the cursor API failed after the probe write: "+strings.Join(ob2.CursorErr, "; "))
	}
	if mm := oneTypePerField(ob2); mm != nil {
		return fail("probe", mm.Clause, mm.Msg+" (after the probe write "+co.Probe+")")
	}
	// stage 3: second process death (directory copied without closing) and restart: nothing changes
	if err := fx.KillRestart(dir + ".kr"); err != nil {
		closed = fx.Shard == nil
		return fail("second-restart", "open-failed", "the shard does not open after the second process death: "+err.Error())
	}
	ob3, err := Observe(fx)
	if err != nil {
		return fail("second-restart", "harness", "observe: "+err.Error())
	}
	if g, w := shardkit.SchemaString(ob3.Schema, true), shardkit.SchemaString(ob2.Schema, true); g != w {
		cl := "field-type-changed"
		for ms := range ob3.Schema {
			if _, ok := ob2.Schema[ms]; !ok && len(ob3.Schema[ms]) > 0 {
				cl = "field-type-unexpected"
				if ms == "m" && settled.Drops > 0 {
					cl = "dropped-schema-resurrected"
				}
			}
		}
		for ms := range ob2.Schema {
			if len(ob2.Schema[ms]) > 0 && len(ob3.Schema[ms]) == 0 {
				cl = "field-type-lost"
			}
		}
		return fail("second-restart", cl, fmt.Sprintf("after the second restart the shard records {%s}, before it {%s}", g, w))
	}
	if !sameRaw(ob3.Raw, ob2.Raw) {
		return fail("second-restart", "stored-values-changed", fmt.Sprintf("after the second restart the shard holds {%s}, before it {%s}", shardkit.RawString(ob3.Raw), shardkit.RawString(ob2.Raw)))
	}
	if len(ob3.CursorErr) > 0 {
		return fail("second-restart", "read-error", "reading through the cursor API failed after the second restart: "+strings.Join(ob3.CursorErr, "; "))
	}
	if mm := oneTypePerField(ob3); mm != nil {
		return fail("second-restart", mm.Clause, mm.Msg)
	}
	co.Done = true
	return co
}

type crashRecItem struct {
	ID    string   `json:"id"`
	Dir   string   `json:"dir"`
	Ops   []string `json:"ops"`
	N     int      `json:"acked"`
	Infl  string   `json:"in_flight"`
	Probe string   `json:"probe_field,omitempty"`
}

type crashRecJob struct {
	Items []crashRecItem `json:"items"`
	Out   string         `json:"out"`
}

func crashRecoverOne(it crashRecItem) (o CrashObs) {
	panicked, desc := vlib.Guard(func() { o = CheckCrashRecovery(it.Dir, crashOpts, it.Ops, it.N, it.Infl, it.Probe) })
	if panicked {
		o = CrashObs{Panic: desc}
	}
	o.ID = it.ID
	scrub := func(s string) string {
		return strings.ReplaceAll(strings.ReplaceAll(s, it.Dir+".kr", "<image2>"), it.Dir, "<image>")
	}
	o.Why, o.Panic = scrub(o.Why), scrub(o.Panic)
	return
}

func crashRecoverMain(jobPath string) int {
	b, err := os.ReadFile(jobPath)
	if err != nil {
		fmt.Fprintln(os.Stderr, "c10 recover:", err)
		return 2
	}
	var job crashRecJob
	if err := json.Unmarshal(b, &job); err != nil {
		fmt.Fprintln(os.Stderr, "c10 recover:", err)
		return 2
	}
	out, err := os.OpenFile(job.Out, os.O_CREATE|os.O_WRONLY|os.O_APPEND, 0o666)
	if err != nil {
		fmt.Fprintln(os.Stderr, "c10 recover:", err)
		return 2
	}
	debug.SetMaxStack(32 << 20)
	for _, it := range job.Items {
		fmt.Fprintf(os.Stderr, "c10 recover: image %s\n", it.ID)
		o := crashRecoverOne(it)
		line, _ := json.Marshal(o)
		out.Write(append(line, '\n'))
		os.RemoveAll(it.Dir + ".kr")
		os.RemoveAll(it.Dir)
	}
	out.Close()
	return 0
}

func classify(o *CrashObs) (clause, stage, detail string) {
	switch {
	case o.Died != "":
		return "recovery-died", "recovery", "the recovery process did not survive the crash image: " + o.Died
	case o.Panic != "":
		fr := strings.TrimSpace(o.Panic[strings.LastIndex(o.Panic, "@")+1:])
		return "panic/" + strings.TrimPrefix(fr, "github.com/influxdata/influxdb/v2/"), "recovery", "panic during recovery: " + o.Panic
	case !o.Done:
		return "harness", "", "no verdict"
	case o.Clause == "":
		return "", "", ""
	}
	return o.Clause, o.Stage, o.Why
}

// ---------- recording, image enumeration, driver ----------

// no sync classes: P and T images only
var crashImgOpts = crashfs.Options{Torn: true, Unsynced: false}

func selfEnv(extra ...string) []string {
	var env []string
	for _, e := range os.Environ() {
		if strings.HasPrefix(e, "VERIF_WORKER") || strings.HasPrefix(e, "VERIF_REPLAY=") || strings.HasPrefix(e, "VERIF_CRASH_WRITER=") || strings.HasPrefix(e, "VERIF_C10_") || strings.HasPrefix(e, "GOMAXPROCS=") {
			continue
		}
		env = append(env, e)
	}
	return append(env, extra...)
}

func recordCrashHistory(scratch string, h CrashHistory) (*crashfs.Log, error) {
	dir, err := os.MkdirTemp(scratch, "rec-")
	if err != nil {
		return nil, err
	}
	defer os.RemoveAll(dir)
	sp := crashWriterSpec{Dir: filepath.Join(dir, "d"), Markers: filepath.Join(dir, "markers"), Ops: h.Ops}
	js, _ := json.Marshal(sp)
	return crashfs.Record(crashfs.RecordSpec{
		Argv:       []string{os.Args[0], "-test.run", "^TestCheck$", "-test.timeout", "0"},
		Env:        selfEnv("VERIF_CRASH_WRITER="+string(js), "GOMAXPROCS=1"),
		DataDir:    sp.Dir,
		MarkerFile: sp.Markers,
	})
}

var manifestTmpRe = regexp.MustCompile(`MANIFEST[0-9]+`)

// normPath removes the random suffix of the tsi1 manifest's temporary file name.
func normPath(p string) string { return manifestTmpRe.ReplaceAllString(p, "MANIFEST.tmp") }

// contentKey identifies the directory content of an image independently of the tsi1 manifest's temporary file name.
func contentKey(im *crashfs.Image) string {
	h := sha256.New()
	first := map[int]int{}
	for i, f := range im.Files {
		fmt.Fprintf(h, "%s|%v|", normPath(f.Path), f.Dir)
		if f.Dir {
			continue
		}
		if j, ok := first[f.Ino]; ok {
			fmt.Fprintf(h, "link%d|", j)
			continue
		}
		first[f.Ino] = i
		d := f.Data
		if int64(len(d)) > f.Size {
			d = d[:f.Size]
		}
		for len(d) > 0 && d[len(d)-1] == 0 {
			d = d[:len(d)-1]
		}
		fmt.Fprintf(h, "%d|%d|", f.Size, len(d))
		h.Write(d)
	}
	return hex.EncodeToString(h.Sum(nil)[:12])
}

func ctxKey(cx crashCtx) string { return fmt.Sprintf("%d/%s/%d", cx.NAcked, cx.Infl, cx.InflI) }

// findImage locates the image of a recorded case in a (possibly different) recording of the same history: by its
// descriptor if that still names the same content and context, else by searching all images of the log.
func findImage(l *crashfs.Log, cs *CrashCase) (*crashfs.Image, crashCtx, bool) {
	if im, err := l.Build(cs.Desc, crashImgOpts); err == nil {
		if cx, err := contextOf(cs.History, im); err == nil && contentKey(im) == cs.Content && ctxKey(cx) == cs.Ctx {
			return im, cx, true
		}
	}
	for im := range l.Images(crashImgOpts, nil) {
		if contentKey(im) != cs.Content {
			continue
		}
		if cx, err := contextOf(cs.History, im); err == nil && ctxKey(cx) == cs.Ctx {
			return im, cx, true
		}
	}
	return nil, crashCtx{}, false
}

var (
	crashLogMu    sync.Mutex
	crashLogCache = map[string]*crashfs.Log{}
)

func crashHistoryKey(h CrashHistory) string { return strings.Join(h.Ops, " ") }

// findCrashImage returns the image of the case from a cached or fresh recording of its history.
func findCrashImage(scratch string, cs *CrashCase) (*crashfs.Image, crashCtx, string) {
	h := cs.History
	crashLogMu.Lock()
	l := crashLogCache[crashHistoryKey(h)]
	crashLogMu.Unlock()
	if l != nil {
		if im, cx, ok := findImage(l, cs); ok {
			return im, cx, ""
		}
	}
	for try := 0; try < 6; try++ {
		l, err := recordCrashHistory(scratch, h)
		if err != nil {
			return nil, crashCtx{}, "recording failed: " + err.Error()
		}
		if im, cx, ok := findImage(l, cs); ok {
			crashLogMu.Lock()
			crashLogCache[crashHistoryKey(h)] = l
			crashLogMu.Unlock()
			return im, cx, ""
		}
	}
	return nil, crashCtx{}, "could not re-record a log that contains the image of this case (the history is not deterministic enough)"
}

const isolatedTimeout = 90 * time.Second

type crashItem struct {
	im *crashfs.Image
	cx crashCtx
}

func runCrashRecovery(dir string, h CrashHistory, items []crashItem, timeout time.Duration) (map[string]*CrashObs, string, error) {
	job := crashRecJob{Out: filepath.Join(dir, "out.jsonl")}
	for i, it := range items {
		d := filepath.Join(dir, strconv.Itoa(i))
		if err := it.im.Materialize(d); err != nil {
			return nil, "", fmt.Errorf("materialize %v: %w", it.im.Desc, err)
		}
		infl := it.cx.Infl
		job.Items = append(job.Items, crashRecItem{ID: strconv.Itoa(i), Dir: d, Ops: h.Ops, N: it.cx.NAcked, Infl: infl, Probe: h.ProbeField})
	}
	jb, _ := json.Marshal(job)
	jp := filepath.Join(dir, "job.json")
	if err := os.WriteFile(jp, jb, 0o666); err != nil {
		return nil, "", err
	}
	cmd := exec.Command(os.Args[0], "-test.run", "^TestCheck$", "-test.timeout", "0")
	cmd.Env = selfEnv("VERIF_C10_RECOVER="+jp, "GOMAXPROCS=2")
	var stderr strings.Builder
	cmd.Stdout = &stderr
	cmd.Stderr = &stderr
	if err := cmd.Start(); err != nil {
		return nil, "", err
	}
	done := make(chan error, 1)
	go func() { done <- cmd.Wait() }()
	timedOut := false
	select {
	case <-done:
	case <-time.After(timeout):
		timedOut = true
		cmd.Process.Kill()
		<-done
	}
	res := map[string]*CrashObs{}
	if f, err := os.Open(job.Out); err == nil {
		sc := bufio.NewScanner(f)
		sc.Buffer(make([]byte, 1<<20), 64<<20)
		for sc.Scan() {
			var o CrashObs
			if json.Unmarshal(sc.Bytes(), &o) == nil && o.ID != "" {
				oo := o
				res[o.ID] = &oo
			}
		}
		f.Close()
	}
	t := stderr.String()
	if timedOut {
		t = "TIMEOUT (recovery hangs)\n" + t
	}
	return res, t, nil
}

var repoFrameRe = regexp.MustCompile(`(?m)^(github\.com/influxdata/influxdb/v2/[^\n]*)\([^()\n]*\)\s*$`)

func deathClass(out string) string {
	what := "died"
	switch {
	case strings.HasPrefix(out, "TIMEOUT"):
		return "hang (no result within the time limit)"
	case strings.Contains(out, "stack overflow") || strings.Contains(out, "goroutine stack exceeds"):
		what = "fatal error: stack overflow"
	case strings.Contains(out, "fatal error:"):
		i := strings.Index(out, "fatal error:")
		what = strings.SplitN(out[i:], "\n", 2)[0]
	case strings.Contains(out, "panic:"):
		i := strings.Index(out, "panic:")
		what = strings.SplitN(out[i:], "\n", 2)[0]
	}
	if m := repoFrameRe.FindStringSubmatch(out); m != nil {
		what += " @ " + m[1]
	}
	return what
}

func recoverAll(scratch string, h CrashHistory, items []crashItem, expired func() bool) (obs []*CrashObs, notes map[int]string, capped bool, err error) {
	obs = make([]*CrashObs, len(items))
	notes = map[int]string{}
	const batch = 64
	for lo := 0; lo < len(items); {
		if expired != nil && expired() {
			return obs, notes, true, nil
		}
		hi := min(lo+batch, len(items))
		dir, err := os.MkdirTemp(scratch, "b-")
		if err != nil {
			return nil, nil, false, err
		}
		res, _, err := runCrashRecovery(dir, h, items[lo:hi], 120*time.Second+time.Duration(hi-lo)*3*time.Second)
		os.RemoveAll(dir)
		if err != nil {
			return nil, nil, false, err
		}
		next := hi
		for i := lo; i < hi; i++ {
			if o := res[strconv.Itoa(i-lo)]; o != nil {
				obs[i] = o
			} else if i < next {
				next = i
			}
		}
		if next == hi {
			lo = hi
			continue
		}
		d2, _ := os.MkdirTemp(scratch, "iso-")
		r2, out2, err2 := runCrashRecovery(d2, h, items[next:next+1], isolatedTimeout)
		os.RemoveAll(d2)
		switch {
		case err2 != nil:
			notes[next] = "the isolated recovery could not be run: " + err2.Error()
		case r2["0"] != nil:
			obs[next] = r2["0"]
		default:
			obs[next] = &CrashObs{ID: "0", Died: deathClass(out2)}
		}
		for i := next + 1; i < hi; i++ {
			obs[i] = nil
		}
		lo = next + 1
	}
	return obs, notes, false, nil
}

// CrashCase is the replayable form of one crash violation.
type CrashCase struct {
	Part    string             `json:"part"` // "crash"
	History CrashHistory       `json:"history"`
	Desc    crashfs.Descriptor `json:"image"`
	Content string             `json:"image_content"` // contentKey of the image: a re-recording is searched for it
	Ctx     string             `json:"ack_context"`   // acknowledged ops / op in flight at the cut
	Cut     string             `json:"cut_description"`
}

// fileClass names the kind of file a path of the shard tree denotes.
func fileClass(p string) string {
	if i := strings.Index(p, "->"); i >= 0 {
		p = p[i+2:]
	}
	if p == "" {
		return ""
	}
	b := filepath.Base(p)
	switch {
	case b == "fields.idx" || b == "fields.idxl" || b == "fields.idx.tmp":
		return b
	case strings.HasSuffix(b, ".wal"):
		return "wal"
	case strings.HasSuffix(b, ".tsm"):
		return "tsm"
	case strings.HasSuffix(b, ".tsm.tmp"):
		return "tsm.tmp"
	case strings.HasSuffix(b, ".tombstone") || strings.HasSuffix(b, ".tombstone.tmp"):
		return "tombstone"
	case strings.HasSuffix(b, ".tsl"):
		return "tsi-log"
	case strings.HasSuffix(b, ".tsi") || strings.HasSuffix(b, ".tsi.compacting"):
		return "tsi-file"
	case strings.HasPrefix(b, "MANIFEST"):
		return "tsi-manifest"
	case strings.Contains(p, "_series/"):
		return "series-file"
	case !strings.Contains(b, "."):
		return "dir"
	}
	return "other"
}

func isFieldsFile(p string) bool { return strings.HasPrefix(fileClass(p), "fields.") }

func cutClass(im *crashfs.Image) string {
	return strings.TrimSuffix(im.NextOp+":"+fileClass(im.NextPath), ":")
}

// crashSig: clause, stage of the recovery checker, what the op in flight does to the schema, kind of file the cut lies in.
func crashSig(clause, stage string, im *crashfs.Image, h CrashHistory, cx crashCtx) string {
	at := fileClass(im.NextPath)
	if at == "" {
		at = "between-ops"
	}
	return vlib.JoinSig("crash", clause, stage, "inflight="+inflClass(h.Ops, cx), "at="+at)
}

func crashHistoryRun(c *vlib.Ctx, scratch string, h CrashHistory) (stop bool) {
	t0 := time.Now()
	l, err := recordCrashHistory(scratch, h)
	tRec := time.Since(t0)
	defer func() {
		c.Logf("crash item %s: record %.1fs, total %.1fs", h, tRec.Seconds(), time.Since(t0).Seconds())
	}()
	if err != nil {
		if errors.Is(err, crashfs.ErrNoTrace) {
			c.Cap("crash part: strace cannot trace in this environment, no crash image was produced (" + err.Error() + ")")
			return true
		}
		c.HarnessError(fmt.Sprintf("crash part: recording history %s: %v", h, err))
		return false
	}
	crashLogMu.Lock()
	crashLogCache[crashHistoryKey(h)] = l
	crashLogMu.Unlock()
	c.Extra("crash_histories", 1)
	c.Extra("crash_events", int64(len(l.Events)))
	c.Extra("crash_syscalls_in_logs", int64(l.Syscalls))
	var items []crashItem
	var st crashfs.Stats
	skippedTorn := 0
	for im := range l.Images(crashImgOpts, &st) {
		cx, err := contextOf(h, im)
		if err != nil {
			c.HarnessError(fmt.Sprintf("crash part: history %s image %v: %v", h, im.Desc, err))
			return false
		}
		if !h.keep(cx) {
			continue
		}
		if im.Desc.Kind == crashfs.KindT && !h.AllTorn && !isFieldsFile(im.NextPath) {
			skippedTorn++
			continue
		}
		items = append(items, crashItem{im, cx})
	}
	for _, k := range []string{"P", "T"} {
		c.Extra("crash_images_generated_"+k, int64(st.Generated[k])) // by the engine, before deduplication and the window / file filters
	}
	c.Extra("crash_torn_images_of_other_files_not_evaluated", int64(skippedTorn))
	c.Extra("crash_writes_with_subsampled_torn_lengths", int64(st.LongTorn))
	t1 := time.Now()
	obs, notes, capped, err := recoverAll(scratch, h, items, func() bool { return crashExpired(c) })
	c.Logf("crash item %s: %d images recovered in %.1fs", h, len(items), time.Since(t1).Seconds())
	if err != nil {
		c.HarnessError("crash part: recovery batch: " + err.Error())
		return false
	}
	states := map[string]struct{}{}
	sampled := false
	for i, it := range items {
		o := obs[i]
		if o == nil {
			if n, ok := notes[i]; ok {
				c.HarnessError(fmt.Sprintf("crash part: history %s image %v: %s", h, it.im.Desc, n))
			}
			continue
		}
		im, cx := it.im, it.cx
		clause, stage, detail := classify(o)
		if clause == "harness" {
			c.HarnessError(fmt.Sprintf("crash part: history %s image %v: %s", h, im.Desc, detail))
			continue
		}
		c.Eval(1)
		c.Extra("crash_images", 1)
		c.Extra("crash_images_"+im.Desc.Kind, 1)
		c.Extra("crash_cuts_at:"+cutClass(im), 1)
		if o.State != "" {
			states[o.State+"|"+o.Probe] = struct{}{}
		}
		ic := inflClass(h.Ops, cx)
		dropAcked := ModelOf(h.Ops[:cx.NAcked]).Drops > 0
		if dropAcked || ic == "write-new-field" || ic == opDrop || strings.HasPrefix(ic, "write-multi-field") || len(ModelOf(h.Ops[:cx.NAcked]).Maybe["m"]) > 0 {
			c.Nontrivial("crash|" + crashHistoryKey(h) + "|" + im.Desc.String())
		}
		res := "ok"
		if clause != "" {
			res = "FAIL:" + clause + "@" + stage
		}
		da := ""
		if dropAcked {
			da = "/after-acked-drop"
		}
		c.Outcome(fmt.Sprintf("crash:%s/inflight=%s%s/schema=%s/probe=%s:%s", im.Desc.Kind, ic, da, o.Settle, resultKind(o.Probe[strings.LastIndex(o.Probe, " ")+1:]), res))
		cutDesc := fmt.Sprintf("%v: %s %s", im.Desc, im.NextOp, im.NextPath)
		if clause != "" {
			c.Violation(crashSig(clause, stage, im, h, cx),
				fmt.Sprintf("crash history %s, image %s; acknowledged ops %v, in flight: %s — stage %s: %s", h, cutDesc, h.Ops[:cx.NAcked], orNone(cx.Infl), stage, detail),
				CrashCase{Part: "crash", History: h, Desc: im.Desc, Content: contentKey(im), Ctx: ctxKey(cx), Cut: cutDesc})
		} else if !sampled && c.WantSample() && im.Desc.Kind == crashfs.KindT && (ic == "write-new-field" || ic == opDrop) {
			sampled = true
			c.Sample(map[string]any{"part": "crash", "history": h.String(), "image": im.Desc.String(), "at": im.NextOp + " " + im.NextPath, "acknowledged": h.Ops[:cx.NAcked],
				"in_flight": cx.Infl, "recovered_schema": o.State, "schema_is_that": o.Settle, "probe_write": o.Probe})
		}
	}
	c.Extra("crash_distinct_recovered_states", int64(len(states)))
	if capped {
		c.Cap("the crash part's share of the budget expired (recovery of history " + h.Name + ")")
	}
	return false
}

func orNone(s string) string {
	if s == "" {
		return "none"
	}
	return s
}

// The crash part may use at most half of the tier's wall budget, so that on an overloaded machine the history and
// schedule parts still run (a cap is recorded, never an alarm).
var crashDeadline time.Time

func crashShare(c *vlib.Ctx) time.Duration {
	if s := os.Getenv("C10_CRASH_SHARE_S"); s != "" { // development aid (mutation runs on an overloaded machine)
		if v, err := strconv.Atoi(s); err == nil {
			return time.Duration(v) * time.Second
		}
	}
	if c.Thorough() {
		return 400 * time.Second
	}
	return 30 * time.Second
}

func crashExpired(c *vlib.Ctx) bool { return c.Expired() || time.Now().After(crashDeadline) }

func runCrash(c *vlib.Ctx) {
	defer func() {
		if r := recover(); r != nil {
			c.HarnessError(fmt.Sprintf("crash part: explorer panicked: %v\n%s", r, debug.Stack()))
		}
	}()
	scratch := vlib.Scratch("c10c-")
	defer os.RemoveAll(scratch)
	crashDeadline = time.Now().Add(crashShare(c))
	for hi, h := range crashHistories(c.Tier) {
		if !c.Mine(int64(hi)) {
			continue
		}
		if crashExpired(c) {
			c.Cap("the crash part's share of the budget expired (before history " + h.Name + ")")
			break
		}
		if crashHistoryRun(c, scratch, h) {
			return
		}
	}
}

func replayCrash(raw json.RawMessage) (bool, string) {
	var cs CrashCase
	if err := json.Unmarshal(raw, &cs); err != nil {
		return false, err.Error()
	}
	scratch := vlib.Scratch("c10cr-")
	defer os.RemoveAll(scratch)
	h := cs.History
	im, cx, msg := findCrashImage(scratch, &cs)
	if im == nil {
		return false, msg
	}
	dir, _ := os.MkdirTemp(scratch, "img-")
	res, out, err := runCrashRecovery(dir, h, []crashItem{{im, cx}}, isolatedTimeout)
	if err != nil {
		return false, "recovery could not be run: " + err.Error()
	}
	obs := fmt.Sprintf("crash history %s image %s (content %s; acknowledged %v, in flight: %s): ", h, normPath(cs.Cut), cs.Content, h.Ops[:cx.NAcked], orNone(cx.Infl))
	o := res["0"]
	if o == nil {
		o = &CrashObs{ID: "0", Died: deathClass(out)}
	}
	clause, stage, detail := classify(o)
	if clause == "" {
		return false, obs + fmt.Sprintf("recovers as the oracle demands: schema {%s} = %s; probe %s", o.State, o.Settle, o.Probe)
	}
	return clause != "harness", obs + clause + "@" + stage + ": " + detail
}

func TestCheck(t *testing.T) {
	if js := os.Getenv("VERIF_CRASH_WRITER"); js != "" {
		os.Exit(crashWriterMain(js))
	}
	if jp := os.Getenv("VERIF_C10_RECOVER"); jp != "" {
		os.Exit(crashRecoverMain(jp))
	}
	if n := os.Getenv("VERIF_C10_DUMP"); n != "" { // development aid: print the event list of one crash history
		for _, h := range crashHistories("thorough") {
			if h.Name != n {
				continue
			}
			scratch := vlib.Scratch("c10d-")
			defer os.RemoveAll(scratch)
			l, err := recordCrashHistory(scratch, h)
			if err != nil {
				fmt.Println("record:", err)
				return
			}
			for _, e := range l.Events {
				if len(e.Data) > 32 {
					e.Data = e.Data[:32]
				}
				b, _ := json.Marshal(e)
				fmt.Println(string(b))
			}
			return
		}
		return
	}
	vlib.Main(t, &vlib.Check{
		ID: "C10", Level: "model_checking",
		Rule: "PART 1 histories (opseq): op alphabet {WF/WI/WS: write 2 points of m.f as float/integer/string, WG: m.g float, W2: m2.f integer, DM: DeleteMeasurement(m), SN: cache snapshot to TSM, RO: clean close+reopen, KR: kill-restart = copy of the live directory opened with the real open path}; quick: every sequence of length ≤3 over all 9 ops, the 16 sequences W2·{WF,WI,WS,WG}·DM·{WF,WI,WS,WG}·KR, every length-4 sequence over {WF,WI,DM,SN,RO,KR} starting with a write, every length-4 sequence write·{RO,KR,SN,DM}·{write,DM}·{RO,KR}, and the multi-field level {WF,WS}·{MA,MZ}·{WA,WZ}·{KR,RO,SN}·{PA,PZ} (MA / MZ: 2 points carrying m.f as a string TOGETHER WITH a new float field sorting before f (a) / after f (z): rejected with Dropped=2 when m.f is float, accepted when it is a string; WA / WZ: m.a / m.z float alone; PA / PZ: m.a / m.z as integer, which must be rejected with Dropped=2 once an accepted write has used the field; 48 sequences minus the 6 whose last write addresses a field that only a rejected point carried — the statement leaves open whether such a field is recorded, the model keeps it as 'maybe' and accepts both answers in the schema comparison); thorough: the heads {WF,WS}·{MA,MZ} followed by EVERY sequence of length 1..3 over {WA,WZ,PA,PZ,KR,RO,SN} (minus those left open), additionally length ≤3 with the default 8 tsi1 partitions and with INFLUXDB_SERIES_TYPE_CHECK_ENABLED, every length-4 sequence over all 9 ops starting with a write, every length-5 sequence over the 6 core ops starting with a write. Each history runs on a fresh real tsdb.Shard (tsm1 + tsi1 + series file + WAL; 1 tsi1 partition unless stated); every op result (error / PartialWriteError.Dropped) and the final recorded field types (MeasurementFieldSet), raw dump of all stored values and cursor reads are compared with a reference model; only the first divergence of a history is reported (all prefixes are enumerated). PART 2 schedules (vsched): 2 (thorough: one scenario with 3) real goroutines call Shard.WritePoints creating the same new field with different / equal types, from a fresh shard / a measurement that exists with another field [thorough: / a dropped measurement / series type check on]; every schedule with ≤ B preemptions (quick B=2 for float-vs-integer on a new measurement, 1 otherwise; thorough B=3 / 2) at the sync points of tsdb/shard.go, tsm1/engine.go, tsm1/cache.go, tsm1/ring.go kept by the filter (Shard.mu, MeasurementFieldSet.mu, change-log writer mutex, Engine.mu in WritePoints, Cache.mu in WriteMulti, ring partition lock); results + final schema/raw/cursor state must equal those of some sequential order of the writes. states = distinct (model schema, on-disk layout) of histories + decision nodes of the schedule trees; transitions = ops executed + scheduling steps; traces = histories + schedule executions. non-trivial = histories with a conflicting write or a restart after a drop; schedules with ≥1 preemption (distinct by construction). PART 3 crash points (crashfs; counted under the crash_* coverage keys and the crash:* outcomes, not under states/transitions/traces): histories over {WF, WI, WS, WG, W2, DM, SN, RO, MA, MZ, WA, WZ} performed by a writer subprocess (WriteHistory on a real shard with 1 tsi1 partition, GOMAXPROCS=1) under strace with BEGIN/ACK markers around the initial open of the empty directory and every op; the process exits without closing. Quick: 5 drop-recreate histories ([W2 WF DM WF], [W2 WF DM WI], [W2 WF DM WG], [WF DM WI], [WF W2 DM WF]: m2 first keeps the field set non-empty so that the engine does not rebuild it from the stored data at open; the change log holds create m.f, drop m, create again — replayed by an unclean restart; cuts of the last op incl. the one after its acknowledgement) 3 multi-field histories ([WF MA WA] and [WF MZ WZ]: cuts of the rejected multi-field write, of the accepted write of the new field alone and after it; [WF MA WA SN]: cuts of the snapshot; probe write = the new field as integer) and 3 hand-picked histories, every cut (create-conflict-drop [WF WI WG DM WS W2]: fields.idxl creation record, conflicting write, second field, deletion record, same field with another type, other measurement, plus the initial open; fold-drop-fold [WF W2 RO DM WI RO WG]: clean close folds fields.idxl into fields.idx (fields.idx.tmp written, renamed, fields.idxl removed), drop and create on top of a fields.idx that lists the measurement, second fold; snapshot-drop [WF SN DM WI SN RO]: drop after a snapshot (TSM tombstone + deletion record)), the 3 split into 13 work items by op window (each item re-records the history and evaluates the cuts of its ops). Thorough: the same with one work item per op, create-conflict-drop with the torn images of EVERY write (WAL, tsi1 log, series file, ...), drop-twice [WF WG DM DM WF RO DM RO WS], 9 more multi-field histories ([WF MA WZ], [WF MZ WA], [WS MA WA], [WS MZ WZ], [WF MZ WZ SN], [WF MA WA RO WA], [W2 WF MA WA], [WF MA MA WA], [WF MA DM WA]; cuts from the op after the multi-field write on), plus EVERY sequence of length 1..3 over the 7 ops {WF, WI, WG, W2, DM, SN, RO} and of length 4 over {WF, WI, W2, DM} (cuts of the last op only, so every (prefix, cut) is evaluated once). Per history every prefix of the syscall-level event list (P: crash between any two syscalls of any file of the shard tree) and every torn length 1..n-1 of the writes to fields.idxl / fields.idx.tmp / fields.idx (T); no U images (process death; see assumptions). One evaluation = one (image, acknowledgement context) recovered in a fresh subprocess by CheckCrashRecovery: real series file + Shard.Open on the image; recorded field types, raw stored values, cursor reads; one probe write of ANOTHER type to the field of the op in flight (else m.f; multi-field histories: else the new field); second process death (directory copied without closing) + open; everything read again. Crash oracle: the shard opens; recorded field types = those of the acknowledged ops or of acknowledged ops + op in flight (as a whole); an acknowledged DeleteMeasurement leaves no field of m; stored values ⊇ those in both states and ⊆ those in either; no cursor read error; every stored value has the type recorded for its field; the probe write is rejected with Dropped=2 iff the recovered schema holds the field with another type, and is stored iff accepted (a field that only a rejected multi-field point carried may be recorded or not; once an accepted write used it, it must be recorded); after the second restart field types and stored values are exactly those before it (a drop is not resurrected). Non-trivial crash case = a drop acknowledged before the cut, or a drop / field-creating write / multi-field write in flight, or a rejected multi-field write acknowledged before the cut",
		Assumptions: []string{
			"a kill-restart image is the directory tree as the page cache holds it while the process is alive and idle (every completed write(2) present); torn / unsynced images belong to the crash part (crashfs)",
			"background compactions and the automatic cache snapshotter are off; snapshots are taken by the SN op",
			"dropping a measurement that does not exist is a successful no-op",
			"multi-field points: the statement rejects the whole point when one of its fields conflicts and is silent on whether the point's other, NEW fields become recorded by the attempt; the model accepts both until an accepted write uses such a field (then it is recorded for good) and the enumerations skip histories whose write result depends on the open answer",
			"deep levels use INFLUXDB_EXP_TSI_PARTITIONS=1-equivalent (tsi1.DefaultPartitionN=1): the field schema does not depend on the index partitioning (length ≤1 quick / ≤3 thorough is repeated with the default 8)",
			"schedules: sequentially consistent interleavings at lock/atomic granularity; sync.Map operations (gensyncmap LoadOrStore) are atomic steps without a scheduling point of their own",
			"crash part: process-death model — ordered metadata, every completed write(2) present, the write in flight torn at any byte (field-schema files; thorough: one history with every file); data is never dropped back to the last fsync (no U images): tsdb/shard.go promises no fsync-before-acknowledge for fields.idx/fields.idxl (they are opened O_SYNC), and WAL/TSM/index durability belongs to C02/C14",
			"crash part: kill-restart (KR) is not part of recorded histories (it copies the directory elsewhere); WS only occurs in hand-picked histories; series type check off; 1 tsi1 partition",
			"crash part: the raw dump is compared as a set per key (a crash between the rename of a snapshot's TSM file and the removal of its WAL segment leaves a value in both places)",
			"the crash part may use at most half of the wall budget (30 s quick / 400 s thorough); beyond that it is capped (exhaustive:false), never an alarm",
		},
		QuickBudgetS: 60, ThoroughBudgetS: 800, WorkerEnv: []string{"GOMAXPROCS=1"},
		Run: func(c *vlib.Ctx) {
			// order: short histories (length ≤ 3), then the schedules, then the deeper history levels, so that
			// a capped run still covers both quantifiers
			const shallow = 6 // number of leading levels run before the schedules: length ≤ 3, the 16 drop-recreate-kill sequences and the multi-field level (same in both tiers)
			var idx int64
			part := os.Getenv("C10_PART")
			if part == "" || part == "crash" {
				runCrash(c) // crash part first: of fixed size, so a budget cap always lands in the deeper history levels
			}
			if part == "crash" {
				return
			}
			if part != "schedules" {
				runHistories(c, &idx, 0, shallow)
			}
			if part != "histories" {
				runSchedules(t, c)
			}
			if part != "schedules" {
				runHistories(c, &idx, shallow, 1<<30)
			}
		},
		Replay: func(c *vlib.Ctx, raw json.RawMessage) (bool, string) {
			var probe struct {
				Part string `json:"part"`
			}
			json.Unmarshal(raw, &probe)
			switch probe.Part {
			case "history":
				return replayHist(raw)
			case "schedule":
				return replaySched(t, raw)
			case "crash":
				return replayCrash(raw)
			}
			return false, "unknown case part " + probe.Part
		},
	})
}
