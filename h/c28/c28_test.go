// C28: permissions grant exactly what they name. Fully exhaustive over the declared domain.
package c28

import (
	"context"
	"encoding/json"
	"fmt"
	"os"
	"testing"

	influxdb "github.com/influxdata/influxdb/v2"
	"github.com/influxdata/influxdb/v2/authorizer"
	icontext "github.com/influxdata/influxdb/v2/context"
	"github.com/influxdata/influxdb/v2/kit/platform"
	"verif/h/vlib"
)

// P is the JSON form of a permission in the tiny domain: org/id 0 = absent.
type P struct {
	A   string `json:"action"`
	T   string `json:"type"`
	Org uint64 `json:"org"`
	ID  uint64 `json:"id"`
}

func (p P) perm() influxdb.Permission {
	r := influxdb.Resource{Type: influxdb.ResourceType(p.T)}
	if p.Org != 0 {
		o := platform.ID(p.Org)
		r.OrgID = &o
	}
	if p.ID != 0 {
		i := platform.ID(p.ID)
		r.ID = &i
	}
	return influxdb.Permission{Action: influxdb.Action(p.A), Resource: r}
}

// ref is the rule of the property statement, transcribed.
func ref(p, q P) bool {
	if p.A != q.A {
		return false
	}
	if p.T == string(influxdb.InstanceResourceType) {
		return true
	}
	if p.T != q.T {
		return false
	}
	switch {
	case p.Org == 0 && p.ID == 0: // type-wide
		return true
	case p.ID == 0: // organization-scoped
		return q.Org != 0 && q.Org == p.Org
	default: // names a resource id
		return q.ID != 0 && q.ID == p.ID
	}
}

func domain(types []string) []P {
	var out []P
	for _, a := range []string{"read", "write"} {
		for _, t := range types {
			for _, o := range []uint64{0, 1, 2} {
				for _, i := range []uint64{0, 11, 12} {
					out = append(out, P{a, t, o, i})
				}
			}
		}
	}
	return out
}

type Case struct {
	Via   string `json:"via"`
	Perms []P    `json:"perms"`
	Req   P      `json:"request"`
}

func eval(c Case) (got, want bool) {
	ps := make([]influxdb.Permission, len(c.Perms))
	for i, p := range c.Perms {
		ps[i] = p.perm()
		want = want || ref(p, c.Req)
	}
	req := c.Req.perm()
	switch c.Via {
	case "Matches":
		got = ps[0].Matches(req)
	case "PermissionSet.Allowed":
		got = influxdb.PermissionSet(ps).Allowed(req)
	case "authorizer.IsAllowed":
		a := &influxdb.Authorization{Status: influxdb.Active, Permissions: ps}
		ctx := icontext.SetAuthorizer(context.Background(), a)
		got = authorizer.IsAllowed(ctx, req) == nil
	case "authorizer.IsAllowedAny":
		a := &influxdb.Authorization{Status: influxdb.Active, Permissions: ps}
		ctx := icontext.SetAuthorizer(context.Background(), a)
		got = authorizer.IsAllowedAny(ctx, []influxdb.Permission{req}) == nil
	case "authorizer.inactive":
		a := &influxdb.Authorization{Status: influxdb.Inactive, Permissions: ps}
		ctx := icontext.SetAuthorizer(context.Background(), a)
		got = authorizer.IsAllowed(ctx, req) == nil
		want = false
	}
	return
}

func sig(c Case, got bool) string {
	dir := "grants-too-much"
	if !got {
		dir = "grants-too-little"
	}
	// discriminating features of the first permission vs the request
	p, q := c.Perms[0], c.Req
	f := fmt.Sprintf("sameAction=%v,sameType=%v,instance=%v,pOrg=%v,pID=%v,orgEq=%v,idEq=%v", p.A == q.A, p.T == q.T,
		p.T == "instance", p.Org != 0, p.ID != 0, p.Org != 0 && p.Org == q.Org, p.ID != 0 && p.ID == q.ID)
	return vlib.JoinSig(c.Via, dir, f)
}

func TestCheck(t *testing.T) {
	// Permission.matchesV1 prints a diagnostic with fmt.Printf and no newline; keep stdout clean.
	devnull, _ := os.OpenFile(os.DevNull, os.O_WRONLY, 0)
	real := os.Stdout
	vlib.Main(t, &vlib.Check{
		ID: "C28", Level: "exploration",
		Rule: "every (permission, request) pair over action∈{read,write} × all 23 resource types + one unknown type × org∈{absent,1,2} × id∈{absent,11,12} through Permission.Matches; every 2-element permission set over 4 types through PermissionSet.Allowed / authorizer.IsAllowed / IsAllowedAny / inactive token; oracle = the statement's rule transcribed; non-trivial = pairs with equal action whose permission type is instance or equals the request type (distinct by construction)",
		Assumptions: []string{"org/id domains of size 2 suffice because the code only compares ids for equality and nil-ness"},
		Run: func(c *vlib.Ctx) {
			os.Stdout = devnull
			defer func() { os.Stdout = real }()
			var types []string
			for _, rt := range influxdb.AllResourceTypes {
				types = append(types, string(rt))
			}
			types = append(types, "nosuchtype")
			D := domain(types)
			var idx int64
			check := func(cs Case, nontrivial bool) {
				got, want := eval(cs)
				c.Eval(1)
				if nontrivial {
					c.NontrivialN(1)
				}
				c.Outcome(fmt.Sprintf("%s:%v", cs.Via, got))
				if got != want {
					c.Violation(sig(cs, got), fmt.Sprintf("%s: permission(s) %+v vs request %+v: got %v, statement says %v", cs.Via, cs.Perms, cs.Req, got, want), cs)
				}
				if c.WantSample() && nontrivial {
					c.Sample(map[string]any{"case": cs, "granted": got})
				}
			}
			for _, p := range D {
				for _, q := range D {
					idx++
					if !c.Mine(idx) {
						continue
					}
					check(Case{"Matches", []P{p}, q}, p.A == q.A && (p.T == "instance" || p.T == q.T))
				}
			}
			D2 := domain([]string{"buckets", "orgs", "instance", "tasks"})
			// quick: sets restricted to read-action permissions paired with any permission; thorough: all pairs
			for i, p1 := range D2 {
				for j, p2 := range D2 {
					if j < i {
						continue
					}
					idx++
					if !c.Mine(idx) {
						continue
					}
					for _, q := range D2 {
						nt := ref(p1, q) != ref(p2, q)
						check(Case{"PermissionSet.Allowed", []P{p1, p2}, q}, nt)
						if c.Thorough() || q.T == "buckets" {
							check(Case{"authorizer.IsAllowed", []P{p1, p2}, q}, nt)
							check(Case{"authorizer.IsAllowedAny", []P{p1, p2}, q}, nt)
							check(Case{"authorizer.inactive", []P{p1, p2}, q}, nt)
						}
					}
				}
			}
		},
		Replay: func(c *vlib.Ctx, raw json.RawMessage) (bool, string) {
			os.Stdout = devnull
			defer func() { os.Stdout = real }()
			var cs Case
			if err := json.Unmarshal(raw, &cs); err != nil {
				return false, err.Error()
			}
			got, want := eval(cs)
			return got != want, fmt.Sprintf("%s perms=%+v request=%+v granted=%v expected=%v", cs.Via, cs.Perms, cs.Req, got, want)
		},
	})
}
