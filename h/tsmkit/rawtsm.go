package tsmkit

import (
	"encoding/binary"
	"fmt"
	"hash/crc32"
	"os"

	"github.com/influxdata/influxdb/v2/tsdb/engine/tsm1"
)

// RawBlock is one block of a TSM file as found through the file's index, decoded.
type RawBlock struct {
	MinTime, MaxTime int64 // from the index entry
	Offset           int64
	Size             uint32
	Typ              byte    // first byte of the block data
	Points           []Point // decoded values, in stored order
}

// RawKey is one index record: a key, its type and its blocks in index order.
type RawKey struct {
	Key    []byte
	Typ    byte // type recorded in the index
	Blocks []RawBlock
}

// ReadRawTSM parses a TSM file directly from its bytes following the documented on-disk format
// (header, blocks, index, footer) without using the repo's TSMReader/mmap; block payloads are decoded
// with tsm1.DecodeBlock and every block checksum is verified. Keys are returned in index order.
func ReadRawTSM(path string) ([]RawKey, error) {
	b, err := os.ReadFile(path)
	if err != nil {
		return nil, err
	}
	if len(b) < 5+8 {
		return nil, fmt.Errorf("file too short (%d bytes)", len(b))
	}
	if binary.BigEndian.Uint32(b[0:4]) != tsm1.MagicNumber || b[4] != tsm1.Version {
		return nil, fmt.Errorf("bad header % x", b[:5])
	}
	idx := int64(binary.BigEndian.Uint64(b[len(b)-8:]))
	if idx < 5 || idx > int64(len(b)-8) {
		return nil, fmt.Errorf("bad index offset %d (file %d bytes)", idx, len(b))
	}
	ix := b[idx : len(b)-8]
	var out []RawKey
	for len(ix) > 0 {
		if len(ix) < 2 {
			return nil, fmt.Errorf("truncated index (key length)")
		}
		kl := int(binary.BigEndian.Uint16(ix))
		ix = ix[2:]
		if len(ix) < kl+3 {
			return nil, fmt.Errorf("truncated index (key)")
		}
		rk := RawKey{Key: append([]byte(nil), ix[:kl]...), Typ: ix[kl]}
		n := int(binary.BigEndian.Uint16(ix[kl+1:]))
		ix = ix[kl+3:]
		if len(ix) < n*28 {
			return nil, fmt.Errorf("truncated index (%d entries for key %q)", n, rk.Key)
		}
		for i := 0; i < n; i++ {
			e := ix[i*28:]
			rb := RawBlock{
				MinTime: int64(binary.BigEndian.Uint64(e[0:8])),
				MaxTime: int64(binary.BigEndian.Uint64(e[8:16])),
				Offset:  int64(binary.BigEndian.Uint64(e[16:24])),
				Size:    binary.BigEndian.Uint32(e[24:28]),
			}
			if rb.Offset < 5 || rb.Size < 5 || rb.Offset+int64(rb.Size) > idx {
				return nil, fmt.Errorf("key %q block %d: entry offset=%d size=%d outside the block section [5,%d)", rk.Key, i, rb.Offset, rb.Size, idx)
			}
			raw := b[rb.Offset : rb.Offset+int64(rb.Size)]
			if crc32.ChecksumIEEE(raw[4:]) != binary.BigEndian.Uint32(raw[:4]) {
				return nil, fmt.Errorf("key %q block %d: checksum mismatch", rk.Key, i)
			}
			rb.Typ = raw[4]
			vals, err := tsm1.DecodeBlock(raw[4:], nil)
			if err != nil {
				return nil, fmt.Errorf("key %q block %d: decode: %v", rk.Key, i, err)
			}
			for _, v := range vals {
				rb.Points = append(rb.Points, Point{T: v.UnixNano(), Code: ValueCode(v)})
			}
			rk.Blocks = append(rk.Blocks, rb)
		}
		ix = ix[n*28:]
		out = append(out, rk)
	}
	return out, nil
}
