// Package tsmkit holds the fixture builders and the reference model shared by the TSM-file checks
// (C04 compaction, C06 multi-file reads, ...): enumeration of small block layouts and tombstone sets,
// writers for real TSM / tombstone files, an encoding of "which file wrote this point" into the value
// of each of the five block types, and the newest-file-wins merge model.
//
// Nothing here is an oracle that calls the code under test: the repo's TSMWriter / Tombstoner are only
// used to build input files.
package tsmkit

import (
	"fmt"
	"math"
	"os"
	"path/filepath"
	"sort"
	"strconv"

	"github.com/influxdata/influxdb/v2/tsdb/engine/tsm1"
)

// AllTypes lists the five TSM block types.
var AllTypes = []byte{tsm1.BlockFloat64, tsm1.BlockInteger, tsm1.BlockUnsigned, tsm1.BlockString, tsm1.BlockBoolean}

// TypeName is the name used in the generated method names (ReadFloatBlock, ...).
func TypeName(typ byte) string {
	switch typ {
	case tsm1.BlockFloat64:
		return "Float"
	case tsm1.BlockInteger:
		return "Integer"
	case tsm1.BlockUnsigned:
		return "Unsigned"
	case tsm1.BlockString:
		return "String"
	case tsm1.BlockBoolean:
		return "Boolean"
	}
	return fmt.Sprintf("type%d", typ)
}

// TypeByName is the inverse of TypeName.
func TypeByName(s string) (byte, bool) {
	for _, t := range AllTypes {
		if TypeName(t) == s {
			return t, true
		}
	}
	return 0, false
}

// KeyFor returns the series key used for a block type ("<measurement>,<tag>#!~#<field>").
// The keys sort in the order Boolean < Float < Integer < String < Unsigned.
func KeyFor(typ byte) []byte {
	return []byte("verif,typ=" + TypeName(typ) + "#!~#v")
}

// Range is a closed time range (a tombstone).
type Range struct {
	Min int64 `json:"min"`
	Max int64 `json:"max"`
}

// FullRange is what Tombstoner.Add (delete of the whole key) records.
var FullRange = Range{math.MinInt64, math.MaxInt64}

func (r Range) Covers(t int64) bool { return r.Min <= t && t <= r.Max }

func (r Range) String() string {
	if r == FullRange {
		return "[all]"
	}
	return fmt.Sprintf("[%d,%d]", r.Min, r.Max)
}

// TombSet is the set of tombstone ranges recorded for one key in one file.
type TombSet []Range

func (ts TombSet) Covers(t int64) bool {
	for _, r := range ts {
		if r.Covers(t) {
			return true
		}
	}
	return false
}

func (ts TombSet) String() string {
	if len(ts) == 0 {
		return "none"
	}
	s := ""
	for _, r := range ts {
		s += r.String()
	}
	return s
}

// Layout is the block structure of one key in one file: ascending, pairwise disjoint blocks of
// ascending timestamps.
type Layout [][]int64

// Times returns all timestamps of the layout in ascending order.
func (l Layout) Times() []int64 {
	var out []int64
	for _, b := range l {
		out = append(out, b...)
	}
	return out
}

func (l Layout) NPoints() int {
	n := 0
	for _, b := range l {
		n += len(b)
	}
	return n
}

func (l Layout) String() string {
	s := ""
	for _, b := range l {
		s += "{"
		for i, t := range b {
			if i > 0 {
				s += ","
			}
			s += strconv.FormatInt(t, 10)
		}
		s += "}"
	}
	if s == "" {
		return "{}"
	}
	return s
}

// Layouts enumerates every non-empty subset of {1..maxT} split into 1..maxBlocks contiguous blocks,
// simplest first (fewer points, then fewer blocks, then lexicographic). Every layout appears once.
// maxT=5,maxBlocks=2 gives 80 layouts; maxT=4 gives 32; maxT=3 gives 12.
func Layouts(maxT, maxBlocks int) []Layout {
	var out []Layout
	for mask := 1; mask < 1<<maxT; mask++ {
		var ts []int64
		for t := 1; t <= maxT; t++ {
			if mask&(1<<(t-1)) != 0 {
				ts = append(ts, int64(t))
			}
		}
		var split func(rest []int64, acc Layout)
		split = func(rest []int64, acc Layout) {
			if len(rest) == 0 {
				cp := make(Layout, len(acc))
				copy(cp, acc)
				out = append(out, cp)
				return
			}
			if len(acc) == maxBlocks {
				return
			}
			for n := len(rest); n >= 1; n-- {
				if len(acc) == maxBlocks-1 && n != len(rest) {
					continue // the last permitted block must take everything
				}
				split(rest[n:], append(acc, rest[:n]))
			}
		}
		split(ts, nil)
	}
	sort.SliceStable(out, func(i, j int) bool {
		a, b := out[i], out[j]
		if a.NPoints() != b.NPoints() {
			return a.NPoints() < b.NPoints()
		}
		if len(a) != len(b) {
			return len(a) < len(b)
		}
		return a.String() < b.String()
	})
	return out
}

// Code encodes (file number, timestamp) into the number stored as the point's value.
func Code(file int, t int64) int64 { return int64(file)*100 + t }

// NewValue builds the tsm1 value of the given block type carrying code. Booleans can only carry one
// bit: they store whether the file number is odd (see ObservedCode).
func NewValue(typ byte, t int64, code int64) tsm1.Value {
	switch typ {
	case tsm1.BlockFloat64:
		return tsm1.NewFloatValue(t, float64(code))
	case tsm1.BlockInteger:
		return tsm1.NewIntegerValue(t, code)
	case tsm1.BlockUnsigned:
		return tsm1.NewUnsignedValue(t, uint64(code))
	case tsm1.BlockString:
		return tsm1.NewStringValue(t, strconv.FormatInt(code, 10))
	case tsm1.BlockBoolean:
		return tsm1.NewBooleanValue(t, (code/100)%2 == 1)
	}
	panic("tsmkit: bad type")
}

// ObservedCode is what decoding a stored value of that type gives back for code (identity except
// for booleans, which keep file-number parity only).
func ObservedCode(typ byte, code int64) int64 {
	if typ == tsm1.BlockBoolean {
		return (code / 100) % 2
	}
	return code
}

// ValueCode decodes a tsm1 value back into its code (-1: not decodable).
func ValueCode(v tsm1.Value) int64 {
	switch x := v.(type) {
	case tsm1.FloatValue:
		return int64(x.RawValue())
	case tsm1.IntegerValue:
		return x.RawValue()
	case tsm1.UnsignedValue:
		return int64(x.RawValue())
	case tsm1.StringValue:
		return StringCode(x.RawValue())
	case tsm1.BooleanValue:
		return BoolCode(x.RawValue())
	}
	return -1
}

func StringCode(s string) int64 {
	n, err := strconv.ParseInt(s, 10, 64)
	if err != nil {
		return -1
	}
	return n
}

func BoolCode(b bool) int64 {
	if b {
		return 1
	}
	return 0
}

// Values builds the block values of one block written by file number `file`.
func Values(typ byte, file int, times []int64) tsm1.Values {
	vs := make(tsm1.Values, 0, len(times))
	for _, t := range times {
		vs = append(vs, NewValue(typ, t, Code(file, t)))
	}
	return vs
}

// KeyData is one key of a file to be written.
type KeyData struct {
	Key    []byte
	Typ    byte
	Blocks Layout
}

// WriteTSM writes a real TSM file at path with the repo's TSMWriter. Keys are written in sorted order;
// keys with an empty layout are skipped. Values carry Code(file, t).
func WriteTSM(path string, file int, keys []KeyData) error {
	ks := append([]KeyData(nil), keys...)
	sort.SliceStable(ks, func(i, j int) bool { return string(ks[i].Key) < string(ks[j].Key) })
	f, err := os.OpenFile(path, os.O_CREATE|os.O_RDWR|os.O_EXCL, 0o666)
	if err != nil {
		return err
	}
	w, err := tsm1.NewTSMWriter(f)
	if err != nil {
		f.Close()
		return err
	}
	for _, k := range ks {
		for _, b := range k.Blocks {
			if len(b) == 0 {
				continue
			}
			if err := w.Write(k.Key, Values(k.Typ, file, b)); err != nil {
				w.Close()
				return err
			}
		}
	}
	if err := w.WriteIndex(); err != nil {
		w.Close()
		return err
	}
	return w.Close()
}

// WriteTombstone writes the tombstone file that belongs to tsmPath (same base name, extension
// ".tombstone") with the repo's Tombstoner: every range of ts for every key.
func WriteTombstone(tsmPath string, keys [][]byte, ts TombSet) error {
	if len(ts) == 0 {
		return nil
	}
	tb := tsm1.NewTombstoner(tsmPath, nil)
	for _, r := range ts {
		if err := tb.AddRange(keys, r.Min, r.Max); err != nil {
			return err
		}
	}
	return tb.Flush()
}

// TombstonePath is the name of the tombstone file belonging to a TSM file.
func TombstonePath(tsmPath string) string {
	ext := filepath.Ext(tsmPath)
	return tsmPath[:len(tsmPath)-len(ext)] + "." + tsm1.TombstoneFileExtension
}

// FileName is the TSM file name for a generation/sequence.
func FileName(gen, seq int) string {
	return tsm1.DefaultFormatFileName(gen, seq) + "." + tsm1.TSMFileExtension
}

// ---- reference model ----

// Point is one logical point: timestamp and the code of the value.
type Point struct {
	T    int64 `json:"t"`
	Code int64 `json:"code"`
}

// LivePoints is the logical content one file contributes for a key: every timestamp of the layout
// that no tombstone range of that file covers, ascending, valued Code(file, t).
func LivePoints(file int, l Layout, ts TombSet) []Point {
	var out []Point
	for _, t := range l.Times() {
		if !ts.Covers(t) {
			out = append(out, Point{t, Code(file, t)})
		}
	}
	return out
}

// MergeNewestWins merges per-file contents (files[0] oldest): for every timestamp the point of the
// last file that holds it; result ascending by time.
func MergeNewestWins(files [][]Point) []Point {
	m := map[int64]int64{}
	for _, f := range files {
		for _, p := range f {
			m[p.T] = p.Code
		}
	}
	out := make([]Point, 0, len(m))
	for t, c := range m {
		out = append(out, Point{t, c})
	}
	sort.Slice(out, func(i, j int) bool { return out[i].T < out[j].T })
	return out
}
