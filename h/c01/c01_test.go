// C01: read-your-writes with last-write-wins across flushes and compactions.
//
// Explicit-state BFS over bounded operation sequences on a REAL tsm1.Engine (WAL on, background loops off):
// writes / overwrites / an out-of-order batch / a second field of another type / cache snapshot / fast and
// full compaction of every interval of ≥2 adjacent generations / optimize compaction / reopen. A transition is
// executed by replaying the whole sequence on a fresh engine; after the last step every sub-range is read in both
// directions through the array cursors (CreateCursorIterator) and, for the TSM-resident part, through KeyCursor,
// and compared with a map model. States are canonical (cache contents, per-file contents, file levels) keys read
// back from the implementation; a state already seen is not expanded again.
//
// Part 1 (before the BFS, own budget): flush layouts. Every way of spreading an out-of-order write history of the one
// series over n cache snapshots with NO compaction in between (n TSM generations of 1..3 points each, any overlap
// pattern of their time ranges: chains, nesting, disjoint, isolated blocks), up to order-isomorphism of the
// timestamps, is built on a real engine and read over every sub-range in both directions through both read paths.
package c01

import (
	"context"
	"encoding/json"
	"fmt"
	"os"
	"path/filepath"
	"sort"
	"strings"
	"testing"
	"time"

	"github.com/influxdata/influxdb/v2/models"
	"github.com/influxdata/influxdb/v2/tsdb"
	"github.com/influxdata/influxdb/v2/tsdb/engine/tsm1"
	_ "github.com/influxdata/influxdb/v2/tsdb/index/tsi1"
	"github.com/influxdata/influxql"
	"verif/h/vlib"
)

const (
	seriesKey = "cpu,host=a"
	fieldF    = "f" // float
	fieldG    = "g" // integer
)

var tsF = []int64{1, 2, 3}
var tsG = []int64{2}

// Op is one step of a history.
type Op struct {
	K    string `json:"op"` // W | Wb | G | Snap | SnapBegin | SnapEnd | C | Opt | Reopen
	T    int64  `json:"t,omitempty"`
	I    int    `json:"i,omitempty"` // C: index of the oldest file of the group (0 = oldest generation)
	J    int    `json:"j,omitempty"` // C: index of the newest file of the group
	Fast bool   `json:"fast,omitempty"`
}

func (o Op) String() string {
	switch o.K {
	case "W":
		return fmt.Sprintf("W(f,t=%d)", o.T)
	case "Wb":
		return "Wbatch(f,t=3,1)"
	case "G":
		return fmt.Sprintf("W(g:int,t=%d)", o.T)
	case "C":
		m := "full"
		if o.Fast {
			m = "fast"
		}
		return fmt.Sprintf("Compact[%d..%d,%s]", o.I, o.J, m)
	}
	return o.K
}

func pathString(p []Op) string {
	s := make([]string, len(p))
	for i, o := range p {
		s[i] = o.String()
	}
	return strings.Join(s, " ; ")
}

func opsFor(nfiles int, inflight bool) []Op {
	ops := []Op{{K: "W", T: 1}, {K: "W", T: 2}, {K: "W", T: 3}, {K: "Wb"}, {K: "G", T: 2}}
	if inflight {
		ops = append(ops, Op{K: "SnapEnd"})
	} else {
		ops = append(ops, Op{K: "Snap"}, Op{K: "SnapBegin"})
	}
	ops = append(ops, Op{K: "Reopen"})
	if nfiles >= 1 {
		ops = append(ops, Op{K: "Opt"})
	}
	for w := 1; w < nfiles; w++ { // narrow groups first
		for i := 0; i+w < nfiles; i++ {
			ops = append(ops, Op{K: "C", I: i, J: i + w}, Op{K: "C", I: i, J: i + w, Fast: true})
		}
	}
	return ops
}

// ---------------------------------------------------------------------------------------------------
// fixture
// ---------------------------------------------------------------------------------------------------

type idSets []*tsdb.SeriesIDSet

func (a idSets) ForEach(f func(ids *tsdb.SeriesIDSet)) error {
	for _, v := range a {
		f(v)
	}
	return nil
}

// index is the tsi1 index + series file. They hold nothing but the one series key of this check and take no part
// in the write/read paths under test, so one instance is shared by all executions of a worker (saves ~90% of the
// per-execution cost); every execution gets a fresh tsm1.Engine with fresh data and WAL directories.
type index struct {
	dir   string
	ids   *tsdb.SeriesIDSet
	idx   tsdb.Index
	sfile *tsdb.SeriesFile
	n     int
}

func openIndex() (*index, error) {
	dir := vlib.Scratch("c01-")
	dbPath := filepath.Join(dir, "ix", "db0")
	if err := os.MkdirAll(dbPath, 0o777); err != nil {
		return nil, err
	}
	sfile := tsdb.NewSeriesFile(filepath.Join(dbPath, tsdb.SeriesFileDirectory))
	if err := sfile.Open(); err != nil {
		return nil, err
	}
	opt := tsdb.NewEngineOptions()
	opt.IndexVersion = tsdb.TSI1IndexName
	ids := tsdb.NewSeriesIDSet()
	opt.SeriesIDSets = idSets{ids}
	idx, err := tsdb.NewIndex(1, "db0", filepath.Join(dbPath, "index"), ids, sfile, opt)
	if err != nil {
		sfile.Close()
		return nil, err
	}
	if err := idx.Open(); err != nil {
		sfile.Close()
		return nil, err
	}
	return &index{dir: dir, ids: ids, idx: idx, sfile: sfile}, nil
}

func (ix *index) close() {
	ix.idx.Close()
	ix.sfile.Close()
	os.RemoveAll(ix.dir)
}

func (ix *index) openEngine(root string) (*tsm1.Engine, error) {
	opt := tsdb.NewEngineOptions()
	opt.IndexVersion = tsdb.TSI1IndexName
	opt.SeriesIDSets = idSets{ix.ids}
	e := tsm1.NewEngine(1, ix.idx, filepath.Join(root, "data"), filepath.Join(root, "wal"), ix.sfile, opt).(*tsm1.Engine)
	e.SetEnabled(false) // no background snapshot/compaction loops; the Compactor itself is enabled by Open
	if err := e.Open(context.Background()); err != nil {
		return nil, err
	}
	if err := e.LoadMetadataIndex(1, ix.idx); err != nil {
		e.Close(false)
		return nil, err
	}
	return e, nil
}

type model struct {
	f, tf map[int64]float64 // latest acknowledged value per timestamp; tf: the part flushed to TSM files
	g, tg map[int64]int64
}

func newModel() *model {
	return &model{f: map[int64]float64{}, tf: map[int64]float64{}, g: map[int64]int64{}, tg: map[int64]int64{}}
}

type run struct {
	ix   *index
	e    *tsm1.Engine
	root string
	ctr  int64
	val  float64 // if non-zero, writeF writes this value instead of the running counter (flush layouts: batch number)
	m    *model
	// snapshot in flight (between SnapBegin and SnapEnd)
	snap     *tsm1.Cache
	snapSegs []string
	snapF    map[int64]float64
	snapG    map[int64]int64
}

func (ix *index) newRun() (*run, error) {
	ix.n++
	root := filepath.Join(ix.dir, fmt.Sprintf("e%d", ix.n))
	e, err := ix.openEngine(root)
	if err != nil {
		return nil, err
	}
	return &run{ix: ix, e: e, root: root, m: newModel()}, nil
}

func (r *run) close() {
	if r.e != nil {
		r.e.Close(false)
	}
	os.RemoveAll(r.root)
}

func (r *run) ensureField(name string, typ influxql.DataType) error {
	f, created, err := r.e.MeasurementFields([]byte("cpu")).CreateFieldIfNotExists(name, typ)
	if err != nil {
		return err
	}
	if created {
		ch := tsdb.FieldChanges{&tsdb.FieldChange{FieldCreate: tsdb.FieldCreate{Measurement: []byte("cpu"), Field: f}, ChangeType: tsdb.AddMeasurementField}}
		if err := r.e.MeasurementFieldSet().Save(ch); err != nil {
			return err
		}
	}
	return nil
}

func (r *run) writeF(ts ...int64) error {
	name, tags := models.ParseKey([]byte(seriesKey))
	if err := r.ensureField(fieldF, influxql.Float); err != nil {
		return err
	}
	var ps []models.Point
	vals := map[int64]float64{}
	for _, t := range ts {
		r.ctr++
		v := float64(r.ctr)
		if r.val != 0 {
			v = r.val
		}
		mp, err := models.NewPoint(name, tags, models.Fields{fieldF: v}, time.Unix(0, t))
		if err != nil {
			return err
		}
		ps = append(ps, mp)
		vals[t] = v
	}
	if err := r.e.CreateSeriesIfNotExists(ps[0].Key(), ps[0].Name(), ps[0].Tags()); err != nil {
		return err
	}
	if err := r.e.WritePoints(context.Background(), ps); err != nil {
		return err
	}
	for t, v := range vals { // acknowledged
		r.m.f[t] = v
	}
	return nil
}

func (r *run) writeG(t int64) error {
	name, tags := models.ParseKey([]byte(seriesKey))
	if err := r.ensureField(fieldG, influxql.Integer); err != nil {
		return err
	}
	r.ctr++
	v := r.ctr
	mp, err := models.NewPoint(name, tags, models.Fields{fieldG: v}, time.Unix(0, t))
	if err != nil {
		return err
	}
	if err := r.e.CreateSeriesIfNotExists(mp.Key(), mp.Name(), mp.Tags()); err != nil {
		return err
	}
	if err := r.e.WritePoints(context.Background(), []models.Point{mp}); err != nil {
		return err
	}
	r.m.g[t] = v
	return nil
}

func (r *run) files() []string {
	var out []string
	for _, s := range r.e.FileStore.Stats() {
		out = append(out, s.Path)
	}
	sort.Strings(out)
	return out
}

// apply executes one op; the error is an implementation-side failure (not part of the model).
func (r *run) apply(o Op) error {
	switch o.K {
	case "W":
		return r.writeF(o.T)
	case "Wb":
		return r.writeF(3, 1)
	case "G":
		return r.writeG(o.T)
	case "Snap":
		if err := r.e.WriteSnapshot(); err != nil {
			return err
		}
		for t, v := range r.m.f {
			r.m.tf[t] = v
		}
		for t, v := range r.m.g {
			r.m.tg[t] = v
		}
	case "SnapBegin":
		// the first half of Engine.doWriteSnapshot, by its exported calls
		if r.snap != nil {
			return fmt.Errorf("snapshot already in flight")
		}
		if err := r.e.WAL.CloseSegment(); err != nil {
			return err
		}
		segs, err := r.e.WAL.ClosedSegments()
		if err != nil {
			return err
		}
		snap, err := r.e.Cache.Snapshot()
		if err != nil {
			return err
		}
		if snap.Size() == 0 {
			r.e.Cache.ClearSnapshot(true)
			return nil
		}
		r.snap, r.snapSegs = snap, segs
		r.snapF, r.snapG = map[int64]float64{}, map[int64]int64{}
		for t, v := range r.m.f {
			r.snapF[t] = v
		}
		for t, v := range r.m.g {
			r.snapG[t] = v
		}
	case "SnapEnd":
		// the second half: deduplicate the snapshot, write it, commit it
		if r.snap == nil {
			return fmt.Errorf("no snapshot in flight")
		}
		r.snap.Deduplicate()
		if err := r.e.VerifWriteSnapshotAndCommit(r.snapSegs, r.snap); err != nil {
			return err
		}
		for t, v := range r.snapF {
			r.m.tf[t] = v
		}
		for t, v := range r.snapG {
			r.m.tg[t] = v
		}
		r.snap, r.snapSegs = nil, nil
	case "C":
		fs := r.files()
		if o.J >= len(fs) || o.I >= o.J {
			return fmt.Errorf("no such group %d..%d among %d files", o.I, o.J, len(fs))
		}
		grp := tsm1.CompactionGroup(append([]string{}, fs[o.I:o.J+1]...))
		if o.Fast {
			r.e.VerifApplyLevelCompaction(grp, true, 3)
		} else {
			r.e.VerifApplyFullCompaction(grp)
		}
	case "Opt":
		fs := r.files()
		if len(fs) == 0 {
			return fmt.Errorf("no files to optimize")
		}
		r.e.VerifApplyOptimizeCompaction(tsm1.CompactionGroup(fs), r.e.CompactionPlan.GetAggressiveCompactionPointsPerBlock())
	case "Reopen":
		// closing with a snapshot in flight abandons it: its data is still in the closed WAL segments
		r.snap, r.snapSegs = nil, nil
		if err := r.e.Close(false); err != nil {
			r.e = nil
			return err
		}
		e, err := r.ix.openEngine(r.root)
		r.e = e
		return err
	default:
		return fmt.Errorf("unknown op %q", o.K)
	}
	return nil
}

// ---------------------------------------------------------------------------------------------------
// reads and the oracle
// ---------------------------------------------------------------------------------------------------

type pt struct {
	t int64
	v float64 // integer values are small counters, exactly representable
}

func fmtPts(ps []pt) string {
	var b strings.Builder
	for i, p := range ps {
		if i > 0 {
			b.WriteByte(' ')
		}
		fmt.Fprintf(&b, "%d=%g", p.t, p.v)
	}
	return "[" + b.String() + "]"
}

func (r *run) cursorRead(it tsdb.CursorIterator, field string, a, b int64, asc bool) ([]pt, bool, error) {
	name, tags := models.ParseKey([]byte(seriesKey))
	ctx := context.Background()
	cur, err := it.Next(ctx, &tsdb.CursorRequest{Name: []byte(name), Tags: tags, Field: field, Ascending: asc, StartTime: a, EndTime: b})
	if err != nil {
		return nil, false, err
	}
	if cur == nil {
		return nil, false, nil
	}
	defer cur.Close()
	var out []pt
	switch c := cur.(type) {
	case tsdb.FloatArrayCursor:
		for {
			ar := c.Next()
			if ar.Len() == 0 {
				break
			}
			for i := range ar.Timestamps {
				out = append(out, pt{ar.Timestamps[i], ar.Values[i]})
			}
		}
	case tsdb.IntegerArrayCursor:
		for {
			ar := c.Next()
			if ar.Len() == 0 {
				break
			}
			for i := range ar.Timestamps {
				out = append(out, pt{ar.Timestamps[i], float64(ar.Values[i])})
			}
		}
	default:
		return nil, true, fmt.Errorf("cursor of unexpected type %T for field %s", cur, field)
	}
	return out, true, cur.Err()
}

// keyCursorRead reads the TSM-resident values of a field from seek time t on, in the given direction.
func (r *run) keyCursorRead(field string, t int64, asc bool) ([]pt, error) {
	key := tsm1.SeriesFieldKeyBytes(seriesKey, field)
	kc := r.e.KeyCursor(context.Background(), key, t, asc)
	defer kc.Close()
	var out []pt
	for n := 0; n < 100; n++ {
		k := 0
		if field == fieldF {
			vs, err := kc.ReadFloatBlock(&[]tsm1.FloatValue{})
			if err != nil {
				return nil, err
			}
			k = len(vs)
			blk := make([]pt, 0, k)
			for _, v := range vs {
				blk = append(blk, pt{v.UnixNano(), v.RawValue()})
			}
			out = append(out, blk...)
		} else {
			vs, err := kc.ReadIntegerBlock(&[]tsm1.IntegerValue{})
			if err != nil {
				return nil, err
			}
			k = len(vs)
			for _, v := range vs {
				out = append(out, pt{v.UnixNano(), float64(v.RawValue())})
			}
		}
		if k == 0 {
			break
		}
		kc.Next()
	}
	return out, nil
}

func expected(m map[int64]float64, a, b int64, asc bool) []pt {
	var out []pt
	for t, v := range m {
		if t >= a && t <= b {
			out = append(out, pt{t, v})
		}
	}
	sort.Slice(out, func(i, j int) bool {
		if asc {
			return out[i].t < out[j].t
		}
		return out[i].t > out[j].t
	})
	return out
}

type verdict struct{ sig, msg string }

// compare classifies the first difference between a read and the model.
func compare(got, want []pt, asc bool) (clause, detail string) {
	seen := map[int64]bool{}
	wm := map[int64]float64{}
	for _, p := range want {
		wm[p.t] = p.v
	}
	for i, p := range got {
		if seen[p.t] {
			return "duplicate-timestamp", fmt.Sprintf("timestamp %d returned twice", p.t)
		}
		seen[p.t] = true
		if i > 0 && ((asc && got[i-1].t > p.t) || (!asc && got[i-1].t < p.t)) {
			return "out-of-time-order", fmt.Sprintf("timestamp %d after %d", p.t, got[i-1].t)
		}
		wv, ok := wm[p.t]
		if !ok {
			return "unexpected-point", fmt.Sprintf("timestamp %d was never written or lies outside the range", p.t)
		}
		if wv != p.v {
			if p.v < wv {
				return "stale-value", fmt.Sprintf("timestamp %d returns value #%g but the most recent write of it was #%g", p.t, p.v, wv)
			}
			return "wrong-value", fmt.Sprintf("timestamp %d returns %g, want %g", p.t, p.v, wv)
		}
	}
	for _, p := range want {
		if !seen[p.t] {
			return "missing-point", fmt.Sprintf("timestamp %d (value #%g) is not returned", p.t, p.v)
		}
	}
	return "", ""
}

func toF(m map[int64]int64) map[int64]float64 {
	o := map[int64]float64{}
	for t, v := range m {
		o[t] = float64(v)
	}
	return o
}

// check reads every sub-range in both directions through both read paths and compares with the model.
func (r *run) check(sfx string, hi int64, onlyF bool) (vs []verdict, herr string) {
	seen := map[string]bool{}
	add := func(sig, msg string) {
		if !seen[sig] {
			seen[sig] = true
			vs = append(vs, verdict{sig, msg})
		}
	}
	it, err := r.e.CreateCursorIterator(context.Background())
	if err != nil {
		return nil, "CreateCursorIterator: " + err.Error()
	}
	for _, fd := range []struct {
		name string
		all  map[int64]float64
		tsm  map[int64]float64
	}{{fieldF, r.m.f, r.m.tf}, {fieldG, toF(r.m.g), toF(r.m.tg)}} {
		if onlyF && fd.name != fieldF {
			continue
		}
		for a := int64(0); a <= hi; a++ {
			for b := a; b <= hi; b++ {
				for _, asc := range []bool{true, false} {
					got, exists, err := r.cursorRead(it, fd.name, a, b, asc)
					if err != nil {
						return vs, "cursor read: " + err.Error()
					}
					if !exists && len(fd.all) > 0 {
						add("no-cursor/array-cursor/"+sfx, fmt.Sprintf("field %s has acknowledged writes but CreateCursorIterator returns no cursor", fd.name))
						continue
					}
					want := expected(fd.all, a, b, asc)
					if cl, d := compare(got, want, asc); cl != "" {
						dir := "asc"
						if !asc {
							dir = "desc"
						}
						add(cl+"/array-cursor/"+dir+"/"+sfx, fmt.Sprintf("field %s range [%d,%d] %s: %s; read %s, acknowledged writes give %s", fd.name, a, b, dir, d, fmtPts(got), fmtPts(want)))
					}
				}
			}
		}
		if len(fd.all) == 0 {
			continue
		}
		for t := int64(0); t <= hi; t++ {
			for _, asc := range []bool{true, false} {
				got, err := r.keyCursorRead(fd.name, t, asc)
				if err != nil {
					return vs, "key cursor read: " + err.Error()
				}
				// a block is returned whole: only the part in the seek direction is specified
				var g2 []pt
				for _, p := range got {
					if (asc && p.t >= t) || (!asc && p.t <= t) {
						g2 = append(g2, p)
					}
				}
				lo, up := t, hi
				if !asc {
					lo, up = 0, t
				}
				// KeyCursor hands out raw blocks: blocks follow the cursor direction, values inside a block are always
				// ascending. Only content is specified here (exactly one, latest, value per flushed timestamp).
				sort.SliceStable(g2, func(i, j int) bool { return g2[i].t < g2[j].t })
				want := expected(fd.tsm, lo, up, true)
				if cl, d := compare(g2, want, true); cl != "" {
					dir := "asc"
					if !asc {
						dir = "desc"
					}
					add(cl+"/key-cursor/"+dir+"/"+sfx, fmt.Sprintf("field %s TSM-resident data from t=%d %s: %s; read %s, flushed writes give %s", fd.name, t, dir, d, fmtPts(g2), fmtPts(want)))
				}
			}
		}
	}
	return vs, ""
}

// ---------------------------------------------------------------------------------------------------
// canonical state key, read back from the implementation
// ---------------------------------------------------------------------------------------------------

func (r *run) classify(field string, vals []tsm1.Value) string {
	have := map[int64]float64{}
	for _, v := range vals {
		switch x := v.Value().(type) {
		case float64:
			have[v.UnixNano()] = x
		case int64:
			have[v.UnixNano()] = float64(x)
		}
	}
	var b strings.Builder
	tsl, latest := tsF, r.m.f
	if field == fieldG {
		tsl, latest = tsG, toF(r.m.g)
	}
	for _, t := range tsl {
		v, ok := have[t]
		switch {
		case !ok:
			b.WriteByte('-')
		case v == latest[t]:
			b.WriteByte('L')
		default:
			b.WriteByte('s')
		}
	}
	return b.String()
}

// stateKey: cache contents, then per TSM file (oldest first) its level (sequence number) and contents; every stored
// version is abstracted to L (the latest acknowledged value of its timestamp) or s (an overwritten one).
func (r *run) stateKey() (string, int, error) {
	kf, kg := tsm1.SeriesFieldKeyBytes(seriesKey, fieldF), tsm1.SeriesFieldKeyBytes(seriesKey, fieldG)
	var b strings.Builder
	b.WriteString("cache:" + r.classify(fieldF, r.e.Cache.Values(kf)) + "/" + r.classify(fieldG, r.e.Cache.Values(kg)))
	if r.snap != nil {
		b.WriteString(" snapshot-in-flight:" + r.classify(fieldF, r.snap.Values(kf)) + "/" + r.classify(fieldG, r.snap.Values(kg)))
	}
	fs := r.files()
	for _, p := range fs {
		tr, err := r.e.FileStore.TSMReader(p)
		if err != nil || tr == nil {
			return "", 0, fmt.Errorf("TSMReader(%s): %v", p, err)
		}
		vf, err1 := tr.ReadAll(kf)
		vg, err2 := tr.ReadAll(kg)
		tr.Unref()
		if err1 != nil || err2 != nil {
			return "", 0, fmt.Errorf("ReadAll(%s): %v %v", p, err1, err2)
		}
		_, seq, _ := tsm1.DefaultParseFileName(p)
		if seq > 4 {
			seq = 4
		}
		fmt.Fprintf(&b, " |L%d:%s/%s", seq, r.classify(fieldF, vf), r.classify(fieldG, vg))
	}
	return b.String(), len(fs), nil
}

// ---------------------------------------------------------------------------------------------------
// execution of one history
// ---------------------------------------------------------------------------------------------------

type execResult struct {
	key      string
	nfiles   int
	inflight bool
	verdicts []verdict
	herr     string // harness / implementation-side failure: not a verdict
	effect   string
}

// execute replays path on a fresh engine. With everyStep the oracle is applied after every step (replay mode);
// otherwise only after the last one (the prefixes were checked when they were the last step of their own execution).
func (ix *index) execute(path []Op, everyStep bool) (res execResult) {
	r, err := ix.newRun()
	if err != nil {
		res.herr = "open: " + err.Error()
		return
	}
	defer r.close()
	for i, o := range path {
		nb := 0
		if i == len(path)-1 {
			nb = len(r.files())
		}
		if err := r.apply(o); err != nil {
			res.herr = fmt.Sprintf("step %d %s: %v", i+1, o, err)
			return
		}
		if r.e == nil {
			res.herr = "engine gone"
			return
		}
		if i == len(path)-1 {
			res.effect = fmt.Sprintf("%s:files%d->%d", o.K, nb, len(r.files()))
		}
		if everyStep || i == len(path)-1 {
			vs, herr := r.check("after-"+o.K, 4, false)
			if herr != "" {
				res.herr = fmt.Sprintf("after step %d %s: %s", i+1, o, herr)
				return
			}
			for _, v := range vs {
				v.msg = fmt.Sprintf("after step %d (%s): %s", i+1, o, v.msg)
				res.verdicts = append(res.verdicts, v)
			}
			if len(res.verdicts) > 0 {
				return
			}
		}
	}
	res.key, res.nfiles, err = r.stateKey()
	res.inflight = r.snap != nil
	if err != nil {
		res.herr = "state key: " + err.Error()
	}
	return
}

type Case struct {
	Path    []Op      `json:"history,omitempty"`
	Flushes [][]int64 `json:"flushes,omitempty"` // flush-layout case: batch i is written in one WritePoints call, then WriteSnapshot
}

// ---------------------------------------------------------------------------------------------------
// flush layouts: n cache snapshots of the one series and NO compaction
// ---------------------------------------------------------------------------------------------------

// layoutSpec bounds one family of layouts: nf batches (= TSM generations), each a set of 1..p timestamps, the union
// of all batches being exactly {1..k} for every k ≤ kmax (so every assignment of timestamps to batches over any
// grid of ≤ kmax values is order-isomorphic to exactly one enumerated layout).
type layoutSpec struct{ nf, p, kmax int }

func layoutSpecs(thorough bool) []layoutSpec {
	if thorough {
		return []layoutSpec{{1, 3, 3}, {2, 3, 6}, {3, 3, 6}, {4, 3, 4}, {4, 2, 8}, {5, 3, 3}, {5, 2, 4}}
	}
	return []layoutSpec{{1, 3, 3}, {2, 3, 4}, {3, 3, 4}, {4, 3, 3}, {4, 2, 4}}
}

// covers: the layouts of nf batches with k distinct timestamps and at most p points per batch all belong to family q.
func (q layoutSpec) covers(nf, k, p int) bool { return q.nf == nf && k <= q.kmax && p <= q.p }

// subsets of {1..k} with 1..p elements as bit masks (bit t-1 = timestamp t), smaller sets first.
func subsets(k, p int) []uint {
	var out []uint
	for sz := 1; sz <= p; sz++ {
		for m := uint(1); m < 1<<uint(k); m++ {
			if popcount(m) == sz {
				out = append(out, m)
			}
		}
	}
	return out
}

func popcount(m uint) int {
	n := 0
	for ; m != 0; m &= m - 1 {
		n++
	}
	return n
}

func maskTimes(m uint) []int64 {
	var ts []int64
	for t := int64(1); m != 0; t, m = t+1, m>>1 {
		if m&1 != 0 {
			ts = append(ts, t)
		}
	}
	return ts
}

// forPrefixes visits every n-tuple of subsets (1..p elements) of {1..k} that one more such subset can complete to a
// union of exactly {1..k}, in lexicographic order of the tuple; n = 0: the empty tuple.
func forPrefixes(n, k, p int, visit func(files []uint, union uint) bool) {
	subs := subsets(k, p)
	full := uint(1)<<uint(k) - 1
	cur := make([]uint, n)
	var rec func(i int, union uint) bool
	rec = func(i int, union uint) bool {
		if popcount(full&^union) > (n+1-i)*p {
			return true
		}
		if i == n {
			return visit(cur, union)
		}
		for _, m := range subs {
			cur[i] = m
			if !rec(i+1, union|m) {
				return false
			}
		}
		return true
	}
	rec(0, 0)
}

func layoutString(files [][]int64) string {
	var b strings.Builder
	for i, f := range files {
		if i > 0 {
			b.WriteString(" | ")
		}
		b.WriteString("flush{")
		for j, t := range f {
			if j > 0 {
				b.WriteByte(',')
			}
			fmt.Fprint(&b, t)
		}
		b.WriteByte('}')
	}
	return b.String()
}

// layoutPattern classifies how the time ranges [min,max] of the generations overlap: "single", "disjoint" (no two
// overlap), "clique" (all pairs overlap), "chain" (two generations that do not overlap each other both overlap a
// third one), "mixed" (anything else).
func layoutPattern(files [][]int64) string {
	n := len(files)
	if n == 1 {
		return "single"
	}
	ov := func(a, b []int64) bool { return a[0] <= b[len(b)-1] && b[0] <= a[len(a)-1] }
	pairs, overl, chain := 0, 0, false
	for i := 0; i < n; i++ {
		for j := i + 1; j < n; j++ {
			pairs++
			if ov(files[i], files[j]) {
				overl++
				continue
			}
			for l := 0; l < n; l++ {
				if l != i && l != j && ov(files[i], files[l]) && ov(files[j], files[l]) {
					chain = true
				}
			}
		}
	}
	switch {
	case overl == 0:
		return "disjoint"
	case overl == pairs:
		return "clique"
	case chain:
		return "chain"
	}
	return "mixed"
}

// layoutRun is a live engine that holds the batches `live`, each flushed to its own TSM file (generation), and
// nothing else. Layouts with a common prefix of batches share the engine: the batches that differ are taken out again
// with FileStore.Replace(files, nil) (what a compaction does with its inputs, without producing an output); an
// engine is used for layouts with the same first batch only. Batch i (1-based) writes the value i.
type layoutRun struct {
	ix   *index
	r    *run
	live [][]int64
}

func (lr *layoutRun) close() {
	if lr.r != nil {
		lr.r.close()
	}
	lr.r, lr.live = nil, nil
}

func sameBatch(a, b []int64) bool {
	if len(a) != len(b) {
		return false
	}
	for i := range a {
		if a[i] != b[i] {
			return false
		}
	}
	return true
}

// layoutModel: the map model of a layout; every batch but, if lastInCache, the last one is TSM-resident.
func layoutModel(batches [][]int64, lastInCache bool) *model {
	m := newModel()
	for i, f := range batches {
		for _, t := range f {
			m.f[t] = float64(i + 1)
			if !lastInCache || i < len(batches)-1 {
				m.tf[t] = float64(i + 1)
			}
		}
	}
	return m
}

// keep removes all TSM files but the n oldest.
func (lr *layoutRun) keep(n int) error {
	fs := lr.r.files()
	if len(fs) != len(lr.live) {
		return fmt.Errorf("%d TSM files for %d flushed batches", len(fs), len(lr.live))
	}
	if n < len(fs) {
		if err := lr.r.e.FileStore.Replace(fs[n:], nil); err != nil {
			return err
		}
		lr.live = lr.live[:n]
	}
	if got := len(lr.r.files()); got != n {
		return fmt.Errorf("%d TSM files left, want %d", got, n)
	}
	return nil
}

func (lr *layoutRun) write(batch []int64) error {
	if len(batch) == 0 {
		return fmt.Errorf("empty batch")
	}
	lr.r.val = float64(len(lr.live) + 1)
	return lr.r.writeF(batch...)
}

func (lr *layoutRun) flush() error {
	if err := lr.r.e.WriteSnapshot(); err != nil {
		return err
	}
	if n := len(lr.r.files()); n != len(lr.live)+1 {
		return fmt.Errorf("%d TSM files after snapshot %d", n, len(lr.live)+1)
	}
	return nil
}

// sync brings the engine to hold exactly the batches of prefix, one TSM file each.
func (lr *layoutRun) sync(prefix [][]int64) error {
	l := 0
	for l < len(lr.live) && l < len(prefix) && sameBatch(lr.live[l], prefix[l]) {
		l++
	}
	if lr.r == nil || l == 0 {
		lr.close()
		r, err := lr.ix.newRun()
		if err != nil {
			return err
		}
		lr.r = r
	} else if err := lr.keep(l); err != nil {
		return err
	}
	for _, f := range prefix[len(lr.live):] {
		if err := lr.write(f); err != nil {
			return err
		}
		if err := lr.flush(); err != nil {
			return err
		}
		lr.live = append(lr.live, append([]int64{}, f...))
	}
	return nil
}

// leaf: with the engine holding prefix, writes the last batch, applies the read oracle while that batch is still in
// the cache (the older ones in TSM files), flushes it, applies the oracle again, and takes the last file out again.
func (lr *layoutRun) leaf(last []int64) (vs []verdict, herr string) {
	all := append(append([][]int64{}, lr.live...), last)
	hi := int64(0)
	for _, f := range all {
		for _, t := range f {
			if t+1 > hi {
				hi = t + 1
			}
		}
	}
	stage := func(name string, inCache bool) bool {
		lr.r.m = layoutModel(all, inCache)
		v, e := lr.r.check("flush-layout/"+name, hi, true)
		if e != "" {
			herr = name + ": " + e
			return false
		}
		for _, x := range v {
			x.msg = name + ": " + x.msg
			vs = append(vs, x)
		}
		return len(vs) == 0
	}
	if err := lr.write(last); err != nil {
		return nil, "write of the last batch: " + err.Error()
	}
	ok := stage("last-batch-in-cache", true)
	if herr != "" {
		return
	}
	if err := lr.flush(); err != nil {
		return vs, "snapshot of the last batch: " + err.Error()
	}
	lr.live = all
	if ok {
		stage("all-flushed", false)
	}
	if err := lr.keep(len(all) - 1); err != nil && herr == "" {
		herr = "taking the last file out: " + err.Error()
	}
	return
}

// executeLayout runs one layout from scratch on a fresh engine (replay).
func (ix *index) executeLayout(files [][]int64) (res execResult) {
	if len(files) == 0 {
		res.herr = "no batches"
		return
	}
	lr := &layoutRun{ix: ix}
	defer lr.close()
	if err := lr.sync(files[:len(files)-1]); err != nil {
		res.herr = "building the older generations: " + err.Error()
		return
	}
	res.verdicts, res.herr = lr.leaf(files[len(files)-1])
	return
}

type bnode struct {
	path     []Op
	nfiles   int
	inflight bool
	left     int // remaining depth
}

type rootSpec struct {
	path          []Op
	depth, shared int // BFS depth below the root; number of levels explored by every worker before dealing
}

func w(t int64) Op { return Op{K: "W", T: t} }

// roots: the empty shard, and two pre-built layouts (histories themselves) from which the BFS continues, so that
// compactions of 2 and 3 generations with overwrites across generations are reached within the depth bound.
func roots(thorough bool) []rootSpec {
	snap := Op{K: "Snap"}
	r1 := []Op{w(1), w(2), snap, w(1), w(3), snap}
	r2 := []Op{w(1), snap, w(1), w(2), snap, w(2), w(3), snap}
	r1b := []Op{{K: "Wb"}, snap, w(2), w(3), snap} // generations {1,3} and {2,3}: overlapping blocks whose merge exceeds a block
	if thorough {
		r3 := []Op{w(1), snap, w(1), w(2), snap, w(2), w(3), snap, w(3), w(1), snap}
		return []rootSpec{{nil, 6, 2}, {r1, 5, 1}, {r1b, 4, 1}, {r2, 4, 1}, {r3, 2, 1}}
	}
	return []rootSpec{{nil, 4, 2}, {r1, 2, 1}, {r1b, 2, 1}, {r2, 2, 1}}
}

func TestCheck(t *testing.T) {
	vlib.Main(t, &vlib.Check{
		ID: "C01", Level: "model_checking",
		Rule: "PART 1, flush layouts (histories W-batch Snap W-batch Snap ... with NO compaction): a layout is a tuple of n batches, batch i = a set of 1..p timestamps written in one WritePoints call with value i and then flushed by Engine.WriteSnapshot into its own TSM generation; enumerated are ALL tuples whose union of timestamps is exactly {1..k} (every assignment of timestamps to n batches over any grid of ≤ k values is order-isomorphic to exactly one of them, so all overlap patterns of the generations' time ranges occur: chains A∩C≠∅, C∩B≠∅, A∩B=∅ in every file order, nesting, disjoint and isolated first/last blocks, 3-point batches spanning two blocks); quick: n=1 (p≤3, k≤3), n=2 and n=3 (p≤3, k≤4), n=4 (p≤3, k≤3 and p≤2, k≤4) = 9446 layouts; thorough: n=1, n=2 and n=3 (p≤3, k≤6), n=4 (p≤3, k≤4 and p≤2 with k≤8, i.e. every order type of 4 batches of ≤2 points), n=5 (p≤3, k≤3 and p≤2, k≤4) = 176525 layouts; order: fewest distinct timestamps first, then fewest generations. For every layout the oracle runs twice: with the last batch still in the cache (older batches in TSM files) and after its flush: every range [a,b]⊆[0,k+1] ascending and descending through the CreateCursorIterator array cursor, and the TSM-resident part from every seek time in [0,k+1] in both directions through KeyCursor, compared with the map model (last batch wins per timestamp, strictly monotonic timestamps, no duplicates). Layouts sharing all batches but the last run on one engine (the last TSM file is taken out again with FileStore.Replace(file, nil)); engines are shared only among layouts with the same first batch; a violation is confirmed by replaying the layout from scratch on a fresh engine. Sharding unit: the tuple of the first n-1 batches (dealt by a multiplicative hash of its running number). Non-trivial layout = n≥3 and the generations' time ranges neither all overlap nor are all disjoint. PART 2, histories over the alphabet {W(f,t) for t∈{1,2,3} (float field, value = running counter, so every overwrite is distinguishable), Wbatch(f,[t=3,t=1]) in one WritePoints call, W(g,t=2) on a second field of type integer, Snap (Engine.WriteSnapshot), SnapBegin / SnapEnd (the two halves of Engine.doWriteSnapshot: close WAL segment + Cache.Snapshot | Deduplicate + writeSnapshotAndCommit, so that writes, reads, compactions and a reopen happen while a cache snapshot is in flight), Compact[i..j] of every interval of ≥2 adjacent generations with the engine's fast (CompactFast) and full (CompactFull) strategies, Opt (optimize strategy at aggressive points-per-block over all files), Reopen (close + open, WAL replay)} on a real tsm1.Engine with WAL; explicit-state BFS to depth D from root layouts (themselves histories): the empty shard (D = 4 quick, 6 thorough), the 2-generation layouts W1 W2 Snap W1 W3 Snap (D = 2, 5) and Wbatch(3,1) Snap W2 W3 Snap (D = 2, 4), the 3-generation layout W1 Snap W1 W2 Snap W2 W3 Snap (D = 2, 4) and, thorough only, the 4-generation layout W1 Snap W1 W2 Snap W2 W3 Snap W3 W1 Snap (D = 2): a transition replays the whole history on a fresh engine, then reads every range [a,b]⊆[0,4] ascending and descending through CreateCursorIterator array cursors for both fields, and the TSM-resident part from every seek time in both directions through KeyCursor, and compares with a map model (latest acknowledged value per timestamp); the reached state is keyed by what the implementation holds (cache contents and, per TSM file oldest→newest, level and contents, each stored version abstracted to latest/overwritten) and expanded only once. The first 1–2 levels below each root are explored by every worker, that frontier is dealt round-robin. The build uses DefaultMaxPointsPerBlock = 2 instead of 1000 (small-constant build) so that the three timestamps of a field span two TSM blocks and block-level merging in CompactFast/CompactFull/KeyCursor is exercised. states = distinct canonical keys (part 2) + layouts (part 1, distinct by construction), transitions = executed histories, traces = histories replayed on the implementation; non-trivial = transitions whose history contains a Snap or compaction and an overwrite (part 2), see above for part 1. Budgets: part 1 35 s quick / 500 s thorough, then part 2 40 s / 400 s",
		Assumptions: []string{
			"the engine is deterministic for a given history when its background loops are off (prefixes are re-executed, not re-checked)",
			"WAL segment layout and tsi1/series-file contents are not part of the state key (one shared tsi1 index + series file per worker, holding the single series key)",
			"snapshots and compactions run to completion between steps (in-flight snapshot/compaction interleavings belong to C03/C09 style schedule checks)",
			"KeyCursor returns whole blocks: only the part in seek direction is compared",
			"flush layouts: the read paths depend on timestamps only through their order (layouts are enumerated up to order-isomorphism, on the grid 1..k); timestamps inside one batch are written in ascending order (the out-of-order batch is part 2's Wbatch)",
			"flush layouts: taking the newest TSM file out with FileStore.Replace(file, nil) leaves the engine in the state it had before that batch was written (checked: file count; every reported violation is re-executed on a fresh engine)",
		},
		WorkerEnv:    []string{"GOMAXPROCS=2"}, // 16 workers on 16 cores: keep each worker's GC and snapshot goroutines from oversubscribing the machine
		QuickBudgetS: quickLayoutS + quickBFSS, ThoroughBudgetS: thoroughLayoutS + thoroughBFSS,
		Run: func(c *vlib.Ctx) {
			ix, err := openIndex()
			if err != nil {
				c.HarnessError("open index: " + err.Error())
				return
			}
			defer ix.close()
			// part 1: flush layouts (own share of the budget; the BFS below keeps the time it had before)
			layoutBudget, bfsBudget := quickLayoutS*time.Second, quickBFSS*time.Second
			if c.Thorough() {
				layoutBudget, bfsBudget = thoroughLayoutS*time.Second, thoroughBFSS*time.Second
			}
			runLayouts(c, ix, time.Now().Add(layoutBudget))
			bfsDeadline := time.Now().Add(bfsBudget)
			expired := func() bool { return c.Expired() || time.Now().After(bfsDeadline) }
			// part 2: BFS over operation histories
			seen := map[string]int{} // canonical state -> largest remaining depth it was expanded with
			complete := true
			// expand runs one BFS level; report=false: silent (the shared first levels on shards ≠ 0)
			expand := func(frontier []bnode, report bool) (next []bnode) {
				for _, nd := range frontier {
					if nd.left <= 0 {
						continue
					}
					for _, o := range opsFor(nd.nfiles, nd.inflight) {
						if expired() {
							complete = false
							return next
						}
						p := append(append([]Op{}, nd.path...), o)
						res := ix.execute(p, false)
						if res.herr != "" {
							if report {
								c.HarnessError(pathString(p) + ": " + res.herr)
							}
							continue
						}
						if report {
							c.Eval(1)
							c.Transition(1)
							c.Trace(1)
							c.Outcome(res.effect)
							if interesting(p) {
								c.NontrivialN(1)
							}
							for _, v := range res.verdicts {
								c.Violation(v.sig, pathString(p)+": "+v.msg, Case{Path: p})
							}
						}
						if len(res.verdicts) > 0 {
							continue
						}
						if report {
							c.State(res.key)
							if c.WantSample() && interesting(p) && len(p) >= 4 {
								c.Sample(map[string]any{"history": pathString(p), "state": res.key})
							}
						}
						if prev, ok := seen[res.key]; !ok || prev < nd.left-1 {
							seen[res.key] = nd.left - 1
							next = append(next, bnode{path: p, nfiles: res.nfiles, inflight: res.inflight, left: nd.left - 1})
						}
					}
				}
				return next
			}
			// shared levels: every worker explores them (only shard 0 reports), then the frontier is dealt round-robin
			var frontier []bnode
			for _, rt := range roots(c.Thorough()) {
				res := ix.execute(rt.path, true)
				if res.herr != "" {
					c.HarnessError("root " + pathString(rt.path) + ": " + res.herr)
					continue
				}
				if c.Shard == 0 {
					c.Eval(1)
					c.Trace(1)
					c.Outcome("root:files" + fmt.Sprint(res.nfiles))
					for _, v := range res.verdicts {
						c.Violation(v.sig, pathString(rt.path)+": "+v.msg, Case{Path: rt.path})
					}
					if len(res.verdicts) == 0 {
						c.State(res.key)
					}
				}
				if len(res.verdicts) > 0 {
					continue
				}
				if prev, ok := seen[res.key]; !ok || prev < rt.depth {
					seen[res.key] = rt.depth
				}
				fr := []bnode{{path: rt.path, nfiles: res.nfiles, inflight: res.inflight, left: rt.depth}}
				for l := 0; l < rt.shared && complete; l++ {
					fr = expand(fr, c.Shard == 0)
				}
				frontier = append(frontier, fr...)
			}
			var mine []bnode
			for i, nd := range frontier {
				if c.Mine(int64(i)) {
					mine = append(mine, nd)
				}
			}
			for complete && len(mine) > 0 {
				mine = expand(mine, true)
			}
			if !complete {
				c.Cap("budget expired before the BFS of this shard reached its depth bound")
			}
		},
		Replay: func(c *vlib.Ctx, raw json.RawMessage) (bool, string) {
			var cs Case
			if err := json.Unmarshal(raw, &cs); err != nil {
				return false, err.Error()
			}
			ix, err := openIndex()
			if err != nil {
				return false, "open index: " + err.Error()
			}
			defer ix.close()
			var res execResult
			what := pathString(cs.Path)
			if len(cs.Flushes) > 0 {
				res = ix.executeLayout(cs.Flushes)
				what = layoutString(cs.Flushes)
			} else {
				res = ix.execute(cs.Path, true)
			}
			if res.herr != "" {
				return false, "harness: " + res.herr
			}
			var msgs []string
			for _, v := range res.verdicts {
				msgs = append(msgs, v.sig+": "+v.msg)
			}
			return len(res.verdicts) > 0, what + " => " + strings.Join(msgs, " | ")
		},
	})
}

// budgets in seconds: the layouts part, then the BFS part
const (
	quickLayoutS, quickBFSS       = 35, 40
	thoroughLayoutS, thoroughBFSS = 500, 400
)

// runLayouts enumerates the flush layouts of this tier, simplest family first. The unit of sharding is the prefix
// (all batches but the last one): each prefix belongs to one shard, which runs every last batch on it.
func runLayouts(c *vlib.Ctx, ix *index, deadline time.Time) {
	lr := &layoutRun{ix: ix}
	defer lr.close()
	pidx := int64(0)
	t0, mineN := time.Now(), 0
	specs := layoutSpecs(c.Thorough())
	kmax := 0
	for _, sp := range specs {
		if sp.kmax > kmax {
			kmax = sp.kmax
		}
	}
	type job struct {
		k, si int
	}
	var jobs []job // processing order: fewest distinct timestamps first, then fewest generations
	for k := 1; k <= kmax; k++ {
		for si, sp := range specs {
			if k <= sp.kmax {
				jobs = append(jobs, job{k, si})
			}
		}
	}
	for _, jb := range jobs {
		k, sp := jb.k, specs[jb.si]
		// a family listed before this one may contain all of its layouts with k timestamps: not run twice
		whole := false
		for _, q := range specs[:jb.si] {
			whole = whole || q.covers(sp.nf, k, sp.p)
		}
		if whole {
			continue
		}
		capped := false
		full := uint(1)<<uint(k) - 1
		lasts := subsets(k, sp.p)
		forPrefixes(sp.nf-1, k, sp.p, func(masks []uint, union uint) bool {
			pidx++
			// deal by a scrambled prefix number: plain round-robin correlates with the tuple structure (the number of
			// subsets per position) and leaves some shards with systematically more last batches per prefix
			if !c.Mine(int64(uint64(pidx) * 0x9E3779B97F4A7C15 >> 40)) {
				return true
			}
			prefix := make([][]int64, len(masks))
			for i, m := range masks {
				prefix[i] = maskTimes(m)
			}
			synced := false
			for _, lm := range lasts {
				if union|lm != full {
					continue
				}
				if c.Expired() || time.Now().After(deadline) {
					capped = true
					return false
				}
				files := append(append([][]int64{}, prefix...), maskTimes(lm))
				if !synced {
					if err := lr.sync(prefix); err != nil {
						c.HarnessError(layoutString(files) + ": building the older generations: " + err.Error())
						lr.close()
						return true
					}
					synced = true
				}
				mineN++
				vs, herr := lr.leaf(files[len(files)-1])
				if herr != "" {
					c.HarnessError(layoutString(files) + ": " + herr)
					lr.close()
					synced = false
					continue
				}
				pat := layoutPattern(files)
				c.Eval(1)
				c.Transition(1)
				c.Trace(1)
				c.StateN(1)
				c.Outcome(fmt.Sprintf("layout:gens%d:%s", sp.nf, pat))
				if sp.nf >= 3 && (pat == "chain" || pat == "mixed") {
					c.NontrivialN(1)
					if c.WantSample() && pat == "chain" && sp.nf >= 4 {
						c.Sample(map[string]any{"flush_layout": layoutString(files), "pattern": pat})
					}
				}
				for _, v := range vs {
					c.Violation(v.sig, layoutString(files)+": "+v.msg, Case{Flushes: files})
				}
			}
			return true
		})
		if capped {
			c.Cap(fmt.Sprintf("flush-layout budget expired in family generations=%d points≤%d at %d distinct timestamps (the families enumerated before it are complete)", sp.nf, sp.p, k))
			c.Logf("shard %d: %d flush layouts in %v (capped)", c.Shard, mineN, time.Since(t0))
			return
		}
	}
	c.Logf("shard %d: %d flush layouts in %v", c.Shard, mineN, time.Since(t0))
}

// interesting: the history flushes or compacts and overwrites some timestamp.
func interesting(p []Op) bool {
	flush := false
	w := map[int64]int{}
	for _, o := range p {
		switch o.K {
		case "Snap", "SnapBegin", "C", "Opt":
			flush = true
		case "W":
			w[o.T]++
		case "Wb":
			w[3]++
			w[1]++
		}
	}
	for _, n := range w {
		if n > 1 && flush {
			return true
		}
	}
	return false
}
