// mkoverlay generates the `go build -overlay` file for one check from /repo's CURRENT working tree:
//  1. add-only files under /verif/h/overlay/<repo-relative dir>/ are injected into the repo packages
//     (re-exports of unexported identifiers, guarded by //go:build verif);
//  2. if /verif/h/<pkg>/shim.json exists, the scheduler runtime (vrt, vsync, vatomic) is injected as virtual
//     packages under <repo>/pkg/verifrt/, and every listed repo file is copied with its imports of
//     "sync" / "sync/atomic" redirected to the shims (AST rewrite; asserted, so a refactor cannot
//     silently disable a shim);
//  3. optional "consts": token-level replacement of one constant's value (small-constant builds).
//
// usage: mkoverlay <verifdir> <repodir> <pkg> <outdir>
package main

import (
	"bytes"
	"encoding/json"
	"fmt"
	"go/ast"
	"go/parser"
	"go/printer"
	"go/token"
	"os"
	"path/filepath"
	"regexp"
	"strconv"
	"strings"
)

type constRepl struct {
	File  string `json:"file"`
	Regex string `json:"regex"` // must match exactly once; group 1 is replaced
	Value string `json:"value"`
}

type shimCfg struct {
	ShimFiles []string    `json:"shim_files"`
	Runtime   bool        `json:"runtime"` // inject vrt/vsync/vatomic even without shim files
	Consts    []constRepl `json:"consts"`
}

const base = "github.com/influxdata/influxdb/v2/pkg/verifrt/"

func die(f string, a ...any) { fmt.Fprintf(os.Stderr, "mkoverlay: "+f+"\n", a...); os.Exit(1) }

func main() {
	if len(os.Args) != 5 {
		die("usage: mkoverlay <verifdir> <repodir> <pkg> <outdir>")
	}
	vdir, repo, pkg, out := os.Args[1], os.Args[2], os.Args[3], os.Args[4]
	repl := map[string]string{}

	// 1. add-only export files
	ov := filepath.Join(vdir, "h", "overlay")
	filepath.Walk(ov, func(p string, fi os.FileInfo, err error) error {
		if err != nil || fi.IsDir() || !strings.HasSuffix(p, ".go") {
			return nil
		}
		rel, _ := filepath.Rel(ov, p)
		dst := filepath.Join(repo, rel)
		if _, err := os.Stat(dst); err == nil {
			die("overlay file %s would replace an existing repo file (add-only rule)", rel)
		}
		if _, err := os.Stat(filepath.Dir(dst)); err != nil {
			die("overlay file %s: repo package directory does not exist", rel)
		}
		b, _ := os.ReadFile(p)
		if !bytes.HasPrefix(b, []byte("//go:build verif")) {
			die("overlay file %s must start with //go:build verif", rel)
		}
		repl[dst] = p
		return nil
	})

	// mutation testing only: VERIF_MUTATE_DIR mirrors repo-relative paths whose files REPLACE repo files
	// (lets a self-test apply a breaking change without touching /repo). Never set by registered commands.
	mut := map[string]string{}
	if md := os.Getenv("VERIF_MUTATE_DIR"); md != "" {
		filepath.Walk(md, func(p string, fi os.FileInfo, err error) error {
			if err != nil || fi.IsDir() || !strings.HasSuffix(p, ".go") {
				return nil
			}
			rel, _ := filepath.Rel(md, p)
			mut[filepath.Join(repo, rel)] = p
			repl[filepath.Join(repo, rel)] = p
			fmt.Fprintf(os.Stderr, "mkoverlay: MUTATION in effect: %s\n", rel)
			return nil
		})
	}

	var cfg shimCfg
	if b, err := os.ReadFile(filepath.Join(vdir, "h", pkg, "shim.json")); err == nil {
		if err := json.Unmarshal(b, &cfg); err != nil {
			die("shim.json: %v", err)
		}
	}
	// the runtime is always injected so that harnesses may import it
	for _, p := range []string{"vrt", "vsync", "vatomic"} {
		files, _ := filepath.Glob(filepath.Join(vdir, "h", "shim", p, "*.*"))
		for _, f := range files {
			repl[filepath.Join(repo, "pkg", "verifrt", p, filepath.Base(f))] = f
		}
	}
	for _, rel := range cfg.ShimFiles {
		src := filepath.Join(repo, rel)
		fset := token.NewFileSet()
		rd := src
		if m, ok := mut[src]; ok {
			rd = m
		}
		f, err := parser.ParseFile(fset, rd, nil, parser.ParseComments)
		if err != nil {
			die("parse %s: %v", rel, err)
		}
		n := 0
		for _, im := range f.Imports {
			path, _ := strconv.Unquote(im.Path.Value)
			var np, name string
			switch path {
			case "sync":
				np, name = base+"vsync", "sync"
			case "sync/atomic":
				np, name = base+"vatomic", "atomic"
			default:
				continue
			}
			if im.Name != nil {
				name = im.Name.Name
				if name == "." || name == "_" {
					die("%s: unsupported import form of %s", rel, path)
				}
			}
			im.Path.Value = strconv.Quote(np)
			im.Name = ast.NewIdent(name)
			n++
		}
		if n == 0 {
			die("%s: no sync import found to rewrite (refactored? update shim.json)", rel)
		}
		var buf bytes.Buffer
		if err := (&printer.Config{Mode: printer.UseSpaces | printer.TabIndent | printer.SourcePos, Tabwidth: 8}).Fprint(&buf, fset, f); err != nil {
			die("print %s: %v", rel, err)
		}
		dst := filepath.Join(out, "shimmed", rel)
		os.MkdirAll(filepath.Dir(dst), 0o755)
		if err := os.WriteFile(dst, buf.Bytes(), 0o644); err != nil {
			die("%v", err)
		}
		repl[src] = dst
	}
	for _, c := range cfg.Consts {
		src := filepath.Join(repo, c.File)
		cur := src
		if r, ok := repl[src]; ok {
			cur = r
		}
		b, err := os.ReadFile(cur)
		if err != nil {
			die("%v", err)
		}
		re, err := regexp.Compile(c.Regex)
		if err != nil {
			die("const regex: %v", err)
		}
		ms := re.FindAllSubmatchIndex(b, -1)
		if len(ms) != 1 || len(ms[0]) < 4 {
			die("%s: constant pattern %q matched %d times (want exactly 1 with one group)", c.File, c.Regex, len(ms))
		}
		nb := append(append(append([]byte{}, b[:ms[0][2]]...), c.Value...), b[ms[0][3]:]...)
		dst := filepath.Join(out, "shimmed", c.File)
		os.MkdirAll(filepath.Dir(dst), 0o755)
		os.WriteFile(dst, nb, 0o644)
		repl[src] = dst
	}
	b, _ := json.MarshalIndent(map[string]any{"Replace": repl}, "", " ")
	if err := os.WriteFile(filepath.Join(out, "overlay.json"), b, 0o644); err != nil {
		die("%v", err)
	}
}
