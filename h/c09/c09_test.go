// C09: tsm1.Cache behaves as a size-bounded newest-wins map under concurrency.
// Engine: vsched (all interleavings up to a preemption bound of real goroutines running the real
// Cache with cache.go/ring.go compiled against the modelled sync/atomic shims) + brute-force
// linearizability check of every execution's call/return history against a sequential model.
package c09

import (
	"encoding/json"
	"fmt"
	"math"
	"regexp"
	"sort"
	"strings"
	"testing"

	"github.com/cespare/xxhash/v2"
	"github.com/influxdata/influxdb/v2/pkg/verifrt/vrt"
	"github.com/influxdata/influxdb/v2/pkg/verifrt/vsync"
	"github.com/influxdata/influxdb/v2/tsdb"
	"github.com/influxdata/influxdb/v2/tsdb/engine/tsm1"
	"verif/h/vlib"
)

// ---------- operations ----------

type V struct {
	T int64  `json:"t"`
	F string `json:"v"` // "f1.5" float, "i3" integer
}

func (v V) value() tsm1.Value {
	if v.F[0] == 'i' {
		var i int64
		fmt.Sscanf(v.F[1:], "%d", &i)
		return tsm1.NewValue(v.T, i)
	}
	var f float64
	fmt.Sscanf(v.F[1:], "%g", &f)
	return tsm1.NewValue(v.T, f)
}

type Op struct {
	Kind    string         `json:"kind"` // write snapshot readsnap clear delete values
	Write   map[string][]V `json:"write,omitempty"`
	Success bool           `json:"success,omitempty"`
	Keys    []string       `json:"keys,omitempty"`
	Min     int64          `json:"min,omitempty"`
	Max     int64          `json:"max,omitempty"`
	Key     string         `json:"key,omitempty"`
}

type Program struct {
	Name string `json:"name"`
	Ops  []Op   `json:"ops"`
}

// keys: k1,k2 collide in one ring partition, k3 lives elsewhere (computed at init).
var k1, k2, k3 string

func init() {
	part := func(k string) uint64 { return xxhash.Sum64([]byte(k)) % 16 }
	k1 = "cpu,h=a#!~#v"
	for i := 0; k2 == "" || k3 == ""; i++ {
		c := fmt.Sprintf("cpu,h=%c%d#!~#v", 'b'+i%20, i)
		if part(c) == part(k1) && k2 == "" {
			k2 = c
		} else if part(c) != part(k1) && k3 == "" {
			k3 = c
		}
	}
}

func kname(k string) string {
	switch k {
	case k1:
		return "k1"
	case k2:
		return "k2"
	case k3:
		return "k3"
	}
	return k
}
func kreal(n string) string { return map[string]string{"k1": k1, "k2": k2, "k3": k3}[n] }

func programs() []Program {
	w := func(name string, m map[string][]V) Program {
		return Program{name, []Op{{Kind: "write", Write: m}}}
	}
	return []Program{
		w("W(k1@2)", map[string][]V{"k1": {{2, "f2"}}}),
		w("W(k2@1)", map[string][]V{"k2": {{1, "f1"}}}),
		w("W(k1@1')", map[string][]V{"k1": {{1, "f9"}}}),
		w("Wint(k1@3)", map[string][]V{"k1": {{3, "i3"}}}),
		w("Wbig(k3x4)", map[string][]V{"k3": {{1, "f1"}, {2, "f2"}, {3, "f3"}, {4, "f4"}}}),
		{"SnapOK", []Op{{Kind: "snapshot"}, {Kind: "readsnap"}, {Kind: "clear", Success: true}}},
		{"SnapFail", []Op{{Kind: "snapshot"}, {Kind: "readsnap"}, {Kind: "clear", Success: false}}},
		{"Del(k1,[1,1])", []Op{{Kind: "delete", Keys: []string{"k1"}, Min: 1, Max: 1}}},
		{"DelAll(k1,k2)", []Op{{Kind: "delete", Keys: []string{"k1", "k2"}, Min: math.MinInt64, Max: math.MaxInt64}}},
		{"Values(k1)", []Op{{Kind: "values", Key: "k1"}}},
	}
}

// initial states, built sequentially through the same ops (unscheduled)
type Init struct {
	Name string `json:"name"`
	Ops  []Op   `json:"ops"`
}

func inits() []Init {
	w1 := Op{Kind: "write", Write: map[string][]V{"k1": {{1, "f1"}}}}
	w2 := Op{Kind: "write", Write: map[string][]V{"k1": {{2, "f5"}}}}
	w3 := Op{Kind: "write", Write: map[string][]V{"k2": {{2, "f6"}}}}
	return []Init{
		{"fresh", nil},
		{"empty", []Op{w1, {Kind: "delete", Keys: []string{"k1"}, Min: math.MinInt64, Max: math.MaxInt64}}},
		{"hot(k1@1)", []Op{w1}},
		{"snapshotting(k1@1)+hot(k1@2,k2@2)", []Op{w1, {Kind: "snapshot"}, w2, w3}},
		{"failed-snapshot(k1@1)+hot(k1@2,k2@2)", []Op{w1, {Kind: "snapshot"}, {Kind: "clear", Success: false}, w2, w3}},
	}
}

// limit such that Wbig (64 bytes + key) never fits on top of anything but fits nothing else:
// every float/int value accounts 16 bytes.
const limit = 150

// ---------- sequential reference model ----------

type model struct {
	hot, snap       map[string][]V
	snapshotting    bool
	hotSize, snapSz uint64
	dc              map[string]map[int64]bool // timestamps whose presence the statement leaves open
}

func newModel() *model {
	return &model{hot: map[string][]V{}, snap: map[string][]V{}, dc: map[string]map[int64]bool{}}
}

func (m *model) clone() *model {
	c := &model{hot: map[string][]V{}, snap: map[string][]V{}, dc: map[string]map[int64]bool{},
		snapshotting: m.snapshotting, hotSize: m.hotSize, snapSz: m.snapSz}
	for k, v := range m.hot {
		c.hot[k] = append([]V(nil), v...)
	}
	for k, v := range m.snap {
		c.snap[k] = append([]V(nil), v...)
	}
	for k, v := range m.dc {
		c.dc[k] = map[int64]bool{}
		for t := range v {
			c.dc[k][t] = true
		}
	}
	return c
}

func dedup(vs []V) []V { // later wins on equal timestamp, ascending
	last := map[int64]V{}
	for _, v := range vs {
		last[v.T] = v
	}
	out := make([]V, 0, len(last))
	for _, v := range last {
		out = append(out, v)
	}
	sort.Slice(out, func(i, j int) bool { return out[i].T < out[j].T })
	return out
}

func fmtVals(vs []V) string {
	var b strings.Builder
	for _, v := range vs {
		fmt.Fprintf(&b, "%d=%s ", v.T, v.F)
	}
	return b.String()
}

const vsize = 16 // accounted bytes of one float/integer value (8 timestamp + 8 value)

// apply executes op on the model and returns the expected result. For "values"/"readsnap" the
// result is compared through match (don't-care timestamps).
func (m *model) apply(op Op) string {
	switch op.Kind {
	case "write":
		var added uint64
		for _, vs := range op.Write {
			added += uint64(len(vs)) * vsize
		}
		if m.hotSize+m.snapSz+added > limit {
			return "limit"
		}
		res := "ok"
		keys := make([]string, 0, len(op.Write))
		for k := range op.Write {
			keys = append(keys, k)
		}
		sort.Strings(keys)
		for _, k := range keys {
			vs := op.Write[k]
			if cur, ok := m.hot[k]; ok && len(cur) > 0 && cur[0].F[0] != vs[0].F[0] {
				res = "conflict"
				continue
			}
			if _, ok := m.hot[k]; !ok {
				m.hotSize += uint64(len(kreal(k)))
			}
			m.hot[k] = append(m.hot[k], vs...)
			m.hotSize += uint64(len(vs)) * vsize
		}
		return res
	case "snapshot":
		if m.snapshotting {
			return "inprogress"
		}
		m.snapshotting = true
		if m.snapSz > 0 {
			return "ok"
		}
		m.snap, m.hot = m.hot, map[string][]V{}
		m.snapSz, m.hotSize = m.hotSize, 0
		m.dc = map[string]map[int64]bool{}
		return "ok"
	case "readsnap":
		var b strings.Builder
		for _, k := range []string{"k1", "k2", "k3"} {
			fmt.Fprintf(&b, "%s:[%s] ", k, fmtVals(dedup(m.snap[k])))
		}
		return b.String()
	case "clear":
		m.snapshotting = false
		if op.Success {
			m.snap = map[string][]V{}
			m.snapSz = 0
			m.dc = map[string]map[int64]bool{}
		}
		return "ok"
	case "delete":
		for _, k := range op.Keys {
			// the statement does not say whether a range delete also removes snapshot values:
			// leave snapshot timestamps in range open
			for _, v := range m.snap[k] {
				if v.T >= op.Min && v.T <= op.Max {
					if m.dc[k] == nil {
						m.dc[k] = map[int64]bool{}
					}
					m.dc[k][v.T] = true
				}
			}
			cur, ok := m.hot[k]
			if !ok {
				continue
			}
			orig := uint64(len(cur)) * vsize
			var rest []V
			for _, v := range dedup(cur) {
				if v.T < op.Min || v.T > op.Max {
					rest = append(rest, v)
				}
			}
			if len(rest) == 0 {
				delete(m.hot, k)
				m.hotSize -= orig + uint64(len(kreal(k)))
			} else {
				m.hot[k] = rest
				m.hotSize -= orig - uint64(len(rest))*vsize
			}
		}
		return "ok"
	case "values":
		return fmtVals(dedup(append(append([]V{}, m.snap[op.Key]...), m.hot[op.Key]...)))
	case "size":
		return fmt.Sprint(m.hotSize + m.snapSz)
	case "keys":
		ks := []string{}
		for k := range m.hot {
			ks = append(ks, k)
		}
		sort.Strings(ks)
		return strings.Join(ks, ",")
	}
	panic("unknown op " + op.Kind)
}

// match compares an observed result with the model's, ignoring don't-care timestamps of "values".
func (m *model) match(op Op, want, got string) bool {
	if want == got {
		return true
	}
	if op.Kind != "values" || len(m.dc[op.Key]) == 0 {
		return false
	}
	strip := func(s string) string {
		var out []string
		for _, f := range strings.Fields(s) {
			var t int64
			fmt.Sscanf(f, "%d=", &t)
			if !m.dc[op.Key][t] {
				out = append(out, f)
			}
		}
		return strings.Join(out, " ")
	}
	return strip(want) == strip(got)
}

// ---------- real execution ----------

type rec struct {
	Thread int    `json:"thread"`
	Op     Op     `json:"op"`
	Call   int    `json:"call"`
	Ret    int    `json:"ret"`
	Result string `json:"result"`
}

type realCache struct {
	c    *tsm1.Cache
	snap *tsm1.Cache
}

func (r *realCache) do(op Op) string {
	switch op.Kind {
	case "write":
		m := map[string][]tsm1.Value{}
		for k, vs := range op.Write {
			for _, v := range vs {
				m[kreal(k)] = append(m[kreal(k)], v.value())
			}
		}
		err := r.c.WriteMulti(m)
		switch {
		case err == nil:
			return "ok"
		case err == tsdb.ErrFieldTypeConflict:
			return "conflict"
		case strings.Contains(err.Error(), "cache-max-memory-size exceeded"):
			return "limit"
		}
		return "err:" + err.Error()
	case "snapshot":
		s, err := r.c.Snapshot()
		if err == tsm1.ErrSnapshotInProgress {
			return "inprogress"
		}
		if err != nil {
			return "err:" + err.Error()
		}
		r.snap = s
		return "ok"
	case "readsnap":
		var b strings.Builder
		for _, k := range []string{"k1", "k2", "k3"} {
			fmt.Fprintf(&b, "%s:[%s] ", k, fmtReal(r.snap.Values([]byte(kreal(k)))))
		}
		return b.String()
	case "clear":
		r.c.ClearSnapshot(op.Success)
		return "ok"
	case "delete":
		var ks [][]byte
		for _, k := range op.Keys {
			ks = append(ks, []byte(kreal(k)))
		}
		r.c.DeleteRange(ks, op.Min, op.Max)
		return "ok"
	case "values":
		return fmtReal(r.c.Values([]byte(kreal(op.Key))))
	case "size":
		return fmt.Sprint(r.c.Size())
	case "keys":
		var ks []string
		for _, k := range r.c.Keys() {
			ks = append(ks, kname(string(k)))
		}
		sort.Strings(ks)
		return strings.Join(ks, ",")
	}
	panic("unknown op")
}

func fmtReal(vs tsm1.Values) string {
	var b strings.Builder
	for _, v := range vs {
		switch x := v.Value().(type) {
		case float64:
			fmt.Fprintf(&b, "%d=f%g ", v.UnixNano(), x)
		case int64:
			fmt.Fprintf(&b, "%d=i%d ", v.UnixNano(), x)
		}
	}
	return b.String()
}

// Scenario = initial state + one program per thread + locking discipline.
type Scenario struct {
	Discipline string    `json:"discipline"` // "api" (any mix, as the statement says) | "engine" (WriteMulti/Snapshot/ClearSnapshot guarded like Engine.mu)
	Init       Init      `json:"init"`
	Threads    []Program `json:"threads"`
}

func (sc Scenario) names() string {
	var n []string
	for _, p := range sc.Threads {
		n = append(n, p.Name)
	}
	sort.Strings(n)
	return strings.Join(n, " || ")
}

type Case struct {
	Scenario Scenario `json:"scenario"`
	Choices  []int    `json:"schedule"`
	History  []rec    `json:"history,omitempty"`
	Trace    []string `json:"trace,omitempty"`
}

// harness builds the vrt harness of a scenario; hist receives the recorded history of each execution.
func harness(sc Scenario, out *[]rec, final *[]rec) *vrt.Harness {
	return &vrt.Harness{Name: sc.names(), Body: func(x *vrt.Exec) {
		rc := &realCache{c: tsm1.NewCache(limit, tsdb.EngineTags{})}
		for _, op := range sc.Init.Ops {
			rc.do(op)
		}
		var engMu vsync.RWMutex
		ev := 0
		var hist []rec
		for ti, p := range sc.Threads {
			ti, p := ti, p
			x.Go(fmt.Sprintf("T%d:%s", ti, p.Name), func() {
				mine := &realCache{c: rc.c}
				for _, op := range p.Ops {
					if op.Kind != "snapshot" && op.Kind != "write" && op.Kind != "values" && op.Kind != "delete" && mine.snap == nil {
						break // snapshot was refused: the cycle ends, as in Engine.WriteSnapshot
					}
					if sc.Discipline == "engine" {
						switch op.Kind {
						case "write", "clear":
							engMu.RLock()
						case "snapshot":
							engMu.Lock()
						}
					}
					vrt.Hook("call:" + op.Kind)
					ev++
					r := rec{Thread: ti, Op: op, Call: ev}
					r.Result = mine.do(op)
					ev++
					r.Ret = ev
					hist = append(hist, r)
					if sc.Discipline == "engine" {
						switch op.Kind {
						case "write", "clear":
							engMu.RUnlock()
						case "snapshot":
							engMu.Unlock()
						}
					}
				}
			})
		}
		x.Run()
		x.S.Drain()
		*out = hist
		// quiescent observations on the real object
		var fin []rec
		for _, op := range []Op{{Kind: "values", Key: "k1"}, {Kind: "values", Key: "k2"}, {Kind: "values", Key: "k3"}, {Kind: "keys"}, {Kind: "size"}} {
			ev++
			fin = append(fin, rec{Thread: -1, Op: op, Call: ev, Ret: ev + 1, Result: rc.do(op)})
			ev++
		}
		*final = fin
	}}
}

// linearizable searches a sequential order of hist (respecting real-time order) that the model
// explains, followed by the quiescent observations. Returns "" or the reason of the best failure.
func linearizable(sc Scenario, hist, fin []rec) (ok bool, why string) {
	m0 := newModel()
	for _, op := range sc.Init.Ops {
		m0.apply(op)
	}
	n := len(hist)
	used := make([]bool, n)
	bestDepth, bestWhy := -1, ""
	var dfs func(m *model, depth int) bool
	dfs = func(m *model, depth int) bool {
		if depth == n {
			for _, f := range fin {
				want := m.apply(f.Op)
				if !m.match(f.Op, want, f.Result) {
					if depth >= bestDepth {
						bestDepth = depth + 1
						bestWhy = fmt.Sprintf("quiescent %s%s: real=%q model=%q", f.Op.Kind, f.Op.Key, f.Result, want)
					}
					return false
				}
			}
			return true
		}
		for i := 0; i < n; i++ {
			if used[i] {
				continue
			}
			// minimal: no unused op returned before this one was called
			okPos := true
			for j := 0; j < n; j++ {
				if !used[j] && j != i && hist[j].Ret < hist[i].Call {
					okPos = false
					break
				}
			}
			if !okPos {
				continue
			}
			mc := m.clone()
			want := mc.apply(hist[i].Op)
			if !mc.match(hist[i].Op, want, hist[i].Result) {
				if depth > bestDepth {
					bestDepth = depth
					bestWhy = fmt.Sprintf("T%d %s returned %q, model %q", hist[i].Thread, hist[i].Op.Kind, hist[i].Result, want)
				}
				continue
			}
			used[i] = true
			if dfs(mc, depth+1) {
				return true
			}
			used[i] = false
		}
		return false
	}
	if dfs(m0, 0) {
		return true, ""
	}
	return false, bestWhy
}

func initClass(in Init) string {
	if in.Name == "fresh" {
		return "uninitialized-cache"
	}
	return "initialized-cache"
}

// threadKinds is the sorted multiset of operation kinds of the scenario's threads.
func threadKinds(sc Scenario) string {
	var ks []string
	for _, p := range sc.Threads {
		k := p.Ops[0].Kind
		if k == "snapshot" {
			k = "snapshot-cycle"
		}
		ks = append(ks, k)
	}
	sort.Strings(ks)
	return strings.Join(ks, "||")
}

var resRe = regexp.MustCompile(`(write|snapshot|clear|delete) returned "(\w+)", model "(\w+)"`)

// signature of a failing execution: violated clause + what disagreed + which operation kinds ran
// concurrently (+ locking discipline). Program arguments and the initial state are not part of it.
func signature(sc Scenario, why string) string {
	kind := failKind(why)
	detail := ""
	if m := resRe.FindStringSubmatch(why); m != nil {
		detail = m[1] + "=" + m[2] + ",model=" + m[3]
	} else if strings.Contains(why, "returned") {
		detail = strings.Fields(why)[1] + "-result"
	}
	if detail == "write=ok,model=limit" {
		nw := 0
		for _, p := range sc.Threads {
			if p.Ops[0].Kind == "write" {
				nw++
			}
		}
		if nw >= 2 {
			// the limit check-then-act race needs two concurrent writers and nothing else
			return "not-linearizable/write-admitted-over-limit/concurrent-writers>=2"
		}
	}
	if detail == "write=limit,model=ok" {
		nw := 0
		for _, p := range sc.Threads {
			if p.Ops[0].Kind == "write" {
				nw++
			}
		}
		if nw >= 2 {
			// optimistic accounting of a concurrent in-flight write inflates Size() for the limit check
			return "not-linearizable/write-rejected-under-limit/concurrent-writers>=2"
		}
	}
	return vlib.JoinSig(kind, detail, threadKinds(sc), sc.Discipline+"-discipline", initClass(sc.Init))
}

func failKind(why string) string {
	switch {
	case strings.HasPrefix(why, "quiescent size"):
		return "size-accounting"
	case strings.HasPrefix(why, "quiescent"):
		return "lost-or-phantom-values"
	}
	return "not-linearizable"
}

func scenarios(tier string) []Scenario {
	ps := programs()
	var out []Scenario
	for _, d := range []string{"engine", "api"} {
		for _, in := range inits() {
			for i := 0; i < len(ps); i++ {
				for j := i; j < len(ps); j++ {
					if strings.HasPrefix(ps[i].Name, "Snap") && in.Name != "empty" && in.Name != "hot(k1@1)" && false {
						continue
					}
					out = append(out, Scenario{d, in, []Program{ps[i], ps[j]}})
				}
			}
		}
	}
	if tier == "thorough" {
		// three threads: writer + snapshot cycle + one of {delete, reader, second writer}
		for _, d := range []string{"engine", "api"} {
			for _, in := range inits() {
				for _, w := range []int{0, 2} {
					for _, s := range []int{5, 6} {
						for _, o := range []int{1, 3, 7, 8, 9} {
							out = append(out, Scenario{d, in, []Program{ps[w], ps[s], ps[o]}})
						}
					}
				}
			}
		}
	}
	return out
}

func runCase(t *testing.T, cs Case) (violated bool, obs string) {
	var hist, fin []rec
	h := harness(cs.Scenario, &hist, &fin)
	r := vrt.RunOnce(t, h, cs.Choices)
	if r.Diverged != "" {
		return false, "diverged: " + r.Diverged
	}
	if r.Deadlock {
		return true, "deadlock: " + strings.Join(r.Blocked, "; ")
	}
	ok, why := linearizable(cs.Scenario, hist, fin)
	b, _ := json.Marshal(append(append([]rec{}, hist...), fin...))
	return !ok, why + " history=" + string(b)
}

func TestCheck(t *testing.T) {
	vlib.Main(t, &vlib.Check{
		ID: "C09", Level: "model_checking",
		Rule: "scenarios = {engine-locking discipline, bare API} × 4 initial cache states × all unordered pairs of 9 thread programs (writes incl. type conflict / over-limit / overwrite on ring-colliding keys, snapshot→read→clear(success|fail) cycles, range/full deletes, reads) [thorough: + 3-thread writer/snapshot/other]; for each scenario every schedule of the real goroutines with ≤ B preemptions (B=2 quick, 3 thorough) at every sync/atomic operation of cache.go+ring.go; each execution's call/return history + quiescent Values/Keys/Size must be explained by some linearization of a sequential map model. states = decision nodes of the schedule tree, transitions = scheduling steps, traces = executions. non-trivial = executions with ≥1 preemption",
		Assumptions: []string{
			"sequentially consistent interleavings at sync/atomic granularity (plain-memory races are the -race pass's job)",
			"whether a range delete also removes values held by an in-progress snapshot is left open (C03 owns that)",
			"values deduplicated in place keep their accounted size until deleted or snapshotted (lenient reading of 'accounted size')",
		},
		QuickBudgetS: 70, ThoroughBudgetS: 1200, WorkerEnv: []string{"GOMAXPROCS=1"},
		Run: func(c *vlib.Ctx) {
			bound := 2
			if c.Thorough() {
				bound = 3
			}
			scs := scenarios(c.Tier)
			completed := map[int]bool{}
			for b := 1; b <= bound; b++ {
				complete := true
				for si, sc := range scs {
					if !c.Mine(int64(si)) {
						continue
					}
					if c.Expired() {
						complete = false
						break
					}
					var hist, fin []rec
					h := harness(sc, &hist, &fin)
					st := vrt.Explore(t, h, b, 0, 1, c.Expired, func(r *vrt.Result) {
						if b < bound && false {
							return
						}
						c.Eval(1)
						if r.Preempts > 0 {
							c.NontrivialN(1)
						}
						if r.Diverged != "" {
							c.HarnessError(sc.names() + ": " + r.Diverged)
							return
						}
						cs := Case{Scenario: sc, Choices: r.Choices}
						if r.Deadlock {
							c.Violation(vlib.JoinSig("deadlock", threadKinds(sc), sc.Discipline+"-discipline", initClass(sc.Init)), "deadlock: "+strings.Join(r.Blocked, "; "), cs)
							c.Outcome("deadlock")
							return
						}
						ok, why := linearizable(sc, hist, fin)
						if !ok {
							c.Outcome("violation:" + failKind(why))
							cs.History = append(append([]rec{}, hist...), fin...)
							for _, s := range r.Steps {
								cs.Trace = append(cs.Trace, fmt.Sprintf("T%d %s", s.Thread, s.Label))
							}
							c.Violation(signature(sc, why),
								fmt.Sprintf("[%s discipline, init %s] %s: %s", sc.Discipline, sc.Init.Name, sc.names(), why), cs)
						} else {
							var rs []string
							for _, hr := range hist {
								if hr.Op.Kind == "write" || hr.Op.Kind == "snapshot" {
									rs = append(rs, hr.Op.Kind+"="+hr.Result)
								}
							}
							sort.Strings(rs)
							c.Outcome("ok:" + strings.Join(rs, ","))
						}
						if c.WantSample() && r.Preempts == b && b > 0 {
							c.Sample(map[string]any{"scenario": sc.names(), "init": sc.Init.Name, "discipline": sc.Discipline, "schedule": r.Choices, "preemptions": r.Preempts})
						}
					})
					if b == bound {
						c.StateN(st.Nodes)
						c.Transition(st.Transitions)
						c.Trace(st.Executions)
					}
					if !st.Complete {
						complete = false
					}
				}
				if complete {
					completed[b] = true
					c.Extra(fmt.Sprintf("shards_completed_bound_%d", b), 1)
				} else {
					c.Cap(fmt.Sprintf("budget expired during preemption bound %d", b))
					break
				}
			}
			c.Extra("scenarios", 0)
			if c.Shard == 0 {
				c.Extra("scenarios", int64(len(scs)))
				c.Extra("preemption_bound_target", int64(bound))
			}
		},
		Replay: func(c *vlib.Ctx, raw json.RawMessage) (bool, string) {
			var cs Case
			if err := json.Unmarshal(raw, &cs); err != nil {
				return false, err.Error()
			}
			return runCase(t, cs)
		},
	})
}
