// C08: TSM files and tombstones read back what was written.
//
// Bounded-exhaustive input enumeration (Level "exploration"):
//
//   - readback: real TSM files written by the repo's TSMWriter (in-memory and disk-buffered index, Write and
//     WriteBlock) from every key subset of a 6-key pool (escaped, 0xFF-bearing, prefix pair, 65 535-byte key)
//     and enumerated block layouts over timestamps {1..5}; every file is parsed byte-wise by the harness
//     (format in writer.go's header comment) and opened with the real TSMReader; every lookup of the reader is
//     compared with the model built from the input.
//
//   - tomb: histories of tombstone operations (TSMReader.DeleteRange / BatchDelete commit+rollback / Delete /
//     reopen) on real files; after the history and after a reopen the reader must hide exactly the recorded
//     (key, time range) pairs.
//
//   - crash (engine verif/h/crashfs): the crash clause. WriteTombHistory is the history writer (create the file,
//     apply step lists through the real TSMReader, per-step hook = BEGIN/ACK markers), run under strace; every
//     prefix / torn-write / unsynced image of the syscall log is materialized and recovered by a fresh subprocess
//     with ObserveTombstones (open with the real TSMReader, list what is hidden); the hidden set must be the one
//     of the acknowledged steps or of those plus the step in flight; then one more tombstone must be recorded and
//     persist. Reported in the same evidence under the crash_* coverage keys.
package c08

import (
	"bufio"
	"bytes"
	"crypto/sha256"
	"encoding/binary"
	"encoding/hex"
	"encoding/json"
	"errors"
	"fmt"
	"hash/crc32"
	"math"
	"os"
	"os/exec"
	"path/filepath"
	"regexp"
	"runtime/debug"
	"runtime/pprof"
	"sort"
	"strconv"
	"strings"
	"sync"
	"testing"
	"time"

	"github.com/influxdata/influxdb/v2/tsdb/engine/tsm1"
	"verif/h/crashfs"
	"verif/h/tsmkit"
	"verif/h/vlib"
)

// ---------------------------------------------------------------------------------------------------------
// key pool and probe keys
// ---------------------------------------------------------------------------------------------------------

const nPool = 6

var (
	pool   [nPool][]byte // ascending
	probes [][]byte      // ascending, distinct: the pool keys and absent neighbours of them
)

func init() {
	long := bytes.Repeat([]byte{'x'}, 65535)
	copy(long, "cpu,host=b")
	copy(long[len(long)-5:], "#!~#v")
	pool = [nPool][]byte{
		[]byte("cpu,host=a#!~#v"),    // 0
		[]byte("cpu,host=a#!~#v2"),   // 1: key 0 is a strict prefix of it
		[]byte(`cpu,host=a\,b#!~#v`), // 2: escaped comma
		long,                         // 3: maximum key length (65 535 bytes)
		[]byte("cpu,host=\xff#!~#v"), // 4: 0xFF-bearing
		[]byte("m"),                  // 5: one byte
	}
	for i := 1; i < nPool; i++ {
		if bytes.Compare(pool[i-1], pool[i]) >= 0 {
			panic("c08: key pool not ascending")
		}
	}
	longLast := append([]byte(nil), long...)
	longLast[len(longLast)-1] = 'w'
	absent := [][]byte{
		{},
		[]byte("a"),
		[]byte("cpu,host=a#!~#"),
		[]byte("cpu,host=a#!~#v\x00"),
		[]byte("cpu,host=a#!~#v1"),
		[]byte("cpu,host=a#!~#v3"),
		[]byte("cpu,host=a,b#!~#v"),
		long[:65534],
		longLast,
		[]byte("cpu,host=\xff"),
		[]byte("cpu,host=\xff#!~#v\xff"),
		[]byte("l"),
		[]byte("m\x00"),
		[]byte("\xff\xff"),
	}
	probes = append(probes, absent...)
	for i := range pool {
		probes = append(probes, pool[i])
	}
	sort.Slice(probes, func(i, j int) bool { return bytes.Compare(probes[i], probes[j]) < 0 })
	for i := 1; i < len(probes); i++ {
		if bytes.Equal(probes[i-1], probes[i]) {
			panic("c08: duplicate probe key")
		}
	}
}

func keyName(k []byte) string {
	if len(k) > 40 {
		return fmt.Sprintf("%q...(%d bytes)...%q", k[:12], len(k), k[len(k)-6:])
	}
	return fmt.Sprintf("%q", k)
}

// ---------------------------------------------------------------------------------------------------------
// file specification and model
// ---------------------------------------------------------------------------------------------------------

// KeySpec is one key of a file: pool index, block type and block layout over logical timestamps 1..5.
type KeySpec struct {
	K      int           `json:"k"`
	Typ    byte          `json:"typ"`
	Blocks tsmkit.Layout `json:"blocks"`
}

// FileSpec is a TSM file to be written. Real timestamps are logical timestamp + Shift.
type FileSpec struct {
	Keys   []KeySpec `json:"keys"` // ascending K
	Writer string    `json:"writer"`
	Shift  int64     `json:"shift,omitempty"`
}

const (
	wMem       = "mem/Write"       // NewTSMWriter + Write(values)
	wDisk      = "disk/Write"      // NewTSMWriterWithDiskBuffer + Write(values)
	wMemBlock  = "mem/WriteBlock"  // NewTSMWriter + WriteBlock(encoded block)
	wDiskBlock = "disk/WriteBlock" // NewTSMWriterWithDiskBuffer + WriteBlock(encoded block)
)

var allWriters = []string{wMem, wDisk, wMemBlock, wDiskBlock}

// TSMName is the name of the file every case writes in its directory.
var TSMName = tsmkit.FileName(1, 1)

// mkValue is the value stored for pool key k at logical time lt (real time t); a fixed function so that the
// model knows every value.
func mkValue(typ byte, k int, lt, t int64) tsm1.Value {
	switch typ {
	case tsm1.BlockFloat64:
		return tsm1.NewFloatValue(t, float64(lt)*1.5-4.25+float64(k))
	case tsm1.BlockInteger:
		return tsm1.NewIntegerValue(t, lt*1000-2500+int64(k))
	case tsm1.BlockUnsigned:
		return tsm1.NewUnsignedValue(t, math.MaxUint64-uint64(lt*10)-uint64(k))
	case tsm1.BlockString:
		switch lt % 3 {
		case 0:
			return tsm1.NewStringValue(t, "")
		case 1:
			return tsm1.NewStringValue(t, fmt.Sprintf("s%d-%d", k, lt))
		}
		return tsm1.NewStringValue(t, "héllo,\x00 wörld "+strings.Repeat("y", k))
	case tsm1.BlockBoolean:
		return tsm1.NewBooleanValue(t, (lt+int64(k))%2 == 0)
	}
	panic("c08: bad block type")
}

type mBlock struct {
	lts  []int64 // logical
	vals []tsm1.Value
}

func (b *mBlock) min() int64 { return b.vals[0].UnixNano() }
func (b *mBlock) max() int64 { return b.vals[len(b.vals)-1].UnixNano() }

type mKey struct {
	k      int
	key    []byte
	typ    byte
	blocks []mBlock
}

func (mk *mKey) min() int64 { return mk.blocks[0].min() }
func (mk *mKey) max() int64 { return mk.blocks[len(mk.blocks)-1].max() }

type model struct {
	spec       FileSpec
	keys       []mKey
	minT, maxT int64
}

func (m *model) find(key []byte) *mKey {
	for i := range m.keys {
		if bytes.Equal(m.keys[i].key, key) {
			return &m.keys[i]
		}
	}
	return nil
}

func buildModel(fs FileSpec) *model {
	m := &model{spec: fs, minT: math.MaxInt64, maxT: math.MinInt64}
	for _, ks := range fs.Keys {
		mk := mKey{k: ks.K, key: pool[ks.K], typ: ks.Typ}
		for _, b := range ks.Blocks {
			if len(b) == 0 {
				continue
			}
			mb := mBlock{lts: b}
			for _, lt := range b {
				mb.vals = append(mb.vals, mkValue(ks.Typ, ks.K, lt, lt+fs.Shift))
			}
			mk.blocks = append(mk.blocks, mb)
		}
		if len(mk.blocks) == 0 {
			continue
		}
		if mk.min() < m.minT {
			m.minT = mk.min()
		}
		if mk.max() > m.maxT {
			m.maxT = mk.max()
		}
		m.keys = append(m.keys, mk)
	}
	return m
}

// timeClass tells apart the families of real timestamps (used in signatures).
func (m *model) timeClass() string {
	switch {
	case m.minT > 0:
		return ""
	case m.maxT < 0:
		return "/times=all-negative"
	}
	return "/times=mixed-sign"
}

// WriteTSM writes the file described by fs into dir with the repo's TSMWriter and returns its path.
func WriteTSM(dir string, fs FileSpec) (string, error) {
	m := buildModel(fs)
	final := filepath.Join(dir, TSMName)
	disk := strings.HasPrefix(fs.Writer, "disk/")
	block := strings.HasSuffix(fs.Writer, "/WriteBlock")
	name := final
	if disk {
		name = final + ".tmp" // "<gen>-<seq>.tsm.tmp", as the compactor names it; the index buffer becomes ".idx.tmp"
	}
	f, err := os.OpenFile(name, os.O_CREATE|os.O_RDWR|os.O_EXCL, 0o666)
	if err != nil {
		return "", err
	}
	var w tsm1.TSMWriter
	if disk {
		w, err = tsm1.NewTSMWriterWithDiskBuffer(f)
	} else {
		w, err = tsm1.NewTSMWriter(f)
	}
	if err != nil {
		f.Close()
		return "", fmt.Errorf("new writer: %v", err)
	}
	for i := range m.keys {
		mk := &m.keys[i]
		for j := range mk.blocks {
			vals := tsm1.Values(mk.blocks[j].vals)
			if block {
				var b []byte
				if b, err = vals.Encode(nil); err == nil {
					err = w.WriteBlock(mk.key, mk.blocks[j].min(), mk.blocks[j].max(), b)
				}
			} else {
				err = w.Write(mk.key, vals)
			}
			if err != nil {
				w.Close()
				return "", fmt.Errorf("write key %s block %d: %v", keyName(mk.key), j, err)
			}
		}
	}
	if err := w.WriteIndex(); err != nil {
		w.Close()
		return "", fmt.Errorf("WriteIndex: %v", err)
	}
	if err := w.Close(); err != nil {
		return "", fmt.Errorf("Close: %v", err)
	}
	if disk {
		if err := os.Rename(name, final); err != nil {
			return "", err
		}
	}
	return final, nil
}

func openReader(path string) (*tsm1.TSMReader, error) {
	f, err := os.Open(path)
	if err != nil {
		return nil, err
	}
	r, err := tsm1.NewTSMReader(f)
	if err != nil {
		f.Close()
		return nil, err
	}
	return r, nil
}

// ---------------------------------------------------------------------------------------------------------
// independent byte-level parse of a TSM file (format: writer.go header comment)
// ---------------------------------------------------------------------------------------------------------

type rawEntry struct {
	min, max, off int64
	size          uint32
}

type rawKey struct {
	key     []byte
	typ     byte
	entries []rawEntry
}

func parseRaw(b []byte) (keys []rawKey, indexStart int64, err error) {
	if len(b) < 5+8 {
		return nil, 0, fmt.Errorf("file too short (%d bytes)", len(b))
	}
	if binary.BigEndian.Uint32(b[0:4]) != tsm1.MagicNumber || b[4] != tsm1.Version {
		return nil, 0, fmt.Errorf("bad header % x", b[:5])
	}
	idx := int64(binary.BigEndian.Uint64(b[len(b)-8:]))
	if idx < 5 || idx > int64(len(b)-8) {
		return nil, 0, fmt.Errorf("bad index offset %d (file %d bytes)", idx, len(b))
	}
	ix := b[idx : len(b)-8]
	for len(ix) > 0 {
		if len(ix) < 2 {
			return nil, 0, fmt.Errorf("truncated index (key length)")
		}
		kl := int(binary.BigEndian.Uint16(ix))
		ix = ix[2:]
		if len(ix) < kl+3 {
			return nil, 0, fmt.Errorf("truncated index (key)")
		}
		rk := rawKey{key: ix[:kl], typ: ix[kl]}
		n := int(binary.BigEndian.Uint16(ix[kl+1:]))
		ix = ix[kl+3:]
		if len(ix) < n*28 {
			return nil, 0, fmt.Errorf("truncated index (%d entries for key %s)", n, keyName(rk.key))
		}
		for i := 0; i < n; i++ {
			e := ix[i*28:]
			rk.entries = append(rk.entries, rawEntry{
				min:  int64(binary.BigEndian.Uint64(e[0:8])),
				max:  int64(binary.BigEndian.Uint64(e[8:16])),
				off:  int64(binary.BigEndian.Uint64(e[16:24])),
				size: binary.BigEndian.Uint32(e[24:28]),
			})
		}
		ix = ix[n*28:]
		keys = append(keys, rk)
	}
	return keys, idx, nil
}

// ---------------------------------------------------------------------------------------------------------
// failure collection
// ---------------------------------------------------------------------------------------------------------

type fail struct{ sig, msg string }

type vctx struct {
	fam    string // "readback" | "tomb"
	suffix string // appended to every signature (time class, live/reopen)
	out    []fail
	stats  map[string]int64
}

// bad records a disagreement; only the first one per signature is kept (so a noisy class cannot crowd out
// another one) and at most 24 signatures per view.
func (v *vctx) bad(api, kind, format string, a ...any) {
	sig := vlib.JoinSig(v.fam, api, kind)
	if v.fam != "readback" || api == "TimeRange" || api == "Stats" || api == "OverlapsTimeRange" {
		sig += v.suffix // readback: the time class only matters for the time lookups
	}
	for _, f := range v.out {
		if f.sig == sig {
			return
		}
	}
	if len(v.out) >= 24 {
		return
	}
	v.out = append(v.out, fail{sig: sig, msg: api + ": " + fmt.Sprintf(format, a...)})
}

func (v *vctx) count(k string) {
	if v.stats != nil {
		v.stats[k]++
	}
}

func valStr(vals []tsm1.Value) string {
	var sb strings.Builder
	sb.WriteByte('[')
	for i, x := range vals {
		if i > 0 {
			sb.WriteByte(' ')
		}
		fmt.Fprintf(&sb, "%d:%v", x.UnixNano(), x.Value())
	}
	sb.WriteByte(']')
	return sb.String()
}

func sameValues(got, want []tsm1.Value) bool {
	if len(got) != len(want) {
		return false
	}
	for i := range got {
		if got[i].UnixNano() != want[i].UnixNano() || got[i].Value() != want[i].Value() {
			return false
		}
	}
	return true
}

// ---------------------------------------------------------------------------------------------------------
// tombstone model
// ---------------------------------------------------------------------------------------------------------

// TombOp is one DeleteRange call: pool indices of the keys (ascending) and the closed time range.
type TombOp struct {
	Keys []int `json:"keys"`
	Min  int64 `json:"min"`
	Max  int64 `json:"max"`
}

// TombStep is one step of a tombstone history.
//
//	commit   BatchDelete(); DeleteRange(op) for every op; Commit()
//	rollback BatchDelete(); DeleteRange(op) for every op; Rollback()     (records nothing)
//	drange   TSMReader.DeleteRange(op) for every op (each its own batch)
//	delete   TSMReader.Delete(keys of op) for every op (whole key; Min/Max ignored)
//	reopen   Close() and NewTSMReader() again
type TombStep struct {
	Kind string   `json:"kind"`
	Ops  []TombOp `json:"ops,omitempty"`
}

type rec struct {
	k        int
	min, max int64
}

// tombModel is the set of recorded (key, time range) pairs.
type tombModel struct{ recs []rec }

// recordedBy lists what the statement says the steps record.
func recordedBy(steps []TombStep) *tombModel {
	tm := &tombModel{}
	for _, s := range steps {
		switch s.Kind {
		case "commit", "drange":
			for _, op := range s.Ops {
				for _, k := range op.Keys {
					tm.recs = append(tm.recs, rec{k, op.Min, op.Max})
				}
			}
		case "delete":
			for _, op := range s.Ops {
				for _, k := range op.Keys {
					tm.recs = append(tm.recs, rec{k, math.MinInt64, math.MaxInt64})
				}
			}
		}
	}
	return tm
}

func (tm *tombModel) hidden(k int, t int64) bool {
	for _, r := range tm.recs {
		if r.k == k && r.min <= t && t <= r.max {
			return true
		}
	}
	return false
}

func (tm *tombModel) full(k int) bool {
	for _, r := range tm.recs {
		if r.k == k && r.min == math.MinInt64 && r.max == math.MaxInt64 {
			return true
		}
	}
	return false
}

// visible returns the values of mk that no recorded range covers (tm nil: all).
func visible(mk *mKey, tm *tombModel) []tsm1.Value {
	var out []tsm1.Value
	for i := range mk.blocks {
		for _, v := range mk.blocks[i].vals {
			if tm == nil || !tm.hidden(mk.k, v.UnixNano()) {
				out = append(out, v)
			}
		}
	}
	return out
}

// ---------------------------------------------------------------------------------------------------------
// the view check: every lookup of an open TSMReader against the model
// ---------------------------------------------------------------------------------------------------------

// checkView compares the reader with the model. tm == nil: no tombstone was ever recorded; every lookup must
// agree exactly with the written content. tm != nil: the statement only fixes what is hidden, so
//   - ReadAll(key) must be exactly the points no recorded range covers;
//   - Contains(key) must be true while a point is visible and false after a whole-key delete (in between, e.g.
//     all points hidden by several partial ranges, both answers are accepted);
//   - KeyCount/KeyAt/Key/Seek/BlockIterator must be consistent with the set of keys for which Contains is true;
//   - Entries(key) must be original entries, at least those that still hold a visible point;
//   - ContainsValue must be true for a visible point and false for a hidden one;
//   - TombstoneRange(key) must cover no time that was not recorded and every hidden point.
//
// It returns, per model key, one of "untouched", "partial", "hidden-listed", "removed" (for outcome classes).
func checkView(v *vctx, r *tsm1.TSMReader, m *model, tm *tombModel, raw []rawKey) []string {
	strict := tm == nil
	lo, hi := 0+m.spec.Shift, 6+m.spec.Shift // probe times: one below and one above the logical domain 1..5

	// --- Contains → listed keys
	var V []*mKey
	states := make([]string, len(m.keys))
	for i := range m.keys {
		mk := &m.keys[i]
		c := r.Contains(mk.key)
		nvis := len(visible(mk, tm))
		nall := len(visible(mk, nil))
		switch {
		case strict && !c:
			v.bad("Contains", "false-for-written-key", "Contains(%s)=false but the key was written", keyName(mk.key))
		case !strict && nvis > 0 && !c:
			v.bad("Contains", "false-for-key-with-visible-points", "Contains(%s)=false but %d of its %d points are not covered by any recorded range", keyName(mk.key), nvis, nall)
		case !strict && tm.full(mk.k) && c:
			v.bad("Contains", "true-after-whole-key-delete", "Contains(%s)=true after a whole-key tombstone", keyName(mk.key))
		}
		if c {
			V = append(V, mk)
			v.count("contains_true")
		} else {
			v.count("contains_false")
		}
		switch {
		case !c:
			states[i] = "removed"
		case nvis == nall:
			states[i] = "untouched"
		case nvis == 0:
			states[i] = "hidden-listed"
		default:
			states[i] = "partial"
		}
	}

	// --- absent keys
	for _, p := range probes {
		if m.find(p) != nil {
			continue
		}
		v.count("contains_false")
		if r.Contains(p) {
			v.bad("Contains", "true-for-absent-key", "Contains(%s)=true but the key was never written", keyName(p))
		}
		if e := r.Entries(p); len(e) != 0 {
			v.bad("Entries", "entries-for-absent-key", "Entries(%s) has %d entries but the key was never written", keyName(p), len(e))
		}
		if vals, err := r.ReadAll(p); err != nil || len(vals) != 0 {
			v.bad("ReadAll", "values-for-absent-key", "ReadAll(%s) = %s, %v but the key was never written", keyName(p), valStr(vals), err)
		}
		if strict || len(p) < 1000 { // the error text formats the key: skip the 64 KiB probes in tombstone views
			if typ, err := r.Type(p); err == nil {
				v.bad("Type", "type-for-absent-key", "Type(%s) = %d, nil but the key was never written", keyName(p), typ)
			}
		}
		for t := lo; t <= hi; t++ {
			if r.ContainsValue(p, t) {
				v.bad("ContainsValue", "true-for-absent-key", "ContainsValue(%s, %d)=true but the key was never written", keyName(p), t)
				break
			}
		}
		if strict {
			if tr := r.TombstoneRange(p); len(tr) != 0 {
				v.bad("TombstoneRange", "ranges-without-tombstones", "TombstoneRange(%s) = %v but nothing was deleted", keyName(p), tr)
			}
		}
	}

	// --- KeyCount / KeyAt / Key
	if n := r.KeyCount(); n != len(V) {
		v.bad("KeyCount", "mismatch", "KeyCount()=%d but Contains is true for %d keys", n, len(V))
	}
	for i, mk := range V {
		k, typ := r.KeyAt(i)
		if !bytes.Equal(k, mk.key) || typ != mk.typ {
			v.bad("KeyAt", "mismatch", "KeyAt(%d) = %s type %d, want %s type %d", i, keyName(k), typ, keyName(mk.key), mk.typ)
		}
		k, typ, ents := r.Key(i, nil)
		if !bytes.Equal(k, mk.key) || typ != mk.typ {
			v.bad("Key", "mismatch", "Key(%d) = %s type %d, want %s type %d", i, keyName(k), typ, keyName(mk.key), mk.typ)
		} else {
			checkEntries(v, "Key", mk, ents, tm, raw)
		}
	}
	// out-of-range positions: the statement says nothing, they only must not panic
	r.KeyAt(-1)
	r.KeyAt(len(V))
	r.Key(-1, nil)
	r.Key(len(V), nil)

	// --- Seek: position of the first listed key >= probe (KeyCount when every listed key is smaller)
	for _, p := range probes {
		want := sort.Search(len(V), func(i int) bool { return bytes.Compare(V[i].key, p) >= 0 })
		got := r.Seek(p)
		rel := "probe-between-keys"
		switch {
		case want == len(V):
			rel = "probe-past-last-key"
		case bytes.Equal(V[want].key, p):
			rel = "probe-is-a-key"
		case want == 0:
			rel = "probe-before-first-key"
		}
		v.count("seek_" + rel)
		if got != want {
			how := "other"
			switch {
			case got == want-1 && want == len(V):
				how = "last-position"
			case got == want-1:
				how = "one-too-small"
			case got == want+1:
				how = "one-too-large"
			}
			v.bad("Seek", rel+"/got="+how, "Seek(%s) = %d, want %d (first listed key >= probe; %d keys listed)", keyName(p), got, want, len(V))
		}
	}

	// --- per listed key: Type, Entries, ReadEntries, ContainsValue, TombstoneRange, Read, ReadAt
	for _, mk := range V {
		if typ, err := r.Type(mk.key); err != nil || typ != mk.typ {
			v.bad("Type", "mismatch", "Type(%s) = %d, %v; want %d", keyName(mk.key), typ, err, mk.typ)
		}
		ents := r.Entries(mk.key)
		checkEntries(v, "Entries", mk, ents, tm, raw)
		var buf []tsm1.IndexEntry
		ents2 := r.ReadEntries(mk.key, &buf)
		if fmt.Sprint(ents2) != fmt.Sprint(ents) {
			v.bad("ReadEntries", "differs-from-Entries", "ReadEntries(%s) = %v but Entries = %v", keyName(mk.key), ents2, ents)
		}

		tr := r.TombstoneRange(mk.key)
		if strict && len(tr) != 0 {
			v.bad("TombstoneRange", "ranges-without-tombstones", "TombstoneRange(%s) = %v but nothing was deleted", keyName(mk.key), tr)
		}
		covered := func(t int64) bool {
			for _, x := range tr {
				if x.Min <= t && t <= x.Max {
					return true
				}
			}
			return false
		}
		if !strict {
			for _, t := range []int64{math.MinInt64, lo - 1, math.MaxInt64, hi + 1} {
				if covered(t) && !tm.hidden(mk.k, t) {
					v.bad("TombstoneRange", "covers-unrecorded-time", "TombstoneRange(%s) = %v covers time %d which no recorded range of that key covers", keyName(mk.key), tr, t)
				}
			}
		}
		isPoint := map[int64]bool{}
		for i := range mk.blocks {
			for _, x := range mk.blocks[i].vals {
				isPoint[x.UnixNano()] = true
			}
		}
		for t := lo; t <= hi; t++ {
			hid := !strict && tm.hidden(mk.k, t)
			if !strict {
				if covered(t) && !hid {
					v.bad("TombstoneRange", "covers-unrecorded-time", "TombstoneRange(%s) = %v covers time %d which no recorded range of that key covers", keyName(mk.key), tr, t)
				}
				if isPoint[t] && hid && !covered(t) {
					v.bad("TombstoneRange", "misses-hidden-point", "TombstoneRange(%s) = %v does not cover the deleted point at %d", keyName(mk.key), tr, t)
				}
			}
			if isPoint[t] {
				cv := r.ContainsValue(mk.key, t)
				if hid && cv {
					v.bad("ContainsValue", "true-for-hidden-point", "ContainsValue(%s, %d)=true but a recorded range covers it", keyName(mk.key), t)
				}
				if !hid && !cv {
					v.bad("ContainsValue", "false-for-visible-point", "ContainsValue(%s, %d)=false but the point was written and never deleted", keyName(mk.key), t)
				}
			}
			if strict {
				// Read(key, t): the block whose [min,max] holds t (blocks of a key are disjoint), else nothing
				var want []tsm1.Value
				for i := range mk.blocks {
					if mk.blocks[i].min() <= t && t <= mk.blocks[i].max() {
						want = mk.blocks[i].vals
						break
					}
				}
				got, err := r.Read(mk.key, t)
				if want == nil {
					v.count("read_miss")
				} else {
					v.count("read_hit")
				}
				if err != nil || !sameValues(got, want) {
					v.bad("Read", "mismatch", "Read(%s, %d) = %s, %v; want %s", keyName(mk.key), t, valStr(got), err, valStr(want))
				}
			}
		}
		if strict && len(ents) == len(mk.blocks) {
			for i := range ents {
				got, err := r.ReadAt(&ents[i], nil)
				if err != nil || !sameValues(got, mk.blocks[i].vals) {
					v.bad("ReadAt", "mismatch", "ReadAt(%s, entry %d) = %s, %v; want %s", keyName(mk.key), i, valStr(got), err, valStr(mk.blocks[i].vals))
				}
			}
		}
	}

	// --- ReadAll for every written key (listed or not): exactly the visible points
	for i := range m.keys {
		mk := &m.keys[i]
		want := visible(mk, tm)
		got, err := r.ReadAll(mk.key)
		if err != nil {
			v.bad("ReadAll", "error", "ReadAll(%s): %v", keyName(mk.key), err)
			continue
		}
		if !sameValues(got, want) {
			kind := "mismatch"
			if !strict {
				gotT := map[int64]bool{}
				for _, x := range got {
					gotT[x.UnixNano()] = true
				}
				kind = "wrong-values"
				for _, x := range want {
					if !gotT[x.UnixNano()] {
						kind = "visible-point-missing"
					}
				}
				for _, x := range got {
					if tm.hidden(mk.k, x.UnixNano()) {
						kind = "hidden-point-returned"
					}
				}
			}
			v.bad("ReadAll", kind, "ReadAll(%s) = %s; want %s", keyName(mk.key), valStr(got), valStr(want))
		}
	}

	// --- BlockIterator
	type blk struct {
		key      []byte
		min, max int64
		typ      byte
		vals     []tsm1.Value
	}
	var wantSeq []blk
	for _, mk := range V {
		if strict {
			for i := range mk.blocks {
				wantSeq = append(wantSeq, blk{mk.key, mk.blocks[i].min(), mk.blocks[i].max(), mk.typ, mk.blocks[i].vals})
			}
		} else {
			for _, e := range r.Entries(mk.key) { // validated above; here only the iterator's consistency with it
				wantSeq = append(wantSeq, blk{mk.key, e.MinTime, e.MaxTime, mk.typ, nil})
			}
		}
	}
	it := r.BlockIterator()
	n := 0
	for it.Next() {
		key, minT, maxT, typ, sum, buf, err := it.Read()
		if err != nil {
			v.bad("BlockIterator", "error", "Read: %v", err)
			break
		}
		if n >= len(wantSeq) {
			v.bad("BlockIterator", "extra-block", "yields more than the %d expected blocks: key %s [%d,%d]", len(wantSeq), keyName(key), minT, maxT)
			break
		}
		w := wantSeq[n]
		if !bytes.Equal(key, w.key) || minT != w.min || maxT != w.max || typ != w.typ {
			v.bad("BlockIterator", "mismatch", "block %d = key %s [%d,%d] type %d; want key %s [%d,%d] type %d", n, keyName(key), minT, maxT, typ, keyName(w.key), w.min, w.max, w.typ)
		} else if strict {
			if crc32.ChecksumIEEE(buf) != sum {
				v.bad("BlockIterator", "checksum", "block %d of key %s: stored checksum %08x does not match the block bytes", n, keyName(key), sum)
			}
			vals, err := tsm1.DecodeBlock(buf, nil)
			if err != nil || !sameValues(vals, w.vals) {
				v.bad("BlockIterator", "block-content", "block %d of key %s decodes to %s, %v; want %s", n, keyName(key), valStr(vals), err, valStr(w.vals))
			}
		}
		n++
	}
	if err := it.Err(); err != nil {
		v.bad("BlockIterator", "error", "Err: %v", err)
	}
	if n < len(wantSeq) {
		v.bad("BlockIterator", "missing-block", "yields %d blocks, want %d", n, len(wantSeq))
	}

	if !strict {
		return states
	}

	// --- file-wide lookups (only fixed by the statement for a file without tombstones)
	if r.HasTombstones() {
		v.bad("HasTombstones", "true-without-tombstones", "HasTombstones()=true on a freshly written file")
	}
	if len(m.keys) == 0 {
		return states
	}
	minK, maxK := m.keys[0].key, m.keys[len(m.keys)-1].key
	if a, b := r.KeyRange(); !bytes.Equal(a, minK) || !bytes.Equal(b, maxK) {
		v.bad("KeyRange", "mismatch", "KeyRange() = %s, %s; want %s, %s", keyName(a), keyName(b), keyName(minK), keyName(maxK))
	}
	if a, b := r.TimeRange(); a != m.minT || b != m.maxT {
		v.bad("TimeRange", "mismatch", "TimeRange() = %d, %d; want %d, %d", a, b, m.minT, m.maxT)
	}
	st := r.Stats()
	if !bytes.Equal(st.MinKey, minK) || !bytes.Equal(st.MaxKey, maxK) || st.MinTime != m.minT || st.MaxTime != m.maxT || st.HasTombstone {
		v.bad("Stats", "mismatch", "Stats() = keys %s..%s times %d..%d tombstone=%v; want keys %s..%s times %d..%d tombstone=false",
			keyName(st.MinKey), keyName(st.MaxKey), st.MinTime, st.MaxTime, st.HasTombstone, keyName(minK), keyName(maxK), m.minT, m.maxT)
	}
	type tr struct{ a, b int64 }
	trs := []tr{{math.MinInt64, math.MaxInt64}, {math.MinInt64, m.minT - 1}, {m.maxT + 1, math.MaxInt64}, {math.MinInt64, m.minT}, {m.maxT, math.MaxInt64}}
	for a := lo; a <= hi; a++ {
		for b := a; b <= hi; b++ {
			trs = append(trs, tr{a, b})
		}
	}
	for _, x := range trs {
		want := x.a <= m.maxT && x.b >= m.minT
		if want {
			v.count("overlaps_time_true")
		} else {
			v.count("overlaps_time_false")
		}
		if got := r.OverlapsTimeRange(x.a, x.b); got != want {
			v.bad("OverlapsTimeRange", fmt.Sprintf("got-%v", got), "OverlapsTimeRange(%d, %d) = %v but the file holds times %d..%d", x.a, x.b, got, m.minT, m.maxT)
		}
	}
	for i, a := range probes {
		for _, b := range probes[i:] {
			want := bytes.Compare(a, maxK) <= 0 && bytes.Compare(b, minK) >= 0
			if want {
				v.count("overlaps_key_true")
			} else {
				v.count("overlaps_key_false")
			}
			if got := r.OverlapsKeyRange(a, b); got != want {
				v.bad("OverlapsKeyRange", fmt.Sprintf("got-%v", got), "OverlapsKeyRange(%s, %s) = %v but the file holds keys %s..%s", keyName(a), keyName(b), got, keyName(minK), keyName(maxK))
			}
		}
	}
	return states
}

// checkEntries validates index entries returned for a listed key.
func checkEntries(v *vctx, api string, mk *mKey, ents []tsm1.IndexEntry, tm *tombModel, raw []rawKey) {
	if tm == nil {
		if len(ents) != len(mk.blocks) {
			v.bad(api, "entry-count", "%s: %d index entries, want %d", keyName(mk.key), len(ents), len(mk.blocks))
			return
		}
		var rk *rawKey
		for i := range raw {
			if bytes.Equal(raw[i].key, mk.key) {
				rk = &raw[i]
			}
		}
		for i, e := range ents {
			if e.MinTime != mk.blocks[i].min() || e.MaxTime != mk.blocks[i].max() {
				v.bad(api, "entry-times", "%s entry %d: [%d,%d], want [%d,%d]", keyName(mk.key), i, e.MinTime, e.MaxTime, mk.blocks[i].min(), mk.blocks[i].max())
			}
			if rk != nil && i < len(rk.entries) && (e.Offset != rk.entries[i].off || e.Size != rk.entries[i].size) {
				v.bad(api, "entry-location", "%s entry %d: offset %d size %d, the index bytes say offset %d size %d", keyName(mk.key), i, e.Offset, e.Size, rk.entries[i].off, rk.entries[i].size)
			}
		}
		return
	}
	// with tombstones: a subsequence of the original entries that keeps every block with a visible point
	j := 0
	for _, e := range ents {
		for j < len(mk.blocks) && (mk.blocks[j].min() != e.MinTime || mk.blocks[j].max() != e.MaxTime) {
			for _, x := range mk.blocks[j].vals {
				if !tm.hidden(mk.k, x.UnixNano()) {
					v.bad(api, "entry-with-visible-point-missing", "%s: entries %v lack block [%d,%d] which still holds the visible point %d", keyName(mk.key), ents, mk.blocks[j].min(), mk.blocks[j].max(), x.UnixNano())
					return
				}
			}
			j++
		}
		if j == len(mk.blocks) {
			v.bad(api, "unknown-entry", "%s: entry [%d,%d] is not a block that was written (in order)", keyName(mk.key), e.MinTime, e.MaxTime)
			return
		}
		j++
	}
	for ; j < len(mk.blocks); j++ {
		for _, x := range mk.blocks[j].vals {
			if !tm.hidden(mk.k, x.UnixNano()) {
				v.bad(api, "entry-with-visible-point-missing", "%s: entries %v lack block [%d,%d] which still holds the visible point %d", keyName(mk.key), ents, mk.blocks[j].min(), mk.blocks[j].max(), x.UnixNano())
				return
			}
		}
	}
}

// checkRaw compares the bytes of the file with the model: header, block section laid out contiguously in
// key/block order, checksums, block payloads, index records, footer.
func checkRaw(v *vctx, m *model, b []byte) []rawKey {
	raw, idx, err := parseRaw(b)
	if err != nil {
		v.bad("file-bytes", "unparsable", "%v", err)
		return nil
	}
	if len(raw) != len(m.keys) {
		v.bad("file-bytes", "key-count", "index holds %d keys, %d were written", len(raw), len(m.keys))
		return raw
	}
	next := int64(5)
	for i := range raw {
		rk, mk := &raw[i], &m.keys[i]
		if !bytes.Equal(rk.key, mk.key) || rk.typ != mk.typ {
			v.bad("file-bytes", "index-key", "index record %d: key %s type %d, want %s type %d", i, keyName(rk.key), rk.typ, keyName(mk.key), mk.typ)
			continue
		}
		if len(rk.entries) != len(mk.blocks) {
			v.bad("file-bytes", "entry-count", "key %s: %d index entries, %d blocks written", keyName(mk.key), len(rk.entries), len(mk.blocks))
			continue
		}
		for j, e := range rk.entries {
			if e.min != mk.blocks[j].min() || e.max != mk.blocks[j].max() {
				v.bad("file-bytes", "entry-times", "key %s entry %d: [%d,%d], want [%d,%d]", keyName(mk.key), j, e.min, e.max, mk.blocks[j].min(), mk.blocks[j].max())
			}
			if e.off != next || e.size < 5 || e.off+int64(e.size) > idx {
				v.bad("file-bytes", "entry-location", "key %s entry %d: offset %d size %d, expected offset %d inside the block section [5,%d)", keyName(mk.key), j, e.off, e.size, next, idx)
				return raw
			}
			blk := b[e.off : e.off+int64(e.size)]
			if crc32.ChecksumIEEE(blk[4:]) != binary.BigEndian.Uint32(blk[:4]) {
				v.bad("file-bytes", "checksum", "key %s entry %d: block checksum mismatch", keyName(mk.key), j)
			}
			vals, err := tsm1.DecodeBlock(blk[4:], nil)
			if err != nil || !sameValues(vals, mk.blocks[j].vals) {
				v.bad("file-bytes", "block-content", "key %s entry %d decodes to %s, %v; want %s", keyName(mk.key), j, valStr(vals), err, valStr(mk.blocks[j].vals))
			}
			next = e.off + int64(e.size)
		}
	}
	if next != idx {
		v.bad("file-bytes", "index-offset", "footer says the index starts at %d, the blocks end at %d", idx, next)
	}
	return raw
}

// ---------------------------------------------------------------------------------------------------------
// readback case
// ---------------------------------------------------------------------------------------------------------

func scrub(s, dir string) string { return strings.ReplaceAll(s, dir, "<dir>") }

// evalReadback writes the file into dir (which must not hold it yet), checks it and removes it again.
func evalReadback(dir string, fs FileSpec, stats map[string]int64) []fail {
	m := buildModel(fs)
	v := &vctx{fam: "readback", suffix: m.timeClass(), stats: stats}
	path := filepath.Join(dir, TSMName)
	defer func() {
		os.Remove(path)
		os.Remove(path + ".tmp")
		os.Remove(strings.TrimSuffix(path, ".tsm") + ".idx.tmp")
	}()
	p, d := vlib.Guard(func() {
		if _, err := WriteTSM(dir, fs); err != nil {
			v.bad("write", "error", "writer=%s: %s", fs.Writer, scrub(err.Error(), dir))
			return
		}
		b, err := os.ReadFile(path)
		if err != nil {
			v.bad("write", "error", "cannot read the written file: %s", scrub(err.Error(), dir))
			return
		}
		raw := checkRaw(v, m, b)
		r, err := openReader(path)
		if err != nil {
			v.bad("NewTSMReader", "error", "%s", scrub(err.Error(), dir))
			return
		}
		defer r.Close()
		checkView(v, r, m, nil, raw)
	})
	if p {
		v.out = append(v.out, fail{sig: vlib.JoinSig("readback", "panic", frameOf(d)), msg: d})
	}
	return v.out
}

func frameOf(desc string) string {
	if i := strings.LastIndex(desc, " @ "); i >= 0 {
		return desc[i+3:]
	}
	return "?"
}

// ---------------------------------------------------------------------------------------------------------
// tombstone history writer
// ---------------------------------------------------------------------------------------------------------

func opKeys(op TombOp) [][]byte {
	ks := make([][]byte, len(op.Keys))
	for i, k := range op.Keys {
		ks[i] = pool[k]
	}
	return ks
}

// StepHook is called before (begin=true) and after (begin=false, with the step's error) every step.
type StepHook func(i int, s TombStep, begin bool, err error)

// ApplyTombSteps opens the TSM file at path with the real TSMReader and applies the steps in order. It
// returns the reader as it is after the last step (the caller closes it) or the first error.
func ApplyTombSteps(path string, steps []TombStep, hook StepHook) (*tsm1.TSMReader, error) {
	r, err := openReader(path)
	if err != nil {
		return nil, fmt.Errorf("open: %v", err)
	}
	for i, s := range steps {
		if hook != nil {
			hook(i, s, true, nil)
		}
		var err error
		switch s.Kind {
		case "commit", "rollback":
			b := r.BatchDelete()
			for _, op := range s.Ops {
				if err = b.DeleteRange(opKeys(op), op.Min, op.Max); err != nil {
					break
				}
			}
			if err != nil || s.Kind == "rollback" {
				if rerr := b.Rollback(); err == nil {
					err = rerr
				}
			} else {
				err = b.Commit()
			}
		case "drange":
			for _, op := range s.Ops {
				if err = r.DeleteRange(opKeys(op), op.Min, op.Max); err != nil {
					break
				}
			}
		case "delete":
			for _, op := range s.Ops {
				if err = r.Delete(opKeys(op)); err != nil {
					break
				}
			}
		case "reopen":
			if err = r.Close(); err == nil {
				r, err = openReader(path)
			}
			if err != nil {
				if hook != nil {
					hook(i, s, false, err)
				}
				return nil, fmt.Errorf("step %d (%s): %v", i, s.Kind, err)
			}
		default:
			err = fmt.Errorf("unknown step kind %q", s.Kind)
		}
		if hook != nil {
			hook(i, s, false, err)
		}
		if err != nil {
			r.Close()
			return nil, fmt.Errorf("step %d (%s): %v", i, s.Kind, err)
		}
	}
	return r, nil
}

// WriteTombHistory is the history writer for the crash clause: it creates dir/TSMName from fs (hook index -1,
// kind "write-tsm"), applies the steps through the real TSMReader and closes the reader.
func WriteTombHistory(dir string, fs FileSpec, steps []TombStep, hook StepHook) error {
	ws := TombStep{Kind: "write-tsm"}
	if hook != nil {
		hook(-1, ws, true, nil)
	}
	path, err := WriteTSM(dir, fs)
	if hook != nil {
		hook(-1, ws, false, err)
	}
	if err != nil {
		return err
	}
	r, err := ApplyTombSteps(path, steps, hook)
	if err != nil {
		return err
	}
	return r.Close()
}

// ---------------------------------------------------------------------------------------------------------
// recovery checker
// ---------------------------------------------------------------------------------------------------------

// HiddenPoint is one written point that the reader no longer returns.
type HiddenPoint struct {
	K int   `json:"k"`
	T int64 `json:"t"`
}

// TombView is what an opened file shows of its tombstones.
type TombView struct {
	Hidden []HiddenPoint // written points ReadAll does not return, ascending (k, t)
	Extra  []string      // anything ReadAll returns that was never written (always a defect)
	Raw    []string      // the tombstone file's records as Tombstoner.Walk lists them: "k<pool index>[min,max]"
}

func (tv *TombView) String() string {
	var sb strings.Builder
	for _, h := range tv.Hidden {
		fmt.Fprintf(&sb, "k%d@%d ", h.K, h.T)
	}
	return "{" + strings.TrimSpace(sb.String()) + "}"
}

// ObserveTombstones opens dir/TSMName with the real TSMReader and lists the visible tombstone set as the set
// of written points that are hidden. An error means the file did not open (a tombstone parse error hides
// the whole file).
func ObserveTombstones(dir string, fs FileSpec) (*TombView, error) {
	m := buildModel(fs)
	path := filepath.Join(dir, TSMName)
	r, err := openReader(path)
	if err != nil {
		return nil, err
	}
	defer r.Close()
	tv := &TombView{}
	for i := range m.keys {
		mk := &m.keys[i]
		got, err := r.ReadAll(mk.key)
		if err != nil {
			return nil, fmt.Errorf("ReadAll(%s): %v", keyName(mk.key), err)
		}
		all := visible(mk, nil)
		j := 0
		for _, w := range all {
			if j < len(got) && got[j].UnixNano() == w.UnixNano() && got[j].Value() == w.Value() {
				j++
				continue
			}
			tv.Hidden = append(tv.Hidden, HiddenPoint{mk.k, w.UnixNano()})
		}
		if j < len(got) {
			tv.Extra = append(tv.Extra, fmt.Sprintf("%s: %s", keyName(mk.key), valStr(got[j:])))
		}
	}
	tb := tsm1.NewTombstoner(path, nil)
	werr := tb.Walk(func(ts tsm1.Tombstone) error {
		name := keyName(ts.Key)
		for k := range pool {
			if bytes.Equal(pool[k], ts.Key) {
				name = fmt.Sprintf("k%d", k)
			}
		}
		tv.Raw = append(tv.Raw, fmt.Sprintf("%s[%d,%d]", name, ts.Min, ts.Max))
		return nil
	})
	if werr != nil {
		return nil, fmt.Errorf("Tombstoner.Walk: %v", werr)
	}
	return tv, nil
}

// ExpectedHidden is the model's hidden-point set for a recorded step list.
func ExpectedHidden(fs FileSpec, steps []TombStep) []HiddenPoint {
	m := buildModel(fs)
	tm := recordedBy(steps)
	var out []HiddenPoint
	for i := range m.keys {
		mk := &m.keys[i]
		for _, w := range visible(mk, nil) {
			if tm.hidden(mk.k, w.UnixNano()) {
				out = append(out, HiddenPoint{mk.k, w.UnixNano()})
			}
		}
	}
	return out
}

func sameHidden(a, b []HiddenPoint) bool {
	if len(a) != len(b) {
		return false
	}
	for i := range a {
		if a[i] != b[i] {
			return false
		}
	}
	return true
}

// CheckRecovery is the recovery checker for the crash clause: dir holds a (possibly crash-damaged) image of
// a history "file fs, steps a acknowledged, steps b in flight". The visible tombstone set must be the one of
// a or the one of a followed by b. verdict is "old", "new", "old=new" or "" (with the reason).
func CheckRecovery(dir string, fs FileSpec, a, b []TombStep) (verdict string, reason string) {
	var tv *TombView
	var err error
	p, d := vlib.Guard(func() { tv, err = ObserveTombstones(dir, fs) })
	if p {
		return "", "open panicked: " + d
	}
	if err != nil {
		return "", "the file does not open: " + scrub(err.Error(), dir)
	}
	if len(tv.Extra) > 0 {
		return "", "values that were never written: " + strings.Join(tv.Extra, "; ")
	}
	old := ExpectedHidden(fs, a)
	nw := ExpectedHidden(fs, append(append([]TombStep(nil), a...), b...))
	isOld, isNew := sameHidden(tv.Hidden, old), sameHidden(tv.Hidden, nw)
	switch {
	case isOld && isNew:
		return "old=new", ""
	case isOld:
		return "old", ""
	case isNew:
		return "new", ""
	}
	return "", fmt.Sprintf("hidden points %s are neither the old set %s nor the new set %s (tombstone records: %v)",
		tv.String(), (&TombView{Hidden: old}).String(), (&TombView{Hidden: nw}).String(), tv.Raw)
}

// ---------------------------------------------------------------------------------------------------------
// tombstone history case (no crash)
// ---------------------------------------------------------------------------------------------------------

// TombHistory is one enumerated case of the tombstone family.
type TombHistory struct {
	File  FileSpec   `json:"file"`
	Steps []TombStep `json:"steps"`
}

func tombPaths(dir string) (tomb, tmp string) {
	tomb = tsmkit.TombstonePath(filepath.Join(dir, TSMName))
	return tomb, tomb + ".tmp"
}

// evalTomb runs one history on dir/TSMName (already written from h.File), checks the reader after the last
// step and again after a reopen, and removes the tombstone files.
func evalTomb(dir string, m *model, h TombHistory, stats map[string]int64) (fails []fail, outcome string) {
	path := filepath.Join(dir, TSMName)
	tomb, tmp := tombPaths(dir)
	defer func() {
		os.Remove(tomb)
		os.Remove(tmp)
	}()
	tm := recordedBy(h.Steps)
	var states []string
	p, d := vlib.Guard(func() {
		r, err := ApplyTombSteps(path, h.Steps, nil)
		if err != nil {
			fails = append(fails, fail{sig: "tomb/apply/error", msg: scrub(err.Error(), dir)})
			return
		}
		v := &vctx{fam: "tomb", suffix: "/live", stats: stats}
		states = checkView(v, r, m, tm, nil)
		fails = append(fails, v.out...)
		if err := r.Close(); err != nil {
			fails = append(fails, fail{sig: "tomb/Close/error", msg: scrub(err.Error(), dir)})
			return
		}
		r, err = openReader(path)
		if err != nil {
			fails = append(fails, fail{sig: "tomb/reopen/error", msg: "the file does not open again: " + scrub(err.Error(), dir)})
			return
		}
		defer r.Close()
		v = &vctx{fam: "tomb", suffix: "/reopened", stats: stats}
		states2 := checkView(v, r, m, tm, nil)
		fails = append(fails, v.out...)
		for i := range states {
			if states[i] != states2[i] {
				states[i] = states[i] + ">" + states2[i] // accepted (statement silent) but made visible
			}
		}
	})
	if p {
		fails = append(fails, fail{sig: vlib.JoinSig("tomb", "panic", frameOf(d)), msg: d})
	}
	set := map[string]bool{}
	for _, s := range states {
		set[s] = true
	}
	var names []string
	for s := range set {
		names = append(names, s)
	}
	sort.Strings(names)
	return fails, "tomb:" + strings.Join(names, "+")
}

// ---------------------------------------------------------------------------------------------------------
// enumeration
// ---------------------------------------------------------------------------------------------------------

// Case is the replayable form of any enumerated case.
type Case struct {
	Fam   string       `json:"family"` // readback | tomb | maxkey
	File  *FileSpec    `json:"file,omitempty"`
	Hist  *TombHistory `json:"history,omitempty"`
	A     []TombStep   `json:"acked,omitempty"`     // recovery family: steps completed
	B     []TombStep   `json:"in_flight,omitempty"` // recovery family: the step that may or may not have happened
	Crash *CrashCase   `json:"crash,omitempty"`     // crash family
}

func subsetOf(mask int) []int {
	var out []int
	for k := 0; k < nPool; k++ {
		if mask&(1<<k) != 0 {
			out = append(out, k)
		}
	}
	return out
}

var (
	lSingle = tsmkit.Layout{{3}}
	lTwo    = tsmkit.Layout{{1, 2}, {4, 5}}
	lThree  = tsmkit.Layout{{2}, {3, 4}, {5}}
	lFull   = tsmkit.Layout{{1, 2, 3, 4, 5}}
	lGaps   = tsmkit.Layout{{1, 3, 5}}
	lSplit  = tsmkit.Layout{{2}, {3}, {4}}
)

// readbackFamilies calls visit for every file of the tier, simplest families first. Every spec is produced
// once per family; a few specs occur in two families (they are deduplicated for the non-trivial count).
//
// phase 1 (both tiers): focus, shifted, subsets; phase 2 (thorough only, enumerated after the tombstone
// histories): subsets over 4 layouts, pairs.
func readbackFamilies(thorough bool, phase int, visit func(fam string, fs FileSpec) bool) {
	L := tsmkit.Layouts(5, 3) // 111 layouts: every non-empty subset of {1..5} in 1..3 contiguous blocks
	typ := func(k, rot int) byte { return tsmkit.AllTypes[(k+rot)%len(tsmkit.AllTypes)] }

	// focus: one key runs through every layout and type, alone and among all other keys; the writer variant
	// rotates with the case (thorough: two passes with different rotations).
	nw := 1
	if thorough {
		nw = 2
	}
	if phase != 1 {
		nw = 0
	}
	for wi := 0; wi < nw; wi++ {
		for k := 0; k < nPool; k++ {
			for li, l := range L {
				for ti, t := range tsmkit.AllTypes {
					for ctx := 0; ctx < 2; ctx++ {
						if !thorough && ctx == 1 && ti != (li+k)%len(tsmkit.AllTypes) {
							continue // quick: among the other keys only one (rotating) type per layout
						}
						fs := FileSpec{Writer: allWriters[(2*wi+k+li+ti+ctx)%len(allWriters)]}
						for o := 0; o < nPool; o++ {
							switch {
							case o == k:
								fs.Keys = append(fs.Keys, KeySpec{k, t, l})
							case ctx == 1:
								fs.Keys = append(fs.Keys, KeySpec{o, typ(o, 0), lSplit})
							}
						}
						if !visit("focus", fs) {
							return
						}
					}
				}
			}
		}
	}

	// shifted timestamps: negative, mixed-sign and realistic nanosecond times
	shifts := []int64{-10, -3, 1_000_000_000_000_000_000}
	if phase != 1 {
		shifts = nil
	}
	for _, shift := range shifts {
		for k := 0; k < 3; k++ {
			for _, l := range L {
				fs := FileSpec{Writer: wMem, Shift: shift, Keys: []KeySpec{{k, typ(k, 1), l}}}
				if !visit("shifted", fs) {
					return
				}
			}
		}
		for _, pr := range [][2]int{{0, 1}, {0, 2}, {2, 5}} {
			for _, la := range []tsmkit.Layout{lSingle, lTwo, lThree, lFull} {
				for _, lb := range []tsmkit.Layout{lSingle, lTwo, lThree, lFull} {
					fs := FileSpec{Writer: wDisk, Shift: shift, Keys: []KeySpec{{pr[0], typ(pr[0], 2), la}, {pr[1], typ(pr[1], 2), lb}}}
					if !visit("shifted", fs) {
						return
					}
				}
			}
		}
	}

	// subsets: every non-empty key subset, every assignment of a reduced layout set, type rotations, writers.
	// phase 1: 2 layouts x 2 rotations x 4 writers (quick) / 3 layouts x 2 rotations x 4 writers (thorough);
	// phase 2 (thorough): 4 other layouts x 1 rotation x 1 writer.
	type subsetRun struct {
		R       []tsmkit.Layout
		rots    int
		writers []string
	}
	var runs []subsetRun
	switch {
	case phase == 1 && !thorough:
		runs = []subsetRun{{[]tsmkit.Layout{lSingle, lTwo}, 2, allWriters}}
	case phase == 1:
		runs = []subsetRun{{[]tsmkit.Layout{lSingle, lTwo, lThree}, 2, allWriters}}
	case thorough:
		runs = []subsetRun{{[]tsmkit.Layout{lFull, lTwo, lThree, lGaps}, 1, []string{wDiskBlock}}}
	}
	for _, sr := range runs {
		R := sr.R
		for _, w := range sr.writers {
			for rot := 0; rot < sr.rots; rot++ {
				for mask := 1; mask < 1<<nPool; mask++ {
					ks := subsetOf(mask)
					total := 1
					for range ks {
						total *= len(R)
					}
					for a := 0; a < total; a++ {
						fs := FileSpec{Writer: w}
						x := a
						for _, k := range ks {
							fs.Keys = append(fs.Keys, KeySpec{k, typ(k, 3*rot), R[x%len(R)]})
							x /= len(R)
						}
						if !visit("subsets", fs) {
							return
						}
					}
				}
			}
		}
	}

	// pairs (thorough): the prefix pair of keys, every pair of layouts
	if thorough && phase == 2 {
		for _, pr := range [][2]int{{0, 1}} {
			for _, la := range L {
				for _, lb := range L {
					fs := FileSpec{Writer: wMem, Keys: []KeySpec{{pr[0], typ(pr[0], 3), la}, {pr[1], typ(pr[1], 3), lb}}}
					if !visit("pairs", fs) {
						return
					}
				}
			}
		}
	}
}

// tombBase is a base file of the tombstone family together with the keys delete calls may name.
type tombBase struct {
	file FileSpec
	args []int // pool indices: the file's keys and absent ones
}

func tombBases(thorough bool) []tombBase {
	typ := func(k int) byte { return tsmkit.AllTypes[k%len(tsmkit.AllTypes)] }
	sets := []struct{ keys, args []int }{
		{[]int{0, 1, 2}, []int{0, 1, 2, 3}}, // prefix pair + escaped key; absent: the long key above all
		{[]int{1, 3, 5}, []int{0, 1, 3, 5}}, // long key inside; absent: below all
		{[]int{0, 4}, []int{0, 2, 4, 5}},    // absent: between and above
		{[]int{2}, []int{0, 2, 5}},          // single key
	}
	lays := []tsmkit.Layout{lFull, lTwo, lSplit, lGaps}
	var out []tombBase
	for si, s := range sets {
		for li := range lays {
			if li != (si+1)%len(lays) && !(thorough && li == (si+2)%len(lays)) {
				continue // quick: one layout assignment per key set, thorough: two
			}
			fs := FileSpec{Writer: wMem}
			for i, k := range s.keys {
				l := lays[li]
				if li%2 == 1 {
					l = lays[(li+i)%len(lays)] // odd variants: a different layout per key
				}
				fs.Keys = append(fs.Keys, KeySpec{k, typ(k), l})
			}
			out = append(out, tombBase{fs, s.args})
		}
	}
	return out
}

type trange struct{ min, max int64 }

var fullRange = trange{math.MinInt64, math.MaxInt64}

func allRanges() []trange {
	var out []trange
	for a := int64(1); a <= 5; a++ {
		for b := a; b <= 5; b++ {
			out = append(out, trange{a, b})
		}
	}
	return append(out, trange{0, 0}, trange{6, 7}, trange{0, 7}, trange{0, 3}, trange{3, 7}, fullRange,
		trange{math.MinInt64, 2}, trange{4, math.MaxInt64}, trange{math.MinInt64 + 1, math.MaxInt64}, trange{math.MinInt64, math.MaxInt64 - 1})
}

func reducedRanges(thorough bool) []trange {
	if !thorough {
		return []trange{{1, 2}, {3, 3}, {2, 4}, {4, 5}, {1, 5}, fullRange} // incl. pairs sharing only min / only max
	}
	return []trange{{1, 1}, {1, 2}, {3, 3}, {2, 4}, {4, 5}, {1, 5}, fullRange}
}

// argSubsets lists the non-empty subsets of args; maxSize > 0 keeps only those of at most maxSize keys and
// the whole set.
func argSubsets(args []int, maxSize int) [][]int {
	var out [][]int
	for mask := 1; mask < 1<<len(args); mask++ {
		var s []int
		for i, k := range args {
			if mask&(1<<i) != 0 {
				s = append(s, k)
			}
		}
		if maxSize > 0 && len(s) > maxSize && len(s) != len(args) {
			continue
		}
		out = append(out, s)
	}
	return out
}

// tombHistories calls visit for every history on base, simplest first.
func tombHistories(base tombBase, thorough bool, visit func(fam string, steps []TombStep) bool) {
	subs := argSubsets(base.args, 0)
	// one operation: every key subset x every range x every way of issuing it
	for _, kind := range []string{"drange", "commit", "rollback"} {
		rgs := allRanges()
		if !thorough && kind != "drange" {
			rgs = reducedRanges(false)
		}
		for _, ks := range subs {
			for _, rg := range rgs {
				if !visit("tomb1", []TombStep{{Kind: kind, Ops: []TombOp{{ks, rg.min, rg.max}}}}) {
					return
				}
			}
		}
	}
	for _, ks := range subs {
		if !visit("tomb1", []TombStep{{Kind: "delete", Ops: []TombOp{{Keys: ks}}}}) {
			return
		}
	}
	// two operations over the reduced ranges: one batch, two batches, reopen in between, first rolled back,
	// second rolled back (thorough), first as a whole-key Delete
	var subs2 [][]int
	if thorough { // singletons of all argument keys, pairs of the file's keys, all
		for _, k := range base.args {
			subs2 = append(subs2, []int{k})
		}
		for i, a := range base.file.Keys {
			for _, b := range base.file.Keys[i+1:] {
				subs2 = append(subs2, []int{a.K, b.K})
			}
		}
	} else { // quick: singletons of the file's keys, all
		for _, k := range base.file.Keys {
			subs2 = append(subs2, []int{k.K})
		}
	}
	subs2 = append(subs2, base.args)
	var ops []TombOp
	for _, ks := range subs2 {
		for _, rg := range reducedRanges(thorough) {
			ops = append(ops, TombOp{ks, rg.min, rg.max})
		}
	}
	for _, o1 := range ops {
		for _, o2 := range ops {
			hs := [][]TombStep{
				{{Kind: "commit", Ops: []TombOp{o1, o2}}},
				{{Kind: "commit", Ops: []TombOp{o1}}, {Kind: "commit", Ops: []TombOp{o2}}},
				{{Kind: "commit", Ops: []TombOp{o1}}, {Kind: "reopen"}, {Kind: "drange", Ops: []TombOp{o2}}},
				{{Kind: "rollback", Ops: []TombOp{o1}}, {Kind: "commit", Ops: []TombOp{o2}}},
			}
			if thorough {
				hs = append(hs, []TombStep{{Kind: "commit", Ops: []TombOp{o1}}, {Kind: "rollback", Ops: []TombOp{o2}}})
			}
			if o1.Min == math.MinInt64 && o1.Max == math.MaxInt64 {
				hs = append(hs, []TombStep{{Kind: "delete", Ops: []TombOp{{Keys: o1.Keys}}}, {Kind: "commit", Ops: []TombOp{o2}}})
			}
			for _, h := range hs {
				if !visit("tomb2", h) {
					return
				}
			}
		}
	}
	// three operations on one key of the file (the adjacency/overlap bookkeeping of partial ranges)
	k := base.file.Keys[len(base.file.Keys)/2].K
	rr := reducedRanges(thorough)
	for _, a := range rr {
		for _, b := range rr {
			for _, c := range rr {
				o := func(r trange) TombOp { return TombOp{[]int{k}, r.min, r.max} }
				hs := [][]TombStep{
					{{Kind: "commit", Ops: []TombOp{o(a), o(b), o(c)}}},
					{{Kind: "commit", Ops: []TombOp{o(a)}}, {Kind: "commit", Ops: []TombOp{o(b)}}, {Kind: "commit", Ops: []TombOp{o(c)}}},
				}
				for _, h := range hs {
					if !visit("tomb3", h) {
						return
					}
				}
			}
		}
	}
}

// evalRecovery exercises the history writer / recovery checker pair without a crash: after the history "a"
// the checker must answer old, after "a then b" it must answer new (old=new when b hides nothing more).
func evalRecovery(dir string, fs FileSpec, a, b []TombStep) (fails []fail, outcome string) {
	var got [2]string
	for i, steps := range [][]TombStep{a, append(append([]TombStep(nil), a...), b...)} {
		sub := filepath.Join(dir, fmt.Sprintf("rec%d", i))
		if err := os.Mkdir(sub, 0o777); err != nil {
			return []fail{{"recovery/harness", scrub(err.Error(), dir)}}, "recovery:harness-error"
		}
		var werr error
		p, d := vlib.Guard(func() { werr = WriteTombHistory(sub, fs, steps, nil) })
		if p {
			fails = append(fails, fail{vlib.JoinSig("recovery", "panic", frameOf(d)), d})
		} else if werr != nil {
			fails = append(fails, fail{"recovery/history-writer/error", scrub(werr.Error(), dir)})
		} else {
			verdict, reason := CheckRecovery(sub, fs, a, b)
			got[i] = verdict
			want := []string{"old", "new"}[i]
			if verdict != want && verdict != "old=new" {
				if verdict == "" {
					verdict = "neither"
				}
				fails = append(fails, fail{fmt.Sprintf("recovery/CheckRecovery/want-%s-got-%s", want, verdict),
					fmt.Sprintf("after %s the checker says %q: %s", []string{"the acknowledged steps", "all steps"}[i], verdict, reason)})
			}
		}
		os.RemoveAll(sub)
	}
	return fails, fmt.Sprintf("recovery:%s/%s", got[0], got[1])
}

// recoveryCases enumerates (a, b) for the recovery family: a = nothing (create path) or one committed op
// (append path), b = one committed op, over the file's keys and the reduced ranges.
func recoveryCases(base tombBase, visit func(a, b []TombStep) bool) {
	var ops []TombOp
	for _, k := range base.file.Keys {
		for _, rg := range reducedRanges(false) {
			ops = append(ops, TombOp{[]int{k.K}, rg.min, rg.max})
		}
	}
	for _, o2 := range ops {
		if !visit(nil, []TombStep{{Kind: "commit", Ops: []TombOp{o2}}}) {
			return
		}
	}
	for _, o1 := range ops {
		for _, o2 := range ops {
			if !visit([]TombStep{{Kind: "commit", Ops: []TombOp{o1}}}, []TombStep{{Kind: "commit", Ops: []TombOp{o2}}}) {
				return
			}
		}
	}
}

// evalMaxKey: a key one byte longer than the format allows must be refused (or, were it accepted, read back).
func evalMaxKey(dir string) []fail {
	var out []fail
	path := filepath.Join(dir, TSMName)
	defer os.Remove(path)
	f, err := os.OpenFile(path, os.O_CREATE|os.O_RDWR|os.O_EXCL, 0o666)
	if err != nil {
		return []fail{{"maxkey/harness", scrub(err.Error(), dir)}}
	}
	w, _ := tsm1.NewTSMWriter(f)
	key := bytes.Repeat([]byte{'k'}, 65536)
	vals := tsm1.Values{tsm1.NewIntegerValue(1, 1)}
	err1 := w.Write(key, vals)
	b, _ := vals.Encode(nil)
	err2 := w.WriteBlock(key, 1, 1, b)
	if err1 == nil || err2 == nil {
		out = append(out, fail{"maxkey/Write/accepted-65536-byte-key", fmt.Sprintf("Write err=%v WriteBlock err=%v for a 65536-byte key: the 2-byte key length cannot hold it", err1, err2)})
	}
	w.Close()
	return out
}

// ---------------------------------------------------------------------------------------------------------
// crash family (engine: verif/h/crashfs): the crash clause of the statement
// ---------------------------------------------------------------------------------------------------------
//
// A history writer (this binary re-executed under strace) runs WriteTombHistory with BEGIN/ACK markers: op 0 writes
// the TSM file, op i+1 is step i (exactly one tombstone commit or none per step). Every prefix / torn-write /
// unsynced image of the syscall log that lies after the acknowledgement of op 0 is materialized and recovered by a
// fresh subprocess with the real TSMReader.

// CrashTombHistory is one recorded history of the crash family.
type CrashTombHistory struct {
	Name  string     `json:"name"`
	File  FileSpec   `json:"file"`
	Steps []TombStep `json:"steps"`
	// LastOnly: only the images whose cut lies inside or after the LAST step are evaluated (the earlier cuts belong
	// to the history without that step, which the enumerated family contains too).
	LastOnly bool `json:"last_only,omitempty"`
}

func cstep(kind string, ops ...TombOp) TombStep { return TombStep{Kind: kind, Ops: ops} }
func top(min, max int64, keys ...int) TombOp    { return TombOp{Keys: keys, Min: min, Max: max} }

// crashTombHistories lists the histories of a tier. Every step performs at most ONE tombstone commit (a commit
// batch, a DeleteRange with one op, a Delete with one op), so "old or new" is well defined per step.
func crashTombHistories(tier string) []CrashTombHistory {
	bases := tombBases(false)
	full := top(math.MinInt64, math.MaxInt64)
	hs := []CrashTombHistory{
		// two keys: first tombstone (create path: tmp + header + gzip member, fsync, rename, SyncDir), then three
		// appends (copy of the old file into the tmp, one more gzip member): batch commit, DeleteRange over both
		// keys, whole-key Delete
		{Name: "create-append", File: bases[2].file, Steps: []TombStep{
			cstep("commit", top(1, 2, 0)), cstep("commit", top(3, 3, 4)), cstep("drange", top(4, 5, 0, 4)), cstep("delete", TombOp{Keys: []int{0}})}},
		// three keys (prefix pair + escaped): two whole keys in one batch, a rollback (tmp created and removed), a
		// batch of two ops on one key, reopen, DeleteRange of what is left of that key
		{Name: "rollback-batch-reopen", File: bases[0].file, Steps: []TombStep{
			cstep("commit", TombOp{Keys: []int{0, 1}, Min: full.Min, Max: full.Max}), cstep("rollback", top(1, 5, 2)), cstep("commit", top(2, 4, 2), top(5, 5, 2)), cstep("reopen"), cstep("drange", top(1, 5, 2))}},
		// single key hidden piecewise until nothing is left; rollback in between
		{Name: "single-key", File: bases[3].file, Steps: []TombStep{
			cstep("commit", top(1, 1, 2)), cstep("reopen"), cstep("commit", top(2, 3, 2)), cstep("rollback", top(4, 4, 2)), cstep("commit", top(4, 5, 2))}},
	}
	if tier != "thorough" {
		return hs
	}
	hs = append(hs,
		// 65 535-byte key inside the tombstone records (TSM file and images of ~66 KB)
		CrashTombHistory{Name: "long-key", File: bases[1].file, Steps: []TombStep{
			cstep("commit", top(2, 2, 3)), cstep("commit", top(3, 3, 1, 3, 5)), cstep("delete", TombOp{Keys: []int{3}})}},
	)
	// enumerated: two-key file; A in {no tombstone, 4 representative committed ops} x B in {commit of one op over
	// every file key x 6 ranges, commit over both keys, Delete of each key}
	base := bases[2]
	var bs []TombStep
	var keys []int
	for _, k := range base.file.Keys {
		keys = append(keys, k.K)
		for _, rg := range reducedRanges(false) {
			bs = append(bs, cstep("commit", top(rg.min, rg.max, k.K)))
		}
	}
	bs = append(bs, cstep("commit", top(2, 4, keys...)))
	for _, k := range keys {
		bs = append(bs, cstep("delete", TombOp{Keys: []int{k}}))
	}
	as := [][]TombStep{nil}
	for _, k := range keys {
		as = append(as, []TombStep{cstep("commit", top(1, 2, k))}, []TombStep{cstep("commit", top(full.Min, full.Max, k))})
	}
	for ai, a := range as {
		for bi, b := range bs {
			hs = append(hs, CrashTombHistory{Name: fmt.Sprintf("enum:a%d,b%d", ai, bi), File: base.file,
				Steps: append(append([]TombStep(nil), a...), b), LastOnly: len(a) > 0})
		}
	}
	return hs
}

// ---------------------------------------------------------------- history writer (runs under strace)

type crashWriterSpec struct {
	Dir     string     `json:"dir"`
	Markers string     `json:"markers"`
	File    FileSpec   `json:"file"`
	Steps   []TombStep `json:"steps"`
}

func crashWriterMain(js string) int {
	var sp crashWriterSpec
	if err := json.Unmarshal([]byte(js), &sp); err != nil {
		fmt.Fprintln(os.Stderr, "c08 writer: bad spec:", err)
		return 2
	}
	m, err := crashfs.OpenMarkers(sp.Markers)
	if err != nil {
		fmt.Fprintln(os.Stderr, "c08 writer:", err)
		return 2
	}
	if err := os.Mkdir(sp.Dir, 0o777); err != nil {
		fmt.Fprintln(os.Stderr, "c08 writer:", err)
		return 2
	}
	err = WriteTombHistory(sp.Dir, sp.File, sp.Steps, func(i int, s TombStep, begin bool, err error) {
		switch {
		case begin:
			m.Begin(i+1, s.Kind)
		case err == nil:
			m.Ack(i+1, "ok")
		}
	})
	if err != nil {
		// histories are designed to succeed; a failing step is a harness problem, not an acknowledged op
		fmt.Fprintln(os.Stderr, "c08 writer: history failed:", err)
		return 1
	}
	return 0
}

// ---------------------------------------------------------------- recovery checker (fresh subprocess, batch of images)

// TombObs is what the real code did on one image.
type TombObs struct {
	ID    string `json:"id"`
	Died  string `json:"died,omitempty"` // set by the parent: the recovery subprocess died or hung on this image, also alone
	Panic string `json:"panic,omitempty"`
	// stage 1: NewTSMReader on the image, ReadAll of every written key, Tombstoner.Walk
	OpenErr string        `json:"open_err,omitempty"`
	Hidden  []HiddenPoint `json:"hidden,omitempty"`
	Extra   []string      `json:"extra,omitempty"`
	Raw     []string      `json:"raw,omitempty"`
	// stage 2: temp files removed (as Engine.Open does), one more tombstone through the real reader, close, reopen
	Open2Err string        `json:"open2_err,omitempty"`
	DelErr   string        `json:"del_err,omitempty"`
	Open3Err string        `json:"open3_err,omitempty"`
	Hidden2  []HiddenPoint `json:"hidden2,omitempty"`
	Extra2   []string      `json:"extra2,omitempty"`
	Stage    int           `json:"stage"` // 1: first view taken, 2: view after the further tombstone taken
}

func crashRecoverOne(dir string, fs FileSpec, further *TombOp, id string) (o TombObs) {
	o.ID = id
	defer func() {
		for _, p := range []*string{&o.Panic, &o.OpenErr, &o.Open2Err, &o.DelErr, &o.Open3Err} {
			*p = scrub(*p, dir)
		}
	}()
	panicked, desc := vlib.Guard(func() {
		tv, err := ObserveTombstones(dir, fs)
		if err != nil {
			o.OpenErr = err.Error()
			return
		}
		o.Hidden, o.Extra, o.Raw = tv.Hidden, tv.Extra, tv.Raw
		o.Stage = 1
		// what Engine.Open does before the file store is loaded: leftover temp files are removed
		tmps, _ := filepath.Glob(filepath.Join(dir, "*."+tsm1.CompactionTempExtension))
		for _, t := range tmps {
			os.Remove(t)
		}
		if further != nil {
			r, err := openReader(filepath.Join(dir, TSMName))
			if err != nil {
				o.Open2Err = err.Error()
				return
			}
			err = r.DeleteRange(opKeys(*further), further.Min, further.Max)
			r.Close()
			if err != nil {
				o.DelErr = err.Error()
				return
			}
		}
		tv, err = ObserveTombstones(dir, fs)
		if err != nil {
			o.Open3Err = err.Error()
			return
		}
		o.Hidden2, o.Extra2 = tv.Hidden, tv.Extra
		o.Stage = 2
	})
	if panicked {
		o.Panic = desc
	}
	return
}

type crashRecJob struct {
	Dirs    []string   `json:"dirs"`
	IDs     []string   `json:"ids"`
	Files   []FileSpec `json:"files"`
	Further []*TombOp  `json:"further"`
	Out     string     `json:"out"`
}

func crashRecoverMain(jobPath string) int {
	b, err := os.ReadFile(jobPath)
	if err != nil {
		fmt.Fprintln(os.Stderr, "c08 recover:", err)
		return 2
	}
	var job crashRecJob
	if err := json.Unmarshal(b, &job); err != nil {
		fmt.Fprintln(os.Stderr, "c08 recover:", err)
		return 2
	}
	out, err := os.OpenFile(job.Out, os.O_CREATE|os.O_WRONLY|os.O_APPEND, 0o666)
	if err != nil {
		fmt.Fprintln(os.Stderr, "c08 recover:", err)
		return 2
	}
	debug.SetMaxStack(64 << 20)
	if pf := os.Getenv("C08_RECOVER_PROF"); pf != "" { // development aid
		if f, err := os.Create(pf); err == nil {
			pprof.StartCPUProfile(f)
			defer pprof.StopCPUProfile()
		}
	}
	for i, d := range job.Dirs {
		fmt.Fprintf(os.Stderr, "c08 recover: image %s\n", job.IDs[i])
		o := crashRecoverOne(d, job.Files[i], job.Further[i], job.IDs[i])
		line, _ := json.Marshal(o)
		out.Write(append(line, '\n'))
	}
	out.Close()
	return 0
}

// ---------------------------------------------------------------- acknowledgement context and oracle

// tombCtx is the model of one image: steps acknowledged before the cut and the step in flight.
type tombCtx struct {
	A    []TombStep // acknowledged steps
	B    []TombStep // the step in flight (nil or one element)
	Infl string     // kind of the step in flight: none | commit | drange | delete | rollback | reopen
	Path string     // "create" while no acknowledged step has written a tombstone file, else "append"
}

// tombContextOf returns ok=false for the images cut before the TSM file itself was acknowledged (not a crash
// during a tombstone write).
func tombContextOf(h CrashTombHistory, im *crashfs.Image) (cx tombCtx, ok bool) {
	acked := im.Acked()
	if len(acked) == 0 {
		return cx, false
	}
	n := len(acked) - 1 // op 0 is the TSM file
	cx.A = h.Steps[:n]
	cx.Infl, cx.Path = "none", "create"
	if f := im.InFlight(); f != nil && f.K >= 1 && f.K-1 < len(h.Steps) {
		cx.B = h.Steps[f.K-1 : f.K]
		cx.Infl = cx.B[0].Kind
	}
	if len(recordedBy(cx.A).recs) > 0 {
		cx.Path = "append"
	}
	return cx, true
}

func hiddenSet(l []HiddenPoint) map[HiddenPoint]bool {
	m := map[HiddenPoint]bool{}
	for _, h := range l {
		m[h] = true
	}
	return m
}

func subsetHidden(a, b []HiddenPoint) bool {
	bs := hiddenSet(b)
	for _, h := range a {
		if !bs[h] {
			return false
		}
	}
	return true
}

func hiddenStr(l []HiddenPoint) string { return (&TombView{Hidden: l}).String() }

// furtherOp picks the tombstone written after the recovery: the last written point that even the complete in-flight
// step leaves visible (nil when nothing is left).
func furtherOp(fs FileSpec, cx tombCtx) *TombOp {
	m := buildModel(fs)
	tm := recordedBy(append(append([]TombStep(nil), cx.A...), cx.B...))
	for i := len(m.keys) - 1; i >= 0; i-- {
		mk := &m.keys[i]
		if vs := visible(mk, tm); len(vs) > 0 {
			t := vs[len(vs)-1].UnixNano()
			return &TombOp{Keys: []int{mk.k}, Min: t, Max: t}
		}
	}
	return nil
}

// judgeTomb applies the crash oracle: the visible tombstone set is the one of the acknowledged steps (old) or of
// those plus the step in flight (new) — with nothing in flight exactly the acknowledged one —, the file opens, and a
// further tombstone is recorded and persists.
func judgeTomb(o *TombObs, fs FileSpec, cx tombCtx, further *TombOp) (clause, stage, detail, verdict string) {
	switch {
	case o.Died != "":
		return "recovery-died", "recovery", "the recovery process did not survive the crash image: " + o.Died, ""
	case o.Panic != "":
		return "panic", "recovery", "panic while opening the crash image: " + o.Panic, ""
	case o.OpenErr != "":
		return "file-hidden", "recovery", "the TSM file does not open (a tombstone parse error hides the file): " + o.OpenErr, ""
	case len(o.Extra) > 0:
		return "phantom-values", "recovery", "values that were never written: " + strings.Join(o.Extra, "; "), ""
	}
	old := ExpectedHidden(fs, cx.A)
	nw := ExpectedHidden(fs, append(append([]TombStep(nil), cx.A...), cx.B...))
	isOld, isNew := sameHidden(o.Hidden, old), sameHidden(o.Hidden, nw)
	switch {
	case isOld && isNew:
		verdict = "old=new"
	case isOld:
		verdict = "old"
	case isNew:
		verdict = "new"
	default:
		allowed := "the acknowledged set " + hiddenStr(old)
		if len(cx.B) > 0 {
			allowed += " or, with the step in flight, " + hiddenStr(nw)
		}
		detail = fmt.Sprintf("hidden points %s; allowed: %s (tombstone records on disk: %v)", hiddenStr(o.Hidden), allowed, o.Raw)
		switch {
		case !subsetHidden(old, o.Hidden):
			return "acknowledged-tombstone-lost", "recovery", detail, ""
		case subsetHidden(o.Hidden, nw):
			return "partial-new-set", "recovery", detail, ""
		}
		return "phantom-tombstone", "recovery", detail, ""
	}
	// stage 2
	switch {
	case o.Open2Err != "":
		return "file-hidden", "further-tombstone", "the file does not open for the further delete: " + o.Open2Err, verdict
	case o.DelErr != "":
		return "rejects-tombstone", "further-tombstone", fmt.Sprintf("DeleteRange(%v) after the recovery (temp files removed): %s", *further, o.DelErr), verdict
	case o.Open3Err != "":
		return "file-hidden", "further-tombstone", "the file does not open after the further delete: " + o.Open3Err, verdict
	case o.Stage < 2:
		return "harness", "further-tombstone", "no second view", verdict
	case len(o.Extra2) > 0:
		return "phantom-values", "further-tombstone", "values that were never written: " + strings.Join(o.Extra2, "; "), verdict
	}
	want := append([]HiddenPoint(nil), o.Hidden...)
	if further != nil {
		want = append(want, HiddenPoint{further.Keys[0], further.Min})
		sort.Slice(want, func(i, j int) bool {
			if want[i].K != want[j].K {
				return want[i].K < want[j].K
			}
			return want[i].T < want[j].T
		})
	}
	if !sameHidden(o.Hidden2, want) {
		c := "further-tombstone-wrong"
		if !subsetHidden(o.Hidden, o.Hidden2) {
			c = "tombstone-lost-after-further-delete"
		}
		return c, "further-tombstone", fmt.Sprintf("after one more DeleteRange and a reopen the hidden points are %s, want %s", hiddenStr(o.Hidden2), hiddenStr(want)), verdict
	}
	return "", "", "", verdict
}

// ---------------------------------------------------------------- recording, image enumeration, driver

var crashImgOpts = crashfs.Options{SyncClasses: []string{"*.tombstone", "*.tmp"}, Torn: true, Unsynced: true}

func selfEnv(extra ...string) []string {
	var env []string
	for _, e := range os.Environ() {
		if strings.HasPrefix(e, "VERIF_WORKER") || strings.HasPrefix(e, "VERIF_REPLAY=") || strings.HasPrefix(e, "VERIF_CRASH_WRITER=") || strings.HasPrefix(e, "VERIF_C08_") || strings.HasPrefix(e, "C08_ONLY=") {
			continue
		}
		env = append(env, e)
	}
	return append(env, extra...)
}

func recordCrashHistory(scratch string, h CrashTombHistory) (*crashfs.Log, error) {
	dir, err := os.MkdirTemp(scratch, "rec-")
	if err != nil {
		return nil, err
	}
	defer os.RemoveAll(dir)
	sp := crashWriterSpec{Dir: filepath.Join(dir, "shard"), Markers: filepath.Join(dir, "markers"), File: h.File, Steps: h.Steps}
	js, _ := json.Marshal(sp)
	return crashfs.Record(crashfs.RecordSpec{
		Argv:       []string{os.Args[0], "-test.run", "^TestCheck$", "-test.timeout", "0"},
		Env:        selfEnv("VERIF_CRASH_WRITER="+string(js), "GOMAXPROCS=1"),
		DataDir:    sp.Dir,
		MarkerFile: sp.Markers,
	})
}

// prefixDigest pins the part of a log a descriptor depends on: every event up to the cut (and the torn write) with
// paths, offsets and payload bytes. Two recordings with equal digests give byte-identical images.
func prefixDigest(l *crashfs.Log, d crashfs.Descriptor) string {
	n := d.Cut
	if d.TornLen >= 0 && d.TornEvent >= n {
		n = d.TornEvent + 1
	}
	if n > len(l.Events) {
		return "log-too-short"
	}
	h := sha256.New()
	for i := 0; i < n; i++ {
		e := &l.Events[i]
		fmt.Fprintf(h, "%s|%s|%s|%d|%d|%d|%x|", e.Op, e.Path, e.Path2, e.Ino, e.Off, e.Size, sha256.Sum256(e.Data))
		if e.Marker != nil {
			fmt.Fprintf(h, "%s|%d|%s|", e.Marker.Kind, e.Marker.K, e.Marker.Payload)
		}
	}
	return hex.EncodeToString(h.Sum(nil)[:8])
}

var (
	crashLogMu    sync.Mutex
	crashLogCache = map[string]*crashfs.Log{} // recordings made by this process (the confirmation replays reuse them)
)

func crashHistoryKey(h CrashTombHistory) string {
	return specStr(h.File) + specStr(h.Steps)
}

func findCrashLog(scratch string, h CrashTombHistory, d crashfs.Descriptor, digest string) (*crashfs.Log, string) {
	crashLogMu.Lock()
	l := crashLogCache[crashHistoryKey(h)]
	crashLogMu.Unlock()
	if l != nil && (digest == "" || prefixDigest(l, d) == digest) {
		return l, ""
	}
	for try := 0; try < 4; try++ {
		l, err := recordCrashHistory(scratch, h)
		if err != nil {
			return nil, "recording failed: " + err.Error()
		}
		crashLogMu.Lock()
		crashLogCache[crashHistoryKey(h)] = l
		crashLogMu.Unlock()
		if digest == "" || prefixDigest(l, d) == digest {
			return l, ""
		}
	}
	return nil, "could not re-record a log with the same event prefix (the history is not deterministic enough for this descriptor)"
}

// isolatedTimeout bounds the recovery of ONE image in its own subprocess (normally milliseconds plus process start).
const isolatedTimeout = 45 * time.Second

type crashItem struct {
	im      *crashfs.Image
	fs      FileSpec
	further *TombOp
}

// runCrashRecovery materializes the items into dir/<i> and runs ONE recovery subprocess over them. Items missing
// from the result were not reached (the subprocess died or hung at the first missing one).
func runCrashRecovery(dir string, items []crashItem, timeout time.Duration) (map[string]*TombObs, string, error) {
	job := crashRecJob{Out: filepath.Join(dir, "out.jsonl")}
	for i, it := range items {
		d := filepath.Join(dir, strconv.Itoa(i))
		if err := it.im.Materialize(d); err != nil {
			return nil, "", fmt.Errorf("materialize %v: %w", it.im.Desc, err)
		}
		job.Dirs = append(job.Dirs, d)
		job.IDs = append(job.IDs, strconv.Itoa(i))
		job.Files = append(job.Files, it.fs)
		job.Further = append(job.Further, it.further)
	}
	jb, _ := json.Marshal(job)
	jp := filepath.Join(dir, "job.json")
	if err := os.WriteFile(jp, jb, 0o666); err != nil {
		return nil, "", err
	}
	cmd := exec.Command(os.Args[0], "-test.run", "^TestCheck$", "-test.timeout", "0")
	cmd.Env = selfEnv("VERIF_C08_RECOVER=" + jp)
	var stderr strings.Builder
	cmd.Stdout = &stderr
	cmd.Stderr = &stderr
	if err := cmd.Start(); err != nil {
		return nil, "", err
	}
	done := make(chan error, 1)
	go func() { done <- cmd.Wait() }()
	timedOut := false
	select {
	case <-done:
	case <-time.After(timeout):
		timedOut = true
		cmd.Process.Kill()
		<-done
	}
	res := map[string]*TombObs{}
	if f, err := os.Open(job.Out); err == nil {
		sc := bufio.NewScanner(f)
		sc.Buffer(make([]byte, 1<<20), 64<<20)
		for sc.Scan() {
			var o TombObs
			if json.Unmarshal(sc.Bytes(), &o) == nil && o.ID != "" {
				oo := o
				res[o.ID] = &oo
			}
		}
		f.Close()
	}
	t := stderr.String()
	if timedOut {
		t = "TIMEOUT (recovery hangs)\n" + t
	}
	return res, t, nil
}

var repoFrameRe = regexp.MustCompile(`(?m)^(github\.com/influxdata/influxdb/v2/[^\n]*)\([^()\n]*\)\s*$`)

// deathClass turns the output of a recovery subprocess that died or hung into a short deterministic description.
func deathClass(out string) string {
	what := "died"
	switch {
	case strings.HasPrefix(out, "TIMEOUT"):
		return "hang (no result within the time limit)"
	case strings.Contains(out, "stack overflow") || strings.Contains(out, "goroutine stack exceeds"):
		what = "fatal error: stack overflow"
	case strings.Contains(out, "fatal error:"):
		i := strings.Index(out, "fatal error:")
		what = strings.SplitN(out[i:], "\n", 2)[0]
	case strings.Contains(out, "panic:"):
		i := strings.Index(out, "panic:")
		what = strings.SplitN(out[i:], "\n", 2)[0]
	}
	if m := repoFrameRe.FindStringSubmatch(out); m != nil {
		what += " @ " + m[1]
	}
	return what
}

// recoverAll runs the recovery for all items in subprocess batches, isolating an item that kills its subprocess.
// expired is polled between batches; items not reached stay nil and capped is returned true.
func recoverAll(scratch string, items []crashItem, expired func() bool) (obs []*TombObs, notes map[int]string, capped bool, err error) {
	obs = make([]*TombObs, len(items))
	notes = map[int]string{}
	const batch = 512
	for lo := 0; lo < len(items); {
		if expired != nil && expired() {
			return obs, notes, true, nil
		}
		hi := min(lo+batch, len(items))
		dir, err := os.MkdirTemp(scratch, "b-")
		if err != nil {
			return nil, nil, false, err
		}
		res, _, err := runCrashRecovery(dir, items[lo:hi], 90*time.Second+time.Duration(hi-lo)*time.Second/2)
		os.RemoveAll(dir)
		if err != nil {
			return nil, nil, false, err
		}
		next := hi
		for i := lo; i < hi; i++ {
			if o := res[strconv.Itoa(i-lo)]; o != nil {
				obs[i] = o
			} else if i < next {
				next = i
			}
		}
		if next == hi {
			lo = hi
			continue
		}
		// the subprocess died or hung at item `next`: run it alone, then go on behind it
		d2, _ := os.MkdirTemp(scratch, "iso-")
		r2, out2, err2 := runCrashRecovery(d2, items[next:next+1], isolatedTimeout)
		os.RemoveAll(d2)
		switch {
		case err2 != nil:
			notes[next] = "the isolated recovery could not be run: " + err2.Error()
		case r2["0"] != nil:
			obs[next] = r2["0"] // passed alone: the batch death was not caused by this image
		default:
			obs[next] = &TombObs{ID: "0", Died: deathClass(out2)}
		}
		for i := next + 1; i < hi; i++ {
			obs[i] = nil
		}
		lo = next + 1
	}
	return obs, notes, false, nil
}

// CrashCase is the replayable form of one crash violation.
type CrashCase struct {
	History CrashTombHistory   `json:"history"`
	Desc    crashfs.Descriptor `json:"image"`
	Digest  string             `json:"log_prefix_digest"`
	Cut     string             `json:"cut_description"`
}

func cutClass(im *crashfs.Image) string {
	c := im.NextClass
	if c == "" {
		c = "-"
	}
	return im.NextOp + ":" + c
}

func crashSig(clause, stage string, im *crashfs.Image, cx tombCtx) string {
	return vlib.JoinSig("crash", clause, stage, "cut="+im.Desc.Kind, "path="+cx.Path, "inflight="+cx.Infl)
}

type ctxImg struct {
	im *crashfs.Image
	cx tombCtx
}

// crashPrep is one recorded history with its images grouped by (content, further tombstone).
type crashPrep struct {
	h     CrashTombHistory
	log   *crashfs.Log
	uniq  []crashItem
	ctxs  [][]ctxImg
	first int
}

func prepareCrashHistory(c *vlib.Ctx, scratch string, h CrashTombHistory) (pr *crashPrep, stop bool) {
	t0 := time.Now()
	defer func() {
		if pr != nil {
			c.Logf("crash history %s: %d events, %d image contents, recorded+enumerated in %v", h.Name, len(pr.log.Events), len(pr.uniq), time.Since(t0).Round(time.Millisecond))
		}
	}()
	l, err := recordCrashHistory(scratch, h)
	c.Logf("crash history %s: recording took %v", h.Name, time.Since(t0).Round(time.Millisecond))
	if err != nil {
		if errors.Is(err, crashfs.ErrNoTrace) {
			c.Cap("crash family: strace cannot trace in this environment, no crash image was produced (" + err.Error() + ")")
			return nil, true
		}
		c.HarnessError(fmt.Sprintf("crash family: recording history %s: %v", h.Name, scrub(err.Error(), scratch)))
		return nil, false
	}
	crashLogMu.Lock()
	crashLogCache[crashHistoryKey(h)] = l
	crashLogMu.Unlock()
	c.Extra("crash_histories", 1)
	c.Extra("crash_events", int64(len(l.Events)))
	c.Extra("crash_syscalls_in_logs", int64(l.Syscalls))
	pr = &crashPrep{h: h, log: l}
	byKey := map[string]int{}
	var st crashfs.Stats
	for im := range l.Images(crashImgOpts, &st) {
		cx, ok := tombContextOf(h, im)
		if !ok {
			c.Extra("crash_images_skipped_before_tsm_file_acknowledged", 1)
			continue
		}
		if h.LastOnly && len(h.Steps) > 0 {
			if !(len(cx.A) == len(h.Steps) || (len(cx.A) == len(h.Steps)-1 && len(cx.B) > 0)) {
				continue
			}
		}
		fo := furtherOp(h.File, cx)
		key := im.Hash + "|" + specStr(fo)
		gi, seen := byKey[key]
		if !seen {
			gi = len(pr.uniq)
			byKey[key] = gi
			pr.uniq = append(pr.uniq, crashItem{im, h.File, fo})
			pr.ctxs = append(pr.ctxs, nil)
		}
		pr.ctxs[gi] = append(pr.ctxs[gi], ctxImg{im, cx})
	}
	for _, k := range []string{"P", "T", "U"} {
		c.Extra("crash_images_generated_"+k, int64(st.Generated[k])) // by the engine, before deduplication and filters
	}
	c.Extra("crash_writes_with_subsampled_torn_lengths", int64(st.LongTorn))
	c.Extra("crash_image_contents", int64(len(pr.uniq)))
	return pr, false
}

func judgeCrashHistory(c *vlib.Ctx, pr *crashPrep, obs []*TombObs, notes map[int]string) {
	h := pr.h
	states := map[string]struct{}{}
	sampled := false
	for gi, it := range pr.uniq {
		o := obs[pr.first+gi]
		if o == nil {
			if n, ok := notes[pr.first+gi]; ok {
				c.HarnessError(fmt.Sprintf("crash family: history %s image %v: %s", h.Name, it.im.Desc, n))
			}
			continue
		}
		c.Extra("crash_recoveries", 1)
		if o.Stage >= 1 {
			states[hiddenStr(o.Hidden)] = struct{}{}
		}
		for _, ci := range pr.ctxs[gi] {
			im, cx := ci.im, ci.cx
			clause, stage, detail, verdict := judgeTomb(o, h.File, cx, it.further)
			if clause == "harness" {
				c.HarnessError(fmt.Sprintf("crash family: history %s image %v: %s", h.Name, im.Desc, detail))
				continue
			}
			c.Eval(1)
			c.Extra("crash_images", 1)
			c.Extra("crash_images_"+im.Desc.Kind, 1)
			c.Extra("crash_cuts_at:"+cutClass(im), 1)
			if o.Stage >= 1 && (len(o.Hidden) > 0 || (len(cx.B) > 0 && len(recordedBy(cx.B).recs) > 0)) {
				c.Nontrivial("crash|" + specStr(h.File) + specStr(h.Steps[:len(cx.A)+len(cx.B)]) + "|" + im.Desc.String())
			}
			res := verdict
			if clause != "" {
				res = "FAIL:" + clause + "@" + stage
			}
			c.Outcome(fmt.Sprintf("crash:%s/path=%s/inflight=%s:%s", im.Desc.Kind, cx.Path, cx.Infl, res))
			if clause != "" {
				cutDesc := fmt.Sprintf("%v: %s %s", im.Desc, im.NextOp, im.NextPath)
				c.Violation(crashSig(clause, stage, im, cx),
					fmt.Sprintf("crash history %s (steps %s), image %s; %d steps acknowledged, in flight: %s — %s", h.Name, specStr(h.Steps), cutDesc, len(cx.A), cx.Infl, detail),
					Case{Fam: "crash", Crash: &CrashCase{History: h, Desc: im.Desc, Digest: prefixDigest(pr.log, im.Desc), Cut: cutDesc}})
			} else if !sampled && !h.LastOnly && c.WantSample() && im.Desc.Kind == crashfs.KindT && cx.Path == "append" && len(cx.B) > 0 {
				sampled = true
				c.Sample(map[string]any{"family": "crash", "history": h.Name, "image": im.Desc.String(), "at": im.NextOp + " " + im.NextPath,
					"acknowledged_steps": cx.A, "in_flight": cx.B, "hidden_after_recovery": hiddenStr(o.Hidden), "verdict": verdict, "further_tombstone": it.further, "hidden_after_further_tombstone": hiddenStr(o.Hidden2)})
			}
		}
	}
	c.Extra("crash_distinct_states", int64(len(states)))
}

// runCrash is the crash phase of run: this worker's share of the histories is recorded (one strace session each),
// all their images are recovered in shared subprocess batches, then judged.
func runCrash(c *vlib.Ctx) {
	defer func() {
		if r := recover(); r != nil { // a bug of the machinery must never look like a finding or kill the report
			c.HarnessError(fmt.Sprintf("crash family: explorer panicked: %v\n%s", r, debug.Stack()))
		}
	}()
	scratch := vlib.Scratch("c08c-")
	defer os.RemoveAll(scratch)
	var preps []*crashPrep
	var items []crashItem
	for hi, h := range crashTombHistories(c.Tier) {
		if !c.Mine(int64(hi)) {
			continue
		}
		if c.Expired() {
			c.Cap("budget expired inside the crash family (recording)")
			break
		}
		pr, stop := prepareCrashHistory(c, scratch, h)
		if stop {
			return
		}
		if pr == nil {
			continue
		}
		pr.first = len(items)
		items = append(items, pr.uniq...)
		preps = append(preps, pr)
	}
	t0 := time.Now()
	obs, notes, capped, err := recoverAll(scratch, items, c.Expired)
	c.Logf("crash family: %d recoveries took %v", len(items), time.Since(t0).Round(time.Millisecond))
	if err != nil {
		c.HarnessError("crash family: recovery batch: " + scrub(err.Error(), scratch))
		return
	}
	if capped {
		c.Cap("budget expired inside the crash family (recovery)")
	}
	for _, pr := range preps {
		judgeCrashHistory(c, pr, obs, notes)
	}
}

func replayCrash(cs *CrashCase) (bool, string) {
	scratch := vlib.Scratch("c08cr-")
	defer os.RemoveAll(scratch)
	l, msg := findCrashLog(scratch, cs.History, cs.Desc, cs.Digest)
	if l == nil {
		return false, scrub(msg, scratch)
	}
	im, err := l.Build(cs.Desc, crashImgOpts)
	if err != nil {
		return false, "cannot rebuild the image: " + err.Error()
	}
	cx, ok := tombContextOf(cs.History, im)
	if !ok {
		return false, "the image lies before the acknowledgement of the TSM file"
	}
	fo := furtherOp(cs.History.File, cx)
	dir, _ := os.MkdirTemp(scratch, "img-")
	res, out, err := runCrashRecovery(dir, []crashItem{{im, cs.History.File, fo}}, isolatedTimeout)
	if err != nil {
		return false, "recovery could not be run: " + scrub(err.Error(), scratch)
	}
	obs := fmt.Sprintf("crash history %s image %v (at the cut: %s %s; %d steps acknowledged, in flight: %s, %s path): ", specStr(cs.History.Steps), cs.Desc, im.NextOp, im.NextPath, len(cx.A), cx.Infl, cx.Path)
	o := res["0"]
	if o == nil {
		o = &TombObs{ID: "0", Died: deathClass(out)}
	}
	clause, stage, detail, verdict := judgeTomb(o, cs.History.File, cx, fo)
	if clause == "" {
		return false, obs + "visible tombstone set = " + verdict + " " + hiddenStr(o.Hidden)
	}
	return clause != "harness", obs + clause + "@" + stage + ": " + detail
}

// ---------------------------------------------------------------------------------------------------------
// run / replay
// ---------------------------------------------------------------------------------------------------------

func report(c *vlib.Ctx, fails []fail, cs Case, desc string) {
	seen := map[string]bool{}
	for _, f := range fails {
		if seen[f.sig] {
			continue
		}
		seen[f.sig] = true
		c.Violation(f.sig, desc+": "+f.msg, cs)
	}
}

// failedAPIs is "ok" or the sorted list of lookups that disagreed (second component of the signatures).
func failedAPIs(fails []fail) string {
	if len(fails) == 0 {
		return "ok"
	}
	set := map[string]bool{}
	for _, f := range fails {
		p := strings.Split(f.sig, "/")
		if len(p) > 1 {
			set[p[1]] = true
		}
	}
	var names []string
	for n := range set {
		names = append(names, n)
	}
	sort.Strings(names)
	return "DISAGREE[" + strings.Join(names, ",") + "]"
}

func specStr(v any) string { b, _ := json.Marshal(v); return string(b) }

func run(c *vlib.Ctx) {
	dir := vlib.Scratch("c08-")
	defer os.RemoveAll(dir)
	stats := map[string]int64{}
	defer func() {
		for k, n := range stats {
			c.Extra("lookups_"+k, n)
		}
	}()
	var idx int64
	only := os.Getenv("C08_ONLY") // development aid: "readback" | "tomb" | "crash"

	// --- crash family first: small and of fixed size, so a budget cap always lands in the big families
	if only == "" || only == "crash" {
		runCrash(c)
	}
	if only == "crash" {
		return
	}

	// --- maxkey (one case)
	idx++
	if c.Mine(idx) {
		fails := evalMaxKey(dir)
		c.Eval(1)
		c.Outcome(fmt.Sprintf("maxkey:refused=%v", len(fails) == 0))
		report(c, fails, Case{Fam: "maxkey"}, "65536-byte key")
	}

	// --- readback
	capped := false
	visitFile := func(fam string, fs FileSpec) bool {
		if only == "tomb" {
			return false
		}
		idx++
		if !c.Mine(idx) {
			return true
		}
		if c.Expired() {
			c.Cap("budget expired inside the readback families (family " + fam + ")")
			capped = true
			return false
		}
		fails := evalReadback(dir, fs, stats)
		c.Eval(1)
		c.Extra("files_"+fam, 1)
		nb := 0
		for _, k := range fs.Keys {
			nb += len(k.Blocks)
		}
		if len(fs.Keys) > 1 || nb > 1 {
			c.Nontrivial("rb|" + specStr(fs))
		}
		c.Outcome(fmt.Sprintf("readback:keys=%d,%s:%s", len(fs.Keys), fs.Writer, failedAPIs(fails)))
		if len(fails) > 0 {
			report(c, fails, Case{Fam: "readback", File: &fs}, "file "+specStr(fs))
		}
		if c.WantSample() && len(fs.Keys) >= 3 && len(fs.Keys) <= 4 {
			c.Sample(map[string]any{"family": fam, "file": fs, "lookups": failedAPIs(fails)})
		}
		return true
	}
	readbackFamilies(c.Thorough(), 1, visitFile)
	if capped {
		return
	}

	// --- tombstone histories
	for bi, base := range tombBases(c.Thorough()) {
		if only == "readback" {
			break
		}
		bdir := filepath.Join(dir, fmt.Sprintf("base%d", bi))
		if err := os.Mkdir(bdir, 0o777); err != nil {
			c.HarnessError("mkdir: " + err.Error())
			return
		}
		if _, err := WriteTSM(bdir, base.file); err != nil {
			c.HarnessError("cannot write tombstone base file: " + scrub(err.Error(), dir))
			return
		}
		m := buildModel(base.file)
		stop := false
		tombHistories(base, c.Thorough(), func(fam string, steps []TombStep) bool {
			idx++
			if !c.Mine(idx) {
				return true
			}
			if c.Expired() {
				c.Cap(fmt.Sprintf("budget expired inside the tombstone histories (base file %d, family %s)", bi, fam))
				stop = true
				return false
			}
			h := TombHistory{File: base.file, Steps: steps}
			fails, outcome := evalTomb(bdir, m, h, stats)
			c.Eval(1)
			c.Extra("histories_"+fam, 1)
			c.Nontrivial(fmt.Sprintf("tomb|%d|%s", bi, specStr(steps)))
			if len(fails) > 0 {
				outcome += ":" + failedAPIs(fails)
			}
			c.Outcome(outcome)
			if len(fails) > 0 {
				report(c, fails, Case{Fam: "tomb", Hist: &h}, "history "+specStr(h))
			}
			if c.WantSample() && fam == "tomb2" && strings.Contains(outcome, "partial") {
				c.Sample(map[string]any{"family": fam, "history": h, "result": outcome})
			}
			return true
		})
		os.RemoveAll(bdir)
		if stop {
			return
		}
	}

	// --- history writer / recovery checker pair (the crash engine's two halves), without a crash
	if only != "readback" {
		base := tombBases(false)[2] // two keys
		stop := false
		recoveryCases(base, func(a, b []TombStep) bool {
			idx++
			if !c.Mine(idx) {
				return true
			}
			if c.Expired() {
				c.Cap("budget expired inside the recovery family")
				stop = true
				return false
			}
			fails, outcome := evalRecovery(dir, base.file, a, b)
			c.Eval(1)
			c.Extra("histories_recovery", 1)
			c.Nontrivial("rec|" + specStr(a) + specStr(b))
			if len(fails) > 0 {
				outcome += ":" + failedAPIs(fails)
				report(c, fails, Case{Fam: "recovery", File: &base.file, A: a, B: b}, "recovery "+specStr(a)+" then "+specStr(b))
			}
			c.Outcome(outcome)
			return true
		})
		if stop {
			return
		}
	}

	// --- readback, second phase (thorough)
	if c.Thorough() {
		readbackFamilies(true, 2, visitFile)
	}
}

func replay(c *vlib.Ctx, raw json.RawMessage) (bool, string) {
	var cs Case
	if err := json.Unmarshal(raw, &cs); err != nil {
		return false, err.Error()
	}
	dir := vlib.Scratch("c08r-")
	defer os.RemoveAll(dir)
	var fails []fail
	extra := ""
	switch cs.Fam {
	case "crash":
		if cs.Crash == nil {
			return false, "no crash case"
		}
		return replayCrash(cs.Crash)
	case "maxkey":
		fails = evalMaxKey(dir)
	case "readback":
		if cs.File == nil {
			return false, "no file in case"
		}
		fails = evalReadback(dir, *cs.File, nil)
	case "tomb":
		if cs.Hist == nil {
			return false, "no history in case"
		}
		if _, err := WriteTSM(dir, cs.Hist.File); err != nil {
			return false, "cannot write base file: " + scrub(err.Error(), dir)
		}
		fails, extra = evalTomb(dir, buildModel(cs.Hist.File), *cs.Hist, nil)
	case "recovery":
		if cs.File == nil {
			return false, "no file in case"
		}
		fails, extra = evalRecovery(dir, *cs.File, cs.A, cs.B)
	default:
		return false, "unknown family " + cs.Fam
	}
	var sb strings.Builder
	sb.WriteString(extra)
	for _, f := range fails {
		fmt.Fprintf(&sb, "\n[%s] %s", f.sig, f.msg)
	}
	return len(fails) > 0, sb.String()
}

func TestCheck(t *testing.T) {
	if js := os.Getenv("VERIF_CRASH_WRITER"); js != "" {
		os.Exit(crashWriterMain(js))
	}
	if jp := os.Getenv("VERIF_C08_RECOVER"); jp != "" {
		os.Exit(crashRecoverMain(jp))
	}
	vlib.Main(t, &vlib.Check{
		ID: "C08", Level: "exploration",
		Rule: "READBACK, real TSM files over a 6-key pool (prefix pair, escaped comma, 65535-byte key, 0xFF byte, 1-byte key), logical timestamps {1..5}: (a) focus: 1 key x all 111 layouts (non-empty subset of {1..5} in 1..3 blocks) x {alone x 5 block types, among the 5 other keys x 1 rotating type (quick) / 5 types (thorough)}, writer variant rotating, 1 (quick) / 2 (thorough) passes; (b) shifted: time shifts {-10,-3,1e18} x (3 keys x 111 layouts + 3 key pairs x 16 layout pairs); (c) subsets: every non-empty key subset x every assignment of 2 (quick) / 3 (thorough) fixed layouts x 2 type rotations x 4 writers, thorough also 4 other layouts x 1 writer; writers = in-memory|disk-buffered index x Write|WriteBlock; (d, thorough) the prefix key pair x 111x111 layouts; plus one 65536-byte key. Per file: byte-level parse vs model, then Contains/Seek/KeyAt/Key/KeyCount/Type/Entries/ReadEntries/Read/ReadAt/ReadAll/ContainsValue/BlockIterator/KeyRange/TimeRange/Stats/OverlapsTimeRange/OverlapsKeyRange over 20 probe keys (14 absent neighbours, all ordered pairs for key ranges) and times 0..6 (all sub-ranges + infinite ones). TOMB, 4 (quick) / 8 (thorough) base files of 1-3 keys: tomb1 = every non-empty subset of 3-4 argument keys (incl. absent ones) x {DeleteRange x 25 ranges, BatchDelete+Commit and BatchDelete+Rollback x 6 (quick) / 25 (thorough) ranges} and Delete(keys); tomb2 = every ordered pair of ops over key subsets {singletons of file keys, whole argument set} x 6 ranges (quick) / {singletons of argument keys, pairs of file keys, whole set} x 7 ranges (thorough) x {one batch, two batches, reopen between, first rolled back, second rolled back (thorough only), first as Delete}; tomb3 = every triple of 6 (quick) / 7 (thorough) ranges on one key x {one batch, three batches}; every history is checked on the live reader and after a reopen. RECOVERY (no crash; the two halves the crash engine reuses): 1 two-key file x {no prior tombstone, 1 committed op} x 1 op over 2 keys x 6 ranges: WriteTombHistory then CheckRecovery must say old after the acknowledged steps and new after all. CRASH (the crash clause; engine crashfs; counted under the crash_* coverage keys and the crash:* outcomes; runs first): tombstone histories performed by a writer subprocess on the real TSMReader under strace with BEGIN/ACK markers (op 0 = TSM file written, op i+1 = step i; every step is at most one tombstone commit: BatchDelete+Commit of 1-2 ops, DeleteRange of one op, Delete of one op, BatchDelete+Rollback, reopen); quick: 3 hand-picked histories of 4-5 steps on files of 1, 2 and 3 keys (first tombstone = create path, later ones = v4 append path through the temp copy, rollback, reopen), every cut; thorough: these plus a history on the file with the 65535-byte key plus the enumerated family on the two-key file: A in {no tombstone, 4 committed ops (each key x {[1,2], whole key})} x B in {commit of one op: each key x 6 ranges, commit over both keys, Delete of each key} = 75 recordings (with A: only the cuts inside or after B). Per history every prefix of the syscall-level event list (P), every torn length 1..n-1 of the write in flight (T; all lengths up to 4096 bytes), and for *.tombstone/*.tmp files the images with un-fsynced data dropped or its last write torn (U); directory operations in program order; only images cut after the TSM file was acknowledged; images deduplicated by (content, acknowledged steps, step in flight). One evaluation = one (image, acknowledgement context) recovered in a fresh subprocess: NewTSMReader on the image, ReadAll of every written key -> set of hidden points, Tombstoner.Walk; then leftover *.tmp files removed (as Engine.Open does), one more DeleteRange of a still visible point through the real reader, close, reopen, hidden points again. Crash oracle: the file opens; nothing unwritten is returned; hidden points = those of the acknowledged steps (old) or of those plus the step in flight (new), exactly the acknowledged ones when nothing is in flight; after the further tombstone: the first view plus that point. Order: crash, focus, shifted, subsets, tomb, then (thorough) 4-layout subsets and pairs. non-trivial = file with >1 key or >1 block, every tombstone history (deduplicated by spec), every crash image that hides a point or has a recording step in flight",
		Assumptions: []string{
			"block payload codecs (tsm1.Values.Encode / DecodeBlock) are used by the byte-level parse to decode blocks; they are the subject of other properties",
			"with tombstones the statement fixes only what is hidden: Contains/KeyCount for a key whose points are all hidden by several partial ranges, and Entries for fully hidden blocks, are accepted either way; KeyRange/TimeRange/Stats are checked only on files without tombstones",
			"crash family: ordered-metadata crash model (creates/renames/unlinks persist in program order; data of *.tombstone/*.tmp files may be lost back to the last fsync = U images; a write in flight may persist any byte prefix = T images); a crash while the TSM file itself is being written is not a crash during a tombstone write and is skipped",
			"crash family: before the further tombstone the recovery removes leftover *.tmp files, as tsm1.Engine.Open (cleanup) does before loading the file store; the TSMReader alone would refuse the next delete because the temp file is created with O_EXCL",
			"crash family: every step of a crash history is at most one tombstone commit, so the old/new alternative is per commit; the visible tombstone set is observed as the set of written points that ReadAll no longer returns",
		},
		QuickBudgetS: 40, ThoroughBudgetS: 780,
		// one case at a time per worker: no use for more Ps; the writers allocate 3-4 MiB of buffers per file,
		// so a lazier GC helps
		WorkerEnv: []string{"GOMAXPROCS=1", "GOGC=400"},
		Run:       run, Replay: replay,
	})
}
