// Package vsync is a drop-in replacement of package sync for repo files rewritten by the /verif
// overlay. Mutexes are modelled by the scheduler (a contended Lock disables the thread instead of
// blocking it); everything else wraps the real primitive with a scheduling point.
// Without an active scheduler every type behaves exactly like its sync counterpart.
package vsync

import (
	"sync"

	"github.com/influxdata/influxdb/v2/pkg/verifrt/vrt"
)

type (
	Locker = sync.Locker
	Pool   = sync.Pool
	Map    = sync.Map
)

func OnceFunc(f func()) func()                        { return sync.OnceFunc(f) }
func OnceValue[T any](f func() T) func() T            { return sync.OnceValue(f) }
func OnceValues[T1, T2 any](f func() (T1, T2)) func() (T1, T2) { return sync.OnceValues(f) }

// Mutex: real mutex + modelled state. Under the scheduler Lock is a point that is enabled only
// while the model says the mutex is free, so the real Lock below never blocks.
type Mutex struct {
	real sync.Mutex
	st   vrt.LockState
}

func (m *Mutex) Lock() {
	if s := vrt.Active(); s != nil {
		s.Point(vrt.OpLock, vrt.CallerLabel(2)+":Lock", &m.st)
	}
	m.real.Lock()
	m.st.Writer = true
}

func (m *Mutex) TryLock() bool {
	if s := vrt.Active(); s != nil {
		s.Point(vrt.OpAtomic, vrt.CallerLabel(2)+":TryLock", nil)
	}
	if m.real.TryLock() {
		m.st.Writer = true
		return true
	}
	return false
}

func (m *Mutex) Unlock() {
	m.st.Writer = false
	m.real.Unlock()
	if s := vrt.Active(); s != nil {
		s.Point(vrt.OpUnlock, vrt.CallerLabel(2)+":Unlock(after)", nil)
	}
}

// RWMutex: see Mutex. Writer preference of the real RWMutex is modelled: Lock with active readers first
// announces the writer (st.Pending, which disables every later RLock exactly as the real readerCount
// going negative does) and then waits, at a second point, until the active readers have left. A
// recursive RLock behind a pending writer is therefore a deadlock under the scheduler as it is in reality.
// Under the scheduler no thread ever waits inside the real lock.
type RWMutex struct {
	real sync.RWMutex
	st   vrt.LockState
	rmu  sync.Mutex // protects st.Readers in free-running mode
}

func (m *RWMutex) Lock() {
	if s := vrt.Active(); s != nil {
		s.Point(vrt.OpLock, vrt.CallerLabel(2)+":Lock", &m.st)
		if !s.Aborting() && m.readers() > 0 {
			m.st.Pending = true
			s.Point(vrt.OpLockWait, vrt.CallerLabel(2)+":Lock(wait-readers)", &m.st)
		}
	}
	m.real.Lock()
	m.st.Pending = false
	m.st.Writer = true
}

func (m *RWMutex) readers() int {
	m.rmu.Lock()
	defer m.rmu.Unlock()
	return m.st.Readers
}

func (m *RWMutex) TryLock() bool {
	if s := vrt.Active(); s != nil {
		s.Point(vrt.OpAtomic, vrt.CallerLabel(2)+":TryLock", nil)
	}
	if m.real.TryLock() {
		m.st.Writer = true
		return true
	}
	return false
}

func (m *RWMutex) Unlock() {
	m.st.Writer = false
	m.real.Unlock()
	if s := vrt.Active(); s != nil {
		s.Point(vrt.OpUnlock, vrt.CallerLabel(2)+":Unlock(after)", nil)
	}
}

func (m *RWMutex) RLock() {
	if s := vrt.Active(); s != nil {
		s.Point(vrt.OpRLock, vrt.CallerLabel(2)+":RLock", &m.st)
	}
	m.real.RLock()
	m.rmu.Lock()
	m.st.Readers++
	m.rmu.Unlock()
}

func (m *RWMutex) TryRLock() bool {
	if s := vrt.Active(); s != nil {
		s.Point(vrt.OpAtomic, vrt.CallerLabel(2)+":TryRLock", nil)
		if m.st.Pending {
			return false // the real TryRLock fails behind a pending writer
		}
	}
	if m.real.TryRLock() {
		m.rmu.Lock()
		m.st.Readers++
		m.rmu.Unlock()
		return true
	}
	return false
}

func (m *RWMutex) RUnlock() {
	m.rmu.Lock()
	m.st.Readers--
	m.rmu.Unlock()
	m.real.RUnlock()
	if s := vrt.Active(); s != nil {
		s.Point(vrt.OpUnlock, vrt.CallerLabel(2)+":RUnlock(after)", nil)
	}
}

type rlocker RWMutex

func (r *rlocker) Lock()   { (*RWMutex)(r).RLock() }
func (r *rlocker) Unlock() { (*RWMutex)(r).RUnlock() }

func (m *RWMutex) RLocker() Locker { return (*rlocker)(m) }

// WaitGroup wraps the real one; Wait is a durable block inside a bubble, after which the thread
// takes the baton back at a resume point.
type WaitGroup struct{ real sync.WaitGroup }

func (w *WaitGroup) Add(n int) { w.real.Add(n) }
func (w *WaitGroup) Done()     { w.real.Done() }
func (w *WaitGroup) Go(f func()) { w.real.Go(f) }
func (w *WaitGroup) Wait() {
	w.real.Wait()
	if s := vrt.Active(); s != nil {
		s.Point(vrt.OpResume, vrt.CallerLabel(2)+":WaitGroup.Wait", nil)
	}
}

// Once wraps the real one.
type Once struct{ real sync.Once }

func (o *Once) Do(f func()) {
	if s := vrt.Active(); s != nil {
		s.Point(vrt.OpAtomic, vrt.CallerLabel(2)+":Once.Do", nil)
	}
	o.real.Do(f)
}

// Cond wraps the real one over a (modelled) Locker.
type Cond struct {
	L    Locker
	real *sync.Cond
	once sync.Once
}

func NewCond(l Locker) *Cond { return &Cond{L: l, real: sync.NewCond(l)} }

func (c *Cond) init() { c.once.Do(func() { if c.real == nil { c.real = sync.NewCond(c.L) } }) }
func (c *Cond) Wait() { c.init(); c.real.Wait() }
func (c *Cond) Signal() {
	c.init()
	if s := vrt.Active(); s != nil {
		s.Point(vrt.OpAtomic, vrt.CallerLabel(2)+":Cond.Signal", nil)
	}
	c.real.Signal()
}
func (c *Cond) Broadcast() {
	c.init()
	if s := vrt.Active(); s != nil {
		s.Point(vrt.OpAtomic, vrt.CallerLabel(2)+":Cond.Broadcast", nil)
	}
	c.real.Broadcast()
}
