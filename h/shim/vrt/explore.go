package vrt

import (
	"fmt"
	"os"
	"runtime"
	"testing"
	"testing/synctest"
	"time"
)

// DumpOnPanic makes RunOnce print all goroutine stacks when the bubble panics (debugging aid).
var DumpOnPanic = os.Getenv("VERIF_DUMP") != ""

// Exec is one execution handed to the harness body.
type Exec struct {
	S        *Sched
	T        *testing.T
	Failures []Failure
	Outcome  string
	ran      bool
}

// Failure is a property violation observed in one execution.
type Failure struct {
	Sig, Msg string
}

func (x *Exec) Fail(sig, msg string) { x.Failures = append(x.Failures, Failure{sig, msg}) }
func (x *Exec) Go(name string, f func()) { x.S.Go(name, f) }

// Run runs the registered threads under the scheduler.
func (x *Exec) Run() { x.ran = true; x.S.Run() }

// Harness describes a concurrent scenario.
type Harness struct {
	Name    string
	Filter  func(kind OpKind, label string) bool
	Horizon time.Duration
	// DeviationCost: see Sched.DeviationCost.
	DeviationCost bool
	// Body builds the fixture (unscheduled), registers threads with x.Go, calls x.Run(), then checks
	// the oracle (x.Fail) and sets x.Outcome. It must leave no goroutine blocked when it returns
	// (call x.S.Drain() or x.S.Abort() and close the fixture).
	Body func(x *Exec)
}

// Result of one execution.
type Result struct {
	Choices  []int
	Steps    []Step
	Preempts int
	Deadlock bool
	Blocked  []string
	Diverged string
	StepCap  bool
	Failures []Failure
	Outcome  string
	Names    []string
}

// RunOnce executes the harness once with the given choice prefix.
func RunOnce(t *testing.T, h *Harness, prefix []int) (res *Result) {
	res = &Result{}
	defer func() {
		if r := recover(); r != nil {
			res.Diverged = fmt.Sprintf("bubble panicked: %v", r)
			if DumpOnPanic {
				buf := make([]byte, 1<<20)
				n := runtime.Stack(buf, true)
				fmt.Fprintf(os.Stderr, "%s\n", buf[:n])
			}
		}
	}()
	synctest.Test(t, func(t *testing.T) {
		s := NewSched(prefix)
		s.Filter = h.Filter
		s.DeviationCost = h.DeviationCost
		if h.Horizon > 0 {
			s.Horizon = h.Horizon
		}
		x := &Exec{S: s, T: t}
		h.Body(x)
		if !s.Aborting() {
			s.Abort()
		}
		res.Choices = s.Choices()
		res.Steps = s.Steps
		res.Deadlock = s.Deadlock
		res.Blocked = s.Blocked
		res.Diverged = s.Diverged
		res.StepCap = s.StepCap
		res.Failures = x.Failures
		res.Outcome = x.Outcome
		for _, st := range s.Steps {
			if st.Preempt {
				res.Preempts++
			}
		}
		for i := range s.threads {
			res.Names = append(res.Names, s.threads[i].name)
		}
	})
	return res
}

// Stats of an exploration.
type Stats struct {
	Executions  int64
	Nodes       int64 // decision nodes with >1 enabled thread visited (distinct partial schedules)
	Transitions int64
	MaxDepth    int
	Bound       int  // preemption bound of this pass
	Complete    bool // pass finished
}

// Explore enumerates every schedule of h with at most `bound` preemptions (iterative context
// bounding, DFS over choice prefixes; every execution runs to completion). Sharding: the root
// execution and all its children are run by every shard (needed to enumerate the tree) but visited
// by one; grandchildren subtrees are dealt round-robin and run only by their owner.
// stop() ends the pass early (Complete=false).
func Explore(t *testing.T, h *Harness, bound, shard, nshards int, stop func() bool, visit func(*Result)) Stats {
	st := Stats{Bound: bound, Complete: true}
	var c1, c2 int64
	var rec func(prefix []int, level int, visitThis bool)
	rec = func(prefix []int, level int, visitThis bool) {
		if stop != nil && stop() {
			st.Complete = false
			return
		}
		x := RunOnce(t, h, prefix)
		if visitThis {
			st.Executions++
			st.Transitions += int64(len(x.Steps))
			if len(x.Steps) > st.MaxDepth {
				st.MaxDepth = len(x.Steps)
			}
			visit(x)
		}
		if x.Diverged != "" {
			return
		}
		pre := 0
		for i := 0; i < len(x.Steps); i++ {
			sp := x.Steps[i]
			if i >= len(prefix) {
				if len(sp.Enabled) > 1 && visitThis {
					st.Nodes++
				}
				for alt := 1; alt < len(sp.Enabled); alt++ {
					cost := pre + sp.Costs[alt]
					if cost > bound {
						continue
					}
					np := append(append([]int{}, x.Choices[:i]...), alt)
					switch level {
					case 0:
						c1++
						rec(np, 1, int(c1%int64(nshards)) == shard)
					case 1:
						c2++
						if int(c2%int64(nshards)) == shard {
							rec(np, 2, true)
						}
					default:
						rec(np, level+1, true)
					}
				}
			}
			if sp.Preempt {
				pre++
			}
		}
	}
	rec(nil, 0, shard == 0)
	return st
}
