// Package vrt is the controlled scheduler of the /verif model checker. It is injected into the
// repo as the virtual package github.com/influxdata/influxdb/v2/pkg/verifrt/vrt with `go build -overlay`.
//
// Threads are real goroutines running real repo code. Exactly one thread holds the baton; a thread
// gives it up only at a *point* (a shimmed sync/atomic operation or an explicit hook point). All
// executions run inside a testing/synctest bubble: synctest.Wait tells the scheduler that every
// goroutine is parked at a point, finished, or durably blocked, and time is fake.
package vrt

import (
	"fmt"
	"sort"
	"runtime"
	"strings"
	"sync"
	"sync/atomic"
	"testing/synctest"
	"time"
)

// OpKind classifies a point.
type OpKind int

const (
	OpHook OpKind = iota // explicit hook point / harness step
	OpLock
	OpRLock
	OpAtomic
	OpResume // re-acquire the baton after an external (durable) block
	OpStart  // first point of a thread
	OpYield  // spin/poll loop iteration: the thread stays enabled but the default choice moves on (fair scheduling)
	// OpLockWait: second half of RWMutex.Lock when readers were active at the first half: the writer has
	// announced itself (LockState.Pending: new readers are held back, as in the real RWMutex) and waits
	// for the active readers to leave.
	OpLockWait
	// OpUnlock: a point right AFTER a mutex was released (only when Sched.UnlockPoints is set): lets another
	// thread run between an Unlock and the releasing thread's next operations that are not points themselves
	// (timer resets, channel operations, plain memory) - where a lock scope that was narrowed too far shows.
	OpUnlock
)

// LockState is the modelled state of a mutex (embedded in vsync.Mutex / RWMutex).
type LockState struct {
	Writer  bool
	Readers int
	Pending bool // a writer has announced itself and waits for the active readers (RWMutex writer preference)
}

type thread struct {
	gid     int64 // goroutine id (adopted threads are ordered by it: creation order, not arrival order)
	id      int
	name    string
	resume  chan bool // true = continue, false = abort (Goexit)
	state   int32     // 0 running, 1 parked, 2 done
	kind    OpKind
	label   string
	lock    *LockState
	harness bool
	silent  bool // parked at a point the harness filter excludes (it parked only because it did not hold the baton)
}

const (
	stRunning = 0
	stParked  = 1
	stDone    = 2
)

// Step is one scheduling decision of an execution.
type Step struct {
	Thread  int    `json:"t"`
	Label   string `json:"l"`
	Enabled []int  `json:"e"` // enabled thread ids in canonical order
	Choice  int    `json:"c"` // index into Enabled
	Costs   []int  `json:"k,omitempty"` // preemption cost (0/1) of each alternative
	Preempt bool   `json:"p,omitempty"`
}

// Sched runs one execution.
type Sched struct {
	mu       sync.Mutex
	threads  []*thread
	byG      map[int64]*thread
	arrive   chan struct{}
	prefix   []int
	Steps    []Step
	last     *thread
	Filter   func(kind OpKind, label string) bool
	Horizon  time.Duration
	MaxSteps int
	// DeviationCost: bound deviations from the default schedule (any non-default choice costs 1) instead of
	// preemptions only (choices offered when the running thread blocks or ends are then no longer free).
	DeviationCost bool
	// UnlockPoints: see OpUnlock. Off by default (doubles the points of every critical section).
	UnlockPoints bool
	Deadlock     bool
	Diverged string
	StepCap  bool
	aborting atomic.Bool
	holder   atomic.Pointer[thread]
	// Blocked lists threads that never finished (deadlock report)
	Blocked []string
}

var active atomic.Pointer[Sched]

// Active returns the scheduler of the running execution, or nil.
func Active() *Sched { return active.Load() }

// NewSched creates a scheduler that first replays prefix (choice indexes) and then always takes choice 0.
func NewSched(prefix []int) *Sched {
	return &Sched{byG: map[int64]*thread{}, arrive: make(chan struct{}, 1024), prefix: prefix,
		Horizon: 24 * time.Hour, MaxSteps: 100000}
}

// Go registers a harness thread. Must be called before Run, from the bubble's goroutine.
func (s *Sched) Go(name string, f func()) {
	t := &thread{id: len(s.threads), name: name, resume: make(chan bool), harness: true, state: stParked, kind: OpStart, label: name + ":start"}
	s.threads = append(s.threads, t)
	go func() {
		g := goid()
		s.mu.Lock()
		s.byG[g] = t
		s.mu.Unlock()
		if ok := <-t.resume; !ok {
			s.finish(t, g)
			return
		}
		defer s.finish(t, g)
		f()
	}()
}

func (s *Sched) finish(t *thread, g int64) {
	s.mu.Lock()
	atomic.StoreInt32(&t.state, stDone)
	delete(s.byG, g)
	s.mu.Unlock()
	select {
	case s.arrive <- struct{}{}: // wake the scheduler if it is waiting for fake time to pass
	default:
	}
}

func (s *Sched) self() (*thread, bool) {
	g := goid()
	s.mu.Lock()
	t := s.byG[g]
	fresh := false
	if t == nil {
		// adopt a goroutine spawned by repo code
		fresh = true
		t = &thread{id: len(s.threads), gid: g, name: "g:" + creator(), resume: make(chan bool)}
		s.threads = append(s.threads, t)
		s.byG[g] = t
	}
	s.mu.Unlock()
	return t, fresh
}

func creator() string {
	buf := make([]byte, 8192)
	n := runtime.Stack(buf, false)
	st := string(buf[:n])
	if i := strings.LastIndex(st, "created by "); i >= 0 {
		st = st[i+11:]
		if j := strings.IndexAny(st, " \n"); j >= 0 {
			st = st[:j]
		}
		if k := strings.LastIndex(st, "/"); k >= 0 {
			st = st[k+1:]
		}
		return st
	}
	return "?"
}

// Point yields the baton at an operation. lock is non-nil for Lock/RLock.
// The baton holder passes silently through points the harness filter excludes (unless it is a
// contended lock); any other goroutine (freshly adopted, or woken from a durable block) parks at
// its first operation whatever the filter, so that only the baton holder runs repo code.
func (s *Sched) Point(kind OpKind, label string, lock *LockState) {
	if s.aborting.Load() || (kind == OpUnlock && !s.UnlockPoints) {
		return
	}
	t, fresh := s.self()
	fkind := kind // harness filters see the second half of a writer Lock as a Lock
	if kind == OpLockWait {
		fkind = OpLock
	}
	if !fresh && s.holder.Load() == t {
		silent := kind == OpResume || (kind != OpYield && s.Filter != nil && !s.Filter(fkind, label))
		if silent && lockFree(kind, lock) {
			return
		}
	}
	t.kind, t.label, t.lock = kind, label, lock
	t.silent = kind == OpResume || (kind != OpYield && kind != OpStart && s.Filter != nil && !s.Filter(fkind, label))
	atomic.StoreInt32(&t.state, stParked)
	select {
	case s.arrive <- struct{}{}:
	default:
	}
	if ok := <-t.resume; !ok {
		runtime.Goexit()
	}
}

func lockFree(kind OpKind, l *LockState) bool {
	if l == nil || (kind != OpLock && kind != OpRLock && kind != OpLockWait) {
		return true
	}
	switch kind {
	case OpLock:
		// first half of Lock = acquire the writers' mutex of the real RWMutex and announce: possible while
		// readers are active (a plain Mutex never has readers or a pending writer)
		return !l.Writer && !l.Pending
	case OpLockWait:
		return l.Readers == 0
	}
	return !l.Writer && !l.Pending
}

func (s *Sched) enabled() []*thread {
	var out []*thread
	s.mu.Lock()
	for _, t := range s.threads {
		if atomic.LoadInt32(&t.state) != stParked {
			continue
		}
		if (t.kind == OpLock || t.kind == OpRLock || t.kind == OpLockWait) && !lockFree(t.kind, t.lock) {
			continue
		}
		out = append(out, t)
	}
	s.mu.Unlock()
	// harness threads by id, then adopted threads by goroutine id
	sort.SliceStable(out, func(i, j int) bool {
		a, b := out[i], out[j]
		if a.harness != b.harness {
			return a.harness
		}
		if a.harness {
			return a.id < b.id
		}
		return a.gid < b.gid
	})
	// canonical order: last running thread first if enabled (last if it is yielding), then ascending ids
	if s.last != nil {
		for i, t := range out {
			if t == s.last {
				if t.kind == OpYield {
					copy(out[i:], out[i+1:])
					out[len(out)-1] = t
				} else {
					copy(out[1:i+1], out[:i])
					out[0] = t
				}
				break
			}
		}
	}
	return out
}

// costs returns the preemption cost of choosing each enabled thread: leaving a runnable, non-yielding
// thread costs 1; re-choosing a yielding thread while others are enabled costs 1; everything else is free.
func (s *Sched) costs(en []*thread) []int {
	c := make([]int, len(en))
	if s.DeviationCost {
		// deviation bounding: the canonical first choice is free, every other choice costs 1
		for i := 1; i < len(c); i++ {
			c[i] = 1
		}
		return c
	}
	if s.last == nil {
		return c
	}
	li := -1
	for i, t := range en {
		if t == s.last {
			li = i
		}
	}
	if li < 0 {
		return c
	}
	if s.last.kind == OpYield {
		if len(en) > 1 {
			c[li] = 1
		}
		return c
	}
	for i := range c {
		if i != li {
			c[i] = 1
		}
	}
	return c
}

func (s *Sched) harnessDone() bool {
	s.mu.Lock()
	defer s.mu.Unlock()
	for _, t := range s.threads {
		if t.harness && atomic.LoadInt32(&t.state) != stDone {
			return false
		}
	}
	return true
}

// Run drives the execution until every harness thread has finished (adopted background
// goroutines may still be parked: they are then run to their end or aborted by Abort).
func (s *Sched) Run() {
	active.Store(s)
	defer active.Store(nil)
	for {
		synctest.Wait()
		if s.harnessDone() {
			// let adopted goroutines that are parked continue silently to completion
			break
		}
		en := s.enabled()
		if len(en) == 0 {
			// nobody can take a step: either durably blocked on timers (let fake time advance) or deadlock
			select {
			case <-s.arrive:
				continue
			case <-time.After(s.Horizon):
				synctest.Wait()
				if len(s.enabled()) > 0 || s.harnessDone() {
					continue
				}
				s.Deadlock = true
				s.mu.Lock()
				for _, t := range s.threads {
					if st := atomic.LoadInt32(&t.state); st != stDone {
						where := "blocked outside the scheduler"
						if st == stParked {
							where = "waiting at " + t.label
						}
						s.Blocked = append(s.Blocked, fmt.Sprintf("%s(%d): %s", t.name, t.id, where))
					}
				}
				s.mu.Unlock()
				return
			}
		}
		if len(s.Steps) >= s.MaxSteps {
			s.StepCap = true
			return
		}
		// threads parked at points the filter excludes are not branching points: run the first of them now
		for _, t := range en {
			if t.silent {
				en = []*thread{t}
				break
			}
		}
		idx := 0
		if n := len(s.Steps); n < len(s.prefix) {
			idx = s.prefix[n]
			if idx >= len(en) {
				s.Diverged = fmt.Sprintf("replay divergence at step %d: choice %d of %d enabled", n, idx, len(en))
				return
			}
		}
		t := en[idx]
		ids := make([]int, len(en))
		for i, e := range en {
			ids[i] = e.id
		}
		cs := s.costs(en)
		s.Steps = append(s.Steps, Step{Thread: t.id, Label: t.label, Enabled: ids, Choice: idx, Costs: cs, Preempt: cs[idx] > 0})
		s.last = t
		// drain stale notifications
		for len(s.arrive) > 0 {
			<-s.arrive
		}
		s.holder.Store(t)
		atomic.StoreInt32(&t.state, stRunning)
		t.resume <- true
	}
}

// Drain ends scheduling: points become no-ops and every parked thread is resumed once, so that all
// goroutines continue free-running (the harness then tears its fixture down normally). Run has
// returned right after a synctest.Wait, so every thread is parked, blocked or done at this moment.
func (s *Sched) Drain() {
	s.aborting.Store(true)
	s.mu.Lock()
	ts := append([]*thread(nil), s.threads...)
	s.mu.Unlock()
	for _, t := range ts {
		if atomic.LoadInt32(&t.state) == stParked {
			atomic.StoreInt32(&t.state, stRunning)
			t.resume <- true
		}
	}
}

// Abort makes every parked thread exit (runtime.Goexit, deferred calls run with points disabled).
func (s *Sched) Abort() {
	s.aborting.Store(true)
	for {
		synctest.Wait()
		progressed := false
		s.mu.Lock()
		ts := append([]*thread(nil), s.threads...)
		s.mu.Unlock()
		for _, t := range ts {
			if atomic.LoadInt32(&t.state) == stParked {
				atomic.StoreInt32(&t.state, stRunning)
				t.resume <- false
				progressed = true
				synctest.Wait()
			}
		}
		if !progressed {
			return
		}
	}
}

// Aborting reports whether points are disabled (after Drain/Abort).
func (s *Sched) Aborting() bool { return s.aborting.Load() }

// ThreadName returns the name of thread id.
func (s *Sched) ThreadName(id int) string {
	s.mu.Lock()
	defer s.mu.Unlock()
	if id < len(s.threads) {
		return s.threads[id].name
	}
	return "?"
}

// Choices returns the choice index taken at every step.
func (s *Sched) Choices() []int {
	out := make([]int, len(s.Steps))
	for i, st := range s.Steps {
		out[i] = st.Choice
	}
	return out
}

// Yield marks one iteration of a polling/spin loop (fair scheduling: see OpYield).
func Yield(label string) {
	if s := Active(); s != nil {
		s.Point(OpYield, label, nil)
	}
}

// Hook is the entry used by explicit hook points (verifhook.Point) and harness steps.
func Hook(label string) {
	if s := Active(); s != nil {
		s.Point(OpHook, label, nil)
	}
}

var pcLabels sync.Map // uintptr -> string

// CallerLabel returns "pkg.Func" of the caller `skip` frames above the shim method.
func CallerLabel(skip int) string {
	var pcs [1]uintptr
	if runtime.Callers(skip+1, pcs[:]) == 0 {
		return "?"
	}
	if v, ok := pcLabels.Load(pcs[0]); ok {
		return v.(string)
	}
	f, _ := runtime.CallersFrames(pcs[:]).Next()
	name := f.Function
	if k := strings.LastIndex(name, "/"); k >= 0 {
		name = name[k+1:]
	}
	pcLabels.Store(pcs[0], name)
	return name
}
