package vrt

import (
	"runtime"
	"strconv"
	"unsafe"
)

func getg() uintptr

// goidOff is the offset of g.goid, discovered at init by comparing with the id printed by
// runtime.Stack in two goroutines; 0 = unknown (slow path).
var goidOff uintptr

func slowGoid() int64 {
	var buf [64]byte
	n := runtime.Stack(buf[:], false)
	s := buf[10:n]
	i := 0
	for i < len(s) && s[i] != ' ' {
		i++
	}
	id, _ := strconv.ParseInt(string(s[:i]), 10, 64)
	return id
}

func candidates() map[uintptr]bool {
	g := getg()
	id := slowGoid()
	out := map[uintptr]bool{}
	for off := uintptr(0); off < 512; off += 8 {
		if *(*int64)(unsafe.Pointer(g + off)) == id {
			out[off] = true
		}
	}
	return out
}

func init() {
	a := candidates()
	ch := make(chan map[uintptr]bool)
	go func() { ch <- candidates() }()
	b := <-ch
	go func() { ch <- candidates() }()
	c := <-ch
	var found []uintptr
	for off := range a {
		if b[off] && c[off] {
			found = append(found, off)
		}
	}
	if len(found) == 1 {
		goidOff = found[0]
	}
}

func goid() int64 {
	if goidOff != 0 {
		return *(*int64)(unsafe.Pointer(getg() + goidOff))
	}
	return slowGoid()
}

// FastGoid reports whether the fast goroutine-id path is active (for the self-test).
func FastGoid() bool { return goidOff != 0 }

// GoID returns the id of the calling goroutine.
func GoID() int64 { return goid() }
