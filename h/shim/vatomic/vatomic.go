// Package vatomic is a drop-in replacement of sync/atomic for repo files rewritten by the /verif
// overlay: every operation is a scheduling point followed by the real atomic.
package vatomic

import (
	"sync/atomic"
	"unsafe"

	"github.com/influxdata/influxdb/v2/pkg/verifrt/vrt"
)

func pt(op string) {
	if s := vrt.Active(); s != nil {
		s.Point(vrt.OpAtomic, vrt.CallerLabel(3)+":"+op, nil)
	}
}

func AddInt32(p *int32, d int32) int32       { pt("AddInt32"); return atomic.AddInt32(p, d) }
func AddInt64(p *int64, d int64) int64       { pt("AddInt64"); return atomic.AddInt64(p, d) }
func AddUint32(p *uint32, d uint32) uint32   { pt("AddUint32"); return atomic.AddUint32(p, d) }
func AddUint64(p *uint64, d uint64) uint64   { pt("AddUint64"); return atomic.AddUint64(p, d) }
func LoadInt32(p *int32) int32               { pt("LoadInt32"); return atomic.LoadInt32(p) }
func LoadInt64(p *int64) int64               { pt("LoadInt64"); return atomic.LoadInt64(p) }
func LoadUint32(p *uint32) uint32            { pt("LoadUint32"); return atomic.LoadUint32(p) }
func LoadUint64(p *uint64) uint64            { pt("LoadUint64"); return atomic.LoadUint64(p) }
func LoadPointer(p *unsafe.Pointer) unsafe.Pointer { pt("LoadPointer"); return atomic.LoadPointer(p) }
func StoreInt32(p *int32, v int32)           { pt("StoreInt32"); atomic.StoreInt32(p, v) }
func StoreInt64(p *int64, v int64)           { pt("StoreInt64"); atomic.StoreInt64(p, v) }
func StoreUint32(p *uint32, v uint32)        { pt("StoreUint32"); atomic.StoreUint32(p, v) }
func StoreUint64(p *uint64, v uint64)        { pt("StoreUint64"); atomic.StoreUint64(p, v) }
func StorePointer(p *unsafe.Pointer, v unsafe.Pointer) { pt("StorePointer"); atomic.StorePointer(p, v) }
func SwapInt32(p *int32, v int32) int32      { pt("SwapInt32"); return atomic.SwapInt32(p, v) }
func SwapInt64(p *int64, v int64) int64      { pt("SwapInt64"); return atomic.SwapInt64(p, v) }
func SwapUint32(p *uint32, v uint32) uint32  { pt("SwapUint32"); return atomic.SwapUint32(p, v) }
func SwapUint64(p *uint64, v uint64) uint64  { pt("SwapUint64"); return atomic.SwapUint64(p, v) }
func CompareAndSwapInt32(p *int32, o, n int32) bool { pt("CASInt32"); return atomic.CompareAndSwapInt32(p, o, n) }
func CompareAndSwapInt64(p *int64, o, n int64) bool { pt("CASInt64"); return atomic.CompareAndSwapInt64(p, o, n) }
func CompareAndSwapUint32(p *uint32, o, n uint32) bool { pt("CASUint32"); return atomic.CompareAndSwapUint32(p, o, n) }
func CompareAndSwapUint64(p *uint64, o, n uint64) bool { pt("CASUint64"); return atomic.CompareAndSwapUint64(p, o, n) }
func CompareAndSwapPointer(p *unsafe.Pointer, o, n unsafe.Pointer) bool {
	pt("CASPointer")
	return atomic.CompareAndSwapPointer(p, o, n)
}

type Int32 struct{ v atomic.Int32 }

func (x *Int32) Load() int32           { pt("Int32.Load"); return x.v.Load() }
func (x *Int32) Store(v int32)         { pt("Int32.Store"); x.v.Store(v) }
func (x *Int32) Add(d int32) int32     { pt("Int32.Add"); return x.v.Add(d) }
func (x *Int32) Swap(v int32) int32    { pt("Int32.Swap"); return x.v.Swap(v) }
func (x *Int32) CompareAndSwap(o, n int32) bool { pt("Int32.CAS"); return x.v.CompareAndSwap(o, n) }

type Int64 struct{ v atomic.Int64 }

func (x *Int64) Load() int64           { pt("Int64.Load"); return x.v.Load() }
func (x *Int64) Store(v int64)         { pt("Int64.Store"); x.v.Store(v) }
func (x *Int64) Add(d int64) int64     { pt("Int64.Add"); return x.v.Add(d) }
func (x *Int64) Swap(v int64) int64    { pt("Int64.Swap"); return x.v.Swap(v) }
func (x *Int64) CompareAndSwap(o, n int64) bool { pt("Int64.CAS"); return x.v.CompareAndSwap(o, n) }

type Uint32 struct{ v atomic.Uint32 }

func (x *Uint32) Load() uint32          { pt("Uint32.Load"); return x.v.Load() }
func (x *Uint32) Store(v uint32)        { pt("Uint32.Store"); x.v.Store(v) }
func (x *Uint32) Add(d uint32) uint32   { pt("Uint32.Add"); return x.v.Add(d) }
func (x *Uint32) Swap(v uint32) uint32  { pt("Uint32.Swap"); return x.v.Swap(v) }
func (x *Uint32) CompareAndSwap(o, n uint32) bool { pt("Uint32.CAS"); return x.v.CompareAndSwap(o, n) }

type Uint64 struct{ v atomic.Uint64 }

func (x *Uint64) Load() uint64          { pt("Uint64.Load"); return x.v.Load() }
func (x *Uint64) Store(v uint64)        { pt("Uint64.Store"); x.v.Store(v) }
func (x *Uint64) Add(d uint64) uint64   { pt("Uint64.Add"); return x.v.Add(d) }
func (x *Uint64) Swap(v uint64) uint64  { pt("Uint64.Swap"); return x.v.Swap(v) }
func (x *Uint64) CompareAndSwap(o, n uint64) bool { pt("Uint64.CAS"); return x.v.CompareAndSwap(o, n) }

type Bool struct{ v atomic.Bool }

func (x *Bool) Load() bool         { pt("Bool.Load"); return x.v.Load() }
func (x *Bool) Store(v bool)       { pt("Bool.Store"); x.v.Store(v) }
func (x *Bool) Swap(v bool) bool   { pt("Bool.Swap"); return x.v.Swap(v) }
func (x *Bool) CompareAndSwap(o, n bool) bool { pt("Bool.CAS"); return x.v.CompareAndSwap(o, n) }

type Value struct{ v atomic.Value }

func (x *Value) Load() any        { pt("Value.Load"); return x.v.Load() }
func (x *Value) Store(v any)      { pt("Value.Store"); x.v.Store(v) }
func (x *Value) Swap(v any) any   { pt("Value.Swap"); return x.v.Swap(v) }
func (x *Value) CompareAndSwap(o, n any) bool { pt("Value.CAS"); return x.v.CompareAndSwap(o, n) }

type Pointer[T any] struct{ v atomic.Pointer[T] }

func (x *Pointer[T]) Load() *T      { pt("Pointer.Load"); return x.v.Load() }
func (x *Pointer[T]) Store(v *T)    { pt("Pointer.Store"); x.v.Store(v) }
func (x *Pointer[T]) Swap(v *T) *T  { pt("Pointer.Swap"); return x.v.Swap(v) }
func (x *Pointer[T]) CompareAndSwap(o, n *T) bool { pt("Pointer.CAS"); return x.v.CompareAndSwap(o, n) }
