// C37: sorted timestamp array algebra is set algebra.
//
// Bounded-exhaustive enumeration of every sorted, deduplicated array (pair) over a small
// timestamp domain, for every generated type of tsdb/cursors.*Array and tsm1.*Values, through
// Merge / Exclude / Include / FindRange (and Deduplicate on every short unsorted sequence),
// compared with set algebra on maps written from the property statement.
package c37

import (
	"encoding/json"
	"fmt"
	"math"
	"sort"
	"strconv"
	"strings"
	"testing"

	"github.com/influxdata/influxdb/v2/tsdb/cursors"
	"github.com/influxdata/influxdb/v2/tsdb/engine/tsm1"
	"verif/h/vlib"
)

// pt is one point of the model: timestamp + integer tag (which side / which position it came from).
type pt struct {
	T int64
	V int
}

// obs is one observed point: timestamp + printed value in the value type's own domain.
type obs struct {
	T int64
	V string
}

// impl adapts one generated type to the model.
type impl struct {
	name    string
	show    func(tag int) string // how tag looks after a trip through the value type
	merge   func(a, b []pt) ([]obs, string)
	exclude func(a []pt, min, max int64) ([]obs, string)
	include func(a []pt, min, max int64) ([]obs, string) // nil: type has no Include
	find    func(a []pt, min, max int64) (int, int)
	dedup   func(a []pt) ([]obs, string) // nil: type has no Deduplicate
}

// ---- adapters -----------------------------------------------------------------------------

func arrImpl[V any, A any](name string, conv func(int) V,
	mk func([]int64, []V) *A, get func(*A) ([]int64, []V),
	merge func(*A, *A), excl func(*A, int64, int64), incl func(*A, int64, int64),
	find func(*A, int64, int64) (int, int)) impl {
	build := func(p []pt) *A {
		// spare capacity on purpose: in-place algorithms must not depend on cap==len
		ts := make([]int64, len(p), len(p)+2)
		vs := make([]V, len(p), len(p)+2)
		for i, x := range p {
			ts[i], vs[i] = x.T, conv(x.V)
		}
		return mk(ts, vs)
	}
	read := func(a *A) ([]obs, string) {
		ts, vs := get(a)
		if len(ts) != len(vs) {
			return nil, fmt.Sprintf("len(Timestamps)=%d != len(Values)=%d", len(ts), len(vs))
		}
		out := make([]obs, len(ts))
		for i := range ts {
			out[i] = obs{ts[i], fmt.Sprint(vs[i])}
		}
		return out, ""
	}
	im := impl{name: name, show: func(t int) string { return fmt.Sprint(conv(t)) }}
	im.merge = func(a, b []pt) ([]obs, string) { x, y := build(a), build(b); merge(x, y); return read(x) }
	im.exclude = func(a []pt, min, max int64) ([]obs, string) { x := build(a); excl(x, min, max); return read(x) }
	im.include = func(a []pt, min, max int64) ([]obs, string) { x := build(a); incl(x, min, max); return read(x) }
	im.find = func(a []pt, min, max int64) (int, int) { return find(build(a), min, max) }
	return im
}

func valImpl[E tsm1.Value, S ~[]E](name string, mkE func(int64, int) E,
	merge func(S, S) S, excl func(S, int64, int64) S, incl func(S, int64, int64) S,
	find func(S, int64, int64) (int, int), dedup func(S) S) impl {
	build := func(p []pt) S {
		s := make(S, len(p), len(p)+2)
		for i, x := range p {
			s[i] = mkE(x.T, x.V)
		}
		return s
	}
	read := func(s S) ([]obs, string) {
		out := make([]obs, len(s))
		for i, e := range s {
			out[i] = obs{e.UnixNano(), fmt.Sprint(e.Value())}
		}
		return out, ""
	}
	return impl{
		name:    name,
		show:    func(t int) string { return fmt.Sprint(mkE(0, t).Value()) },
		merge:   func(a, b []pt) ([]obs, string) { return read(merge(build(a), build(b))) },
		exclude: func(a []pt, min, max int64) ([]obs, string) { return read(excl(build(a), min, max)) },
		include: func(a []pt, min, max int64) ([]obs, string) { return read(incl(build(a), min, max)) },
		find:    func(a []pt, min, max int64) (int, int) { return find(build(a), min, max) },
		dedup:   func(a []pt) ([]obs, string) { return read(dedup(build(a))) },
	}
}

func cF(t int) float64 { return float64(t) + 0.5 }
func cI(t int) int64   { return -int64(t) }
func cU(t int) uint64  { return uint64(t) }
func cS(t int) string  { return "v" + strconv.Itoa(t) }
func cB(t int) bool    { return t >= 200 } // booleans can only carry the side

func impls() []impl {
	l := []impl{
		arrImpl("cursors.FloatArray", cF,
			func(t []int64, v []float64) *cursors.FloatArray { return &cursors.FloatArray{Timestamps: t, Values: v} },
			func(a *cursors.FloatArray) ([]int64, []float64) { return a.Timestamps, a.Values },
			(*cursors.FloatArray).Merge, (*cursors.FloatArray).Exclude, (*cursors.FloatArray).Include, (*cursors.FloatArray).FindRange),
		arrImpl("cursors.IntegerArray", cI,
			func(t []int64, v []int64) *cursors.IntegerArray { return &cursors.IntegerArray{Timestamps: t, Values: v} },
			func(a *cursors.IntegerArray) ([]int64, []int64) { return a.Timestamps, a.Values },
			(*cursors.IntegerArray).Merge, (*cursors.IntegerArray).Exclude, (*cursors.IntegerArray).Include, (*cursors.IntegerArray).FindRange),
		arrImpl("cursors.UnsignedArray", cU,
			func(t []int64, v []uint64) *cursors.UnsignedArray { return &cursors.UnsignedArray{Timestamps: t, Values: v} },
			func(a *cursors.UnsignedArray) ([]int64, []uint64) { return a.Timestamps, a.Values },
			(*cursors.UnsignedArray).Merge, (*cursors.UnsignedArray).Exclude, (*cursors.UnsignedArray).Include, (*cursors.UnsignedArray).FindRange),
		arrImpl("cursors.StringArray", cS,
			func(t []int64, v []string) *cursors.StringArray { return &cursors.StringArray{Timestamps: t, Values: v} },
			func(a *cursors.StringArray) ([]int64, []string) { return a.Timestamps, a.Values },
			(*cursors.StringArray).Merge, (*cursors.StringArray).Exclude, (*cursors.StringArray).Include, (*cursors.StringArray).FindRange),
		arrImpl("cursors.BooleanArray", cB,
			func(t []int64, v []bool) *cursors.BooleanArray { return &cursors.BooleanArray{Timestamps: t, Values: v} },
			func(a *cursors.BooleanArray) ([]int64, []bool) { return a.Timestamps, a.Values },
			(*cursors.BooleanArray).Merge, (*cursors.BooleanArray).Exclude, (*cursors.BooleanArray).Include, (*cursors.BooleanArray).FindRange),

		valImpl("tsm1.Values", func(t int64, v int) tsm1.Value {
			// the untyped variant carries a mix of concrete value types
			if v%2 == 0 {
				return tsm1.NewIntegerValue(t, cI(v))
			}
			return tsm1.NewStringValue(t, cS(v))
		}, tsm1.Values.Merge, tsm1.Values.Exclude, tsm1.Values.Include, tsm1.Values.FindRange, tsm1.Values.Deduplicate),
		valImpl("tsm1.FloatValues", func(t int64, v int) tsm1.FloatValue { return tsm1.NewFloatValue(t, cF(v)).(tsm1.FloatValue) },
			tsm1.FloatValues.Merge, tsm1.FloatValues.Exclude, tsm1.FloatValues.Include, tsm1.FloatValues.FindRange, tsm1.FloatValues.Deduplicate),
		valImpl("tsm1.IntegerValues", func(t int64, v int) tsm1.IntegerValue { return tsm1.NewIntegerValue(t, cI(v)).(tsm1.IntegerValue) },
			tsm1.IntegerValues.Merge, tsm1.IntegerValues.Exclude, tsm1.IntegerValues.Include, tsm1.IntegerValues.FindRange, tsm1.IntegerValues.Deduplicate),
		valImpl("tsm1.UnsignedValues", func(t int64, v int) tsm1.UnsignedValue { return tsm1.NewUnsignedValue(t, cU(v)).(tsm1.UnsignedValue) },
			tsm1.UnsignedValues.Merge, tsm1.UnsignedValues.Exclude, tsm1.UnsignedValues.Include, tsm1.UnsignedValues.FindRange, tsm1.UnsignedValues.Deduplicate),
		valImpl("tsm1.StringValues", func(t int64, v int) tsm1.StringValue { return tsm1.NewStringValue(t, cS(v)).(tsm1.StringValue) },
			tsm1.StringValues.Merge, tsm1.StringValues.Exclude, tsm1.StringValues.Include, tsm1.StringValues.FindRange, tsm1.StringValues.Deduplicate),
		valImpl("tsm1.BooleanValues", func(t int64, v int) tsm1.BooleanValue { return tsm1.NewBooleanValue(t, cB(v)).(tsm1.BooleanValue) },
			tsm1.BooleanValues.Merge, tsm1.BooleanValues.Exclude, tsm1.BooleanValues.Include, tsm1.BooleanValues.FindRange, tsm1.BooleanValues.Deduplicate),
	}
	// TimestampArray: timestamps only; it has FindRange and Exclude (no Merge / Include).
	tsBuild := func(p []pt) *cursors.TimestampArray {
		ts := make([]int64, len(p), len(p)+2)
		for i, x := range p {
			ts[i] = x.T
		}
		return &cursors.TimestampArray{Timestamps: ts}
	}
	l = append(l, impl{
		name: "cursors.TimestampArray",
		show: func(int) string { return "" },
		exclude: func(a []pt, min, max int64) ([]obs, string) {
			x := tsBuild(a)
			x.Exclude(min, max)
			out := make([]obs, len(x.Timestamps))
			for i, t := range x.Timestamps {
				out[i] = obs{t, ""}
			}
			return out, ""
		},
		find: func(a []pt, min, max int64) (int, int) { return tsBuild(a).FindRange(min, max) },
	})
	return l
}

// ---- reference model (set algebra on maps, from the statement) --------------------------------

func render(im *impl, m map[int64]int) []obs {
	out := make([]obs, 0, len(m))
	for t, v := range m {
		out = append(out, obs{t, im.show(v)})
	}
	sort.Slice(out, func(i, j int) bool { return out[i].T < out[j].T })
	return out
}

func refMerge(im *impl, a, b []pt) []obs {
	m := map[int64]int{}
	for _, p := range a {
		m[p.T] = p.V
	}
	for _, p := range b { // second array wins on equal timestamps
		m[p.T] = p.V
	}
	return render(im, m)
}

func refFilter(im *impl, a []pt, min, max int64, keepInside bool) []obs {
	m := map[int64]int{}
	for _, p := range a {
		inside := min <= p.T && p.T <= max // closed range; empty when min > max
		if inside == keepInside {
			m[p.T] = p.V
		}
	}
	return render(im, m)
}

func refDedup(im *impl, a []pt) []obs {
	m := map[int64]int{}
	for _, p := range a { // the value that appears last is kept
		m[p.T] = p.V
	}
	return render(im, m)
}

// refFind: insertion positions (number of elements < bound) of min and max; (-1,-1) is what the
// documentation promises when the array is empty or lies completely outside [min,max]. For
// min > max the documentation is silent: both answers are accepted (strict=false).
func refFind(a []pt, min, max int64) (lo, hi int, outside, strict bool) {
	for _, p := range a {
		if p.T < min {
			lo++
		}
		if p.T < max {
			hi++
		}
	}
	if min > max {
		return lo, hi, true, false
	}
	if len(a) == 0 || a[len(a)-1].T < min || a[0].T > max {
		return lo, hi, true, true
	}
	return lo, hi, false, true
}

func eq(a, b []obs) bool {
	if len(a) != len(b) {
		return false
	}
	for i := range a {
		if a[i] != b[i] {
			return false
		}
	}
	return true
}

func showObs(o []obs) string {
	var sb strings.Builder
	sb.WriteByte('[')
	for i, x := range o {
		if i > 0 {
			sb.WriteByte(' ')
		}
		fmt.Fprintf(&sb, "%d:%s", x.T, x.V)
	}
	sb.WriteByte(']')
	return sb.String()
}

// ---- cases ------------------------------------------------------------------------------------

// Case is the replayable form: everything needed to rebuild the inputs.
type Case struct {
	Type string  `json:"type"`
	Op   string  `json:"op"` // merge | exclude | include | findrange | dedup
	A    []int64 `json:"a"`  // timestamps of the (first) array; for dedup: the unsorted sequence
	B    []int64 `json:"b,omitempty"`
	Min  int64   `json:"min"`
	Max  int64   `json:"max"`
}

func side(ts []int64, base int) []pt {
	out := make([]pt, len(ts))
	for i, t := range ts {
		out[i] = pt{t, base + i}
	}
	return out
}

func mergeShape(a, b []int64) string {
	switch {
	case len(a) == 0 && len(b) == 0:
		return "both-empty"
	case len(a) == 0:
		return "a-empty"
	case len(b) == 0:
		return "b-empty"
	case a[len(a)-1] < b[0]:
		return "a-before-b"
	case b[len(b)-1] < a[0]:
		return "b-before-a"
	}
	for _, x := range a {
		for _, y := range b {
			if x == y {
				return "overlap-equal-ts"
			}
		}
	}
	return "interleaved"
}

func rangeShape(min, max int64) string {
	switch {
	case min > max:
		return "min>max"
	case min == math.MinInt64 && max == math.MaxInt64:
		return "full"
	case min == math.MinInt64:
		return "min=MinInt64"
	case max == math.MaxInt64:
		return "max=MaxInt64"
	case min == max:
		return "min=max"
	}
	return "plain"
}

// run executes one case; returns violation kind ("" = ok), outcome class, and a deterministic observation.
func run(im *impl, cs Case) (kind, outcome, observation string) {
	var got, want []obs
	var lenErr string
	var shape string
	panicked, desc := vlib.Guard(func() {
		switch cs.Op {
		case "merge":
			a, b := side(cs.A, 100), side(cs.B, 200)
			shape = mergeShape(cs.A, cs.B)
			want = refMerge(im, a, b)
			got, lenErr = im.merge(a, b)
		case "exclude":
			a := side(cs.A, 100)
			shape = rangeShape(cs.Min, cs.Max)
			want = refFilter(im, a, cs.Min, cs.Max, false)
			got, lenErr = im.exclude(a, cs.Min, cs.Max)
		case "include":
			a := side(cs.A, 100)
			shape = rangeShape(cs.Min, cs.Max)
			want = refFilter(im, a, cs.Min, cs.Max, true)
			got, lenErr = im.include(a, cs.Min, cs.Max)
		case "dedup":
			a := side(cs.A, 197) // tags straddle 200 so that booleans distinguish early from late elements
			shape = "sorted-unique"
			for i := 1; i < len(cs.A); i++ {
				if cs.A[i-1] >= cs.A[i] {
					shape = "needs-work"
				}
			}
			want = refDedup(im, a)
			got, lenErr = im.dedup(a)
		}
	})
	if cs.Op == "findrange" {
		a := side(cs.A, 100)
		shape = rangeShape(cs.Min, cs.Max)
		lo, hi, outside, strict := refFind(a, cs.Min, cs.Max)
		var g1, g2 int
		panicked, desc = vlib.Guard(func() { g1, g2 = im.find(a, cs.Min, cs.Max) })
		if panicked {
			return "panic/" + lastSeg(desc), "findrange:panic", desc
		}
		observation = fmt.Sprintf("%s.FindRange(%d,%d) on %v = (%d,%d); insertion positions (%d,%d) outside=%v", im.name, cs.Min, cs.Max, cs.A, g1, g2, lo, hi, outside)
		okPos := g1 == lo && g2 == hi
		okNeg := g1 == -1 && g2 == -1
		ok := false
		switch {
		case !strict:
			ok = okPos || okNeg
		case outside:
			ok = okNeg
		default:
			ok = okPos
		}
		oc := "findrange:positions"
		if okNeg {
			oc = "findrange:outside(-1,-1)"
		}
		if !ok {
			return "wrong-positions/" + shape, oc, observation
		}
		return "", oc + "/" + shape, observation
	}
	if panicked {
		return "panic/" + lastSeg(desc), cs.Op + ":panic", desc
	}
	observation = fmt.Sprintf("%s.%s a=%v b=%v min=%d max=%d -> %s; set algebra says %s", im.name, cs.Op, cs.A, cs.B, cs.Min, cs.Max, showObs(got), showObs(want))
	if lenErr != "" {
		return "length-mismatch/" + shape, cs.Op + ":bad", observation + " " + lenErr
	}
	size := "some"
	switch {
	case len(want) == 0:
		size = "empty"
	case cs.Op != "merge" && len(want) == len(cs.A):
		size = "all"
	}
	if !eq(got, want) {
		return "wrong-result/" + shape, cs.Op + ":bad", observation
	}
	return "", cs.Op + ":" + shape + "/" + size, observation
}

func lastSeg(desc string) string {
	if i := strings.LastIndex(desc, "@ "); i >= 0 {
		return desc[i+2:]
	}
	return "?"
}

// subsets of dom in simplest-first order (by size, then lexicographic by mask).
func subsets(dom []int64) [][]int64 {
	n := len(dom)
	var out [][]int64
	for size := 0; size <= n; size++ {
		for m := 0; m < 1<<n; m++ {
			cnt := 0
			for x := m; x != 0; x &= x - 1 {
				cnt++
			}
			if cnt != size {
				continue
			}
			s := []int64{}
			for i := 0; i < n; i++ {
				if m&(1<<i) != 0 {
					s = append(s, dom[i])
				}
			}
			out = append(out, s)
		}
	}
	return out
}

type domain struct {
	name   string
	ts     []int64 // timestamp candidates (sorted)
	bounds []int64 // range bounds
}

func seqRange(lo, hi int64) []int64 {
	var o []int64
	for i := lo; i <= hi; i++ {
		o = append(o, i)
	}
	return o
}

func domains(thorough bool) []domain {
	n := int64(5)
	ext := []int64{math.MinInt64, math.MinInt64 + 1, -1, 0, 1, math.MaxInt64 - 1, math.MaxInt64}
	if thorough {
		n = 8
		ext = []int64{math.MinInt64, math.MinInt64 + 1, math.MinInt64 + 2, -1, 0, 1, math.MaxInt64 - 2, math.MaxInt64 - 1, math.MaxInt64}
	}
	small := append(append([]int64{math.MinInt64}, seqRange(0, n+1)...), math.MaxInt64)
	return []domain{
		{"small", seqRange(1, n), small},
		{"extreme", ext, ext},
	}
}

func TestCheck(t *testing.T) {
	ims := impls()
	byName := map[string]*impl{}
	for i := range ims {
		byName[ims[i].name] = &ims[i]
	}
	vlib.Main(t, &vlib.Check{
		ID: "C37", Level: "exploration",
		Rule: "for each of the 12 generated types (cursors.{Float,Integer,Unsigned,String,Boolean,Timestamp}Array, tsm1.{,Float,Integer,Unsigned,String,Boolean}Values): " +
			"every ordered pair of sorted deduplicated arrays over timestamps {1..5} (quick; {1..8} thorough) and over the extreme domain {MinInt64,MinInt64+1,-1,0,1,MaxInt64-1,MaxInt64} (thorough: 9 points) through Merge (values tagged by side and position); " +
			"every such array x every (min,max) in ({MinInt64,0..n+1,MaxInt64}^2 resp. extreme^2, including min>max) through Exclude, Include, FindRange; " +
			"every sequence of length<=5 over timestamps {1..4} (thorough: length<=7 over {1..5}) through tsm1 Deduplicate; oracle = set algebra on maps (second wins on merge, closed range, last wins on dedup, lower-bound insertion positions / documented (-1,-1)); " +
			"every case is distinct by construction; non-trivial = at least one non-empty input array",
		Assumptions: []string{
			"the value payload does not influence the algorithms (values are opaque tags; booleans can only carry the side)",
			"FindRange with min>max: the documentation is silent, both (-1,-1) and the insertion positions are accepted; the effect of min>max is checked through Exclude/Include (empty closed range)",
			"aliasing of the input arrays' backing storage after Merge is not part of the statement and not checked",
		},
		QuickBudgetS: 60, ThoroughBudgetS: 800,
		Run: func(c *vlib.Ctx) {
			var idx int64
			do := func(im *impl, cs Case, nontrivial bool) {
				kind, oc, ob := run(im, cs)
				c.Eval(1)
				if nontrivial {
					c.NontrivialN(1)
				}
				c.Outcome(oc)
				if kind != "" {
					c.Violation(vlib.JoinSig(cs.Op, im.name, kind), ob, cs)
				} else if nontrivial && c.WantSample() && idx%977 == 0 {
					c.Sample(map[string]any{"case": cs, "observed": ob})
				}
			}
			for _, d := range domains(c.Thorough()) {
				subs := subsets(d.ts)
				// Merge: all ordered pairs
				for _, a := range subs {
					if c.Expired() {
						c.Cap("budget expired during merge pairs of domain " + d.name)
						return
					}
					for _, b := range subs {
						idx++
						if !c.Mine(idx) {
							continue
						}
						for i := range ims {
							if ims[i].merge == nil {
								continue
							}
							do(&ims[i], Case{Type: ims[i].name, Op: "merge", A: a, B: b}, len(a)+len(b) > 0)
						}
					}
				}
				// range operations
				for _, a := range subs {
					if c.Expired() {
						c.Cap("budget expired during range operations of domain " + d.name)
						return
					}
					for _, mn := range d.bounds {
						for _, mx := range d.bounds {
							idx++
							if !c.Mine(idx) {
								continue
							}
							for i := range ims {
								im := &ims[i]
								do(im, Case{Type: im.name, Op: "exclude", A: a, Min: mn, Max: mx}, len(a) > 0)
								if im.include != nil {
									do(im, Case{Type: im.name, Op: "include", A: a, Min: mn, Max: mx}, len(a) > 0)
								}
								do(im, Case{Type: im.name, Op: "findrange", A: a, Min: mn, Max: mx}, len(a) > 0)
							}
						}
					}
				}
			}
			// Deduplicate: all sequences, shortest first
			k, maxLen := int64(4), 5
			if c.Thorough() {
				k, maxLen = 5, 7
			}
			for l := 0; l <= maxLen; l++ {
				total := int64(1)
				for i := 0; i < l; i++ {
					total *= k
				}
				for code := int64(0); code < total; code++ {
					idx++
					if !c.Mine(idx) {
						continue
					}
					seq := make([]int64, l)
					x := code
					for i := l - 1; i >= 0; i-- {
						seq[i] = 1 + x%k
						x /= k
					}
					for i := range ims {
						if ims[i].dedup == nil {
							continue
						}
						do(&ims[i], Case{Type: ims[i].name, Op: "dedup", A: seq}, l > 0)
					}
				}
				if c.Expired() {
					c.Cap(fmt.Sprintf("budget expired during dedup sequences of length %d", l))
					return
				}
			}
		},
		Replay: func(c *vlib.Ctx, raw json.RawMessage) (bool, string) {
			var cs Case
			if err := json.Unmarshal(raw, &cs); err != nil {
				return false, err.Error()
			}
			im := byName[cs.Type]
			if im == nil {
				return false, "unknown type " + cs.Type
			}
			kind, _, ob := run(im, cs)
			return kind != "", ob
		},
	})
}
