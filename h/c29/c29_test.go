// C29: authorization wrappers never leak or modify unauthorized resources.
//
// Bounded-exhaustive enumeration of (caller permission set, call sequence) against the REAL authorizer wrappers
// (authorizer.{Bucket,Org,User,Authorization}Service and tenant.Authed{Bucket,Org,User}Service +
// authorization.AuthedAuthorizationService) around the real tenant / authorization services on an in-memory kv store
// with all migrations applied. The oracle is the C28 rule ("a permission grants a request only if ...") transcribed,
// applied to the raw content of the backing store.
package c29

import (
	"context"
	"encoding/json"
	"fmt"
	"sort"
	"strings"
	"testing"

	influxdb "github.com/influxdata/influxdb/v2"
	"github.com/influxdata/influxdb/v2/authorization"
	"github.com/influxdata/influxdb/v2/authorizer"
	icontext "github.com/influxdata/influxdb/v2/context"
	"github.com/influxdata/influxdb/v2/inmem"
	"github.com/influxdata/influxdb/v2/kit/platform"
	"github.com/influxdata/influxdb/v2/kit/platform/errors"
	"github.com/influxdata/influxdb/v2/kv"
	"github.com/influxdata/influxdb/v2/kv/migration/all"
	"github.com/influxdata/influxdb/v2/task/taskmodel"
	"github.com/influxdata/influxdb/v2/tenant"
	"go.uber.org/zap"
	"verif/h/vlib"
)

// ---------------------------------------------------------------------------------------------------------------
// permissions and the reference rule (C28's statement, transcribed)

// P is a permission / request in symbolic form: Org and ID are names of fixture resources ("" = absent).
type P struct {
	A   string `json:"action"`
	T   string `json:"type"`
	Org string `json:"org,omitempty"`
	ID  string `json:"id,omitempty"`
}

func (p P) String() string {
	s := p.A + ":" + p.T
	if p.Org != "" {
		s += "@" + p.Org
	}
	if p.ID != "" {
		s += "#" + p.ID
	}
	return s
}

// req is a request in id form (0 = absent).
type req struct {
	A, T    string
	Org, ID uint64
}

// grants: the permission grants the request only if the actions are equal and the permission is instance-wide, or has
// the same resource type and is type-wide, scoped to the request's organization, or names the requested resource id.
func grants(p, q req) bool {
	if p.A != q.A {
		return false
	}
	if p.T == "instance" {
		return true
	}
	if p.T != q.T {
		return false
	}
	switch {
	case p.Org == 0 && p.ID == 0:
		return true
	case p.ID == 0:
		return q.Org != 0 && q.Org == p.Org
	default:
		return q.ID != 0 && q.ID == p.ID
	}
}

func allowed(set []req, q req) bool {
	for _, p := range set {
		if grants(p, q) {
			return true
		}
	}
	return false
}

// ---------------------------------------------------------------------------------------------------------------
// fixture ids (deterministic generators) and names

const (
	org1 uint64 = 0x0a00000000000001
	org2 uint64 = 0x0a00000000000002
	s1   uint64 = 0x0b00000000000001 // _tasks of org1
	b1   uint64 = 0x0b00000000000005 // org1
	b2   uint64 = 0x0b00000000000006 // org1
	b3   uint64 = 0x0b00000000000007 // org2
	u1   uint64 = 0x0c00000000000001 // the caller's user
	u2   uint64 = 0x0c00000000000002
	t1   uint64 = 0x0d00000000000001 // org1, u1
	t2   uint64 = 0x0d00000000000002 // org2, u2
	t3   uint64 = 0x0d00000000000003 // org1, u2
	// ids that never exist
	ghostB uint64 = 0x0b0000000000ffff
)

var nameID = map[string]uint64{"org1": org1, "org2": org2, "s1": s1, "b1": b1, "b2": b2, "b3": b3, "u1": u1, "u2": u2, "t1": t1, "t2": t2, "t3": t3}

func (p P) req() req { return req{p.A, p.T, nameID[p.Org], nameID[p.ID]} }

func (p P) perm() influxdb.Permission {
	r := influxdb.Resource{Type: influxdb.ResourceType(p.T)}
	if p.Org != "" {
		o := platform.ID(nameID[p.Org])
		r.OrgID = &o
	}
	if p.ID != "" {
		i := platform.ID(nameID[p.ID])
		r.ID = &i
	}
	return influxdb.Permission{Action: influxdb.Action(p.A), Resource: r}
}

// basis of caller permissions: every scope shape the wrappers ask about, for both actions
var basis = []P{
	{"read", "buckets", "org1", ""}, {"write", "buckets", "org1", ""},
	{"read", "buckets", "org1", "b1"}, {"write", "buckets", "org1", "b1"},
	{"read", "buckets", "org2", ""},
	{"read", "orgs", "", "org1"}, {"write", "orgs", "", "org1"},
	{"read", "orgs", "", "org2"}, {"write", "orgs", "", "org2"},
	{"read", "orgs", "", ""}, {"write", "orgs", "", ""},
	{"read", "users", "", "u1"}, {"write", "users", "", "u1"},
	{"read", "users", "", "u2"}, {"write", "users", "", "u2"},
	{"read", "users", "", ""}, {"write", "users", "", ""},
	{"read", "authorizations", "org1", ""}, {"write", "authorizations", "org1", ""},
	{"read", "authorizations", "", ""}, {"write", "authorizations", "", ""},
	{"read", "instance", "", ""}, {"write", "instance", "", ""},
}

// core basis of the brief: read/write x {bucket type in org1, bucket b1, organization org2}
var core = []P{
	{"read", "buckets", "org1", ""}, {"write", "buckets", "org1", ""},
	{"read", "buckets", "org1", "b1"}, {"write", "buckets", "org1", "b1"},
	{"read", "orgs", "", "org2"}, {"write", "orgs", "", "org2"},
}

// permissions a created token may carry (all valid for a token of org1)
var grantBasis = []P{
	{"read", "buckets", "org1", "b1"}, {"write", "buckets", "org1", ""}, {"read", "orgs", "", "org1"},
}

// family D: the two permissions that open the gates in front of the list verification of CreateAuthorization for a
// token of org1 / user u1 (create authorizations in org1, write user u1); both are members of the basis.
var enabling = []P{{"write", "authorizations", "org1", ""}, {"write", "users", "", "u1"}}

func basisIndex(p P) int {
	for i, b := range basis {
		if b == p {
			return i
		}
	}
	panic("not in basis: " + p.String())
}

// listsOfLen returns every ORDERED list of exactly n entries over alpha (entries may repeat).
func listsOfLen(alpha []P, n int) [][]P {
	out := [][]P{{}}
	for d := 0; d < n; d++ {
		var next [][]P
		for _, l := range out {
			for _, p := range alpha {
				next = append(next, append(append([]P{}, l...), p))
			}
		}
		out = next
	}
	return out
}

// listShape classifies a requested permission list: "sameRes" = two entries name the same resource (type, org, id)
// with different actions, "dup" = two entries are identical.
func listShape(l []P) string {
	same, dup := false, false
	for i := range l {
		for j := i + 1; j < len(l); j++ {
			if l[i] == l[j] {
				dup = true
			} else if l[i].T == l[j].T && l[i].Org == l[j].Org && l[i].ID == l[j].ID {
				same = true
			}
		}
	}
	switch {
	case same && dup:
		return "sameRes+dup"
	case same:
		return "sameRes"
	case dup:
		return "dup"
	}
	return "distinct"
}

// callerSetsD: for every held set H of hs the callers H and H + enabling, in canonical (basis) order, without repeats.
func callerSetsD(hs [][]P) [][]P {
	var out [][]P
	seen := map[string]bool{}
	add := func(ps []P) {
		in := map[int]bool{}
		for _, p := range ps {
			in[basisIndex(p)] = true
		}
		var c []P
		for i, b := range basis {
			if in[i] {
				c = append(c, b)
			}
		}
		if k := fmt.Sprint(c); !seen[k] {
			seen[k] = true
			out = append(out, c)
		}
	}
	for _, h := range hs {
		add(h)
		add(append(append([]P{}, h...), enabling...))
	}
	return out
}

// isGrantSublist: the list is a sublist of grantBasis in its order, i.e. the same request as a family A createToken call.
func isGrantSublist(l []P) bool {
	next := 0
	for _, p := range l {
		found := false
		for ; next < len(grantBasis) && !found; next++ {
			found = grantBasis[next] == p
		}
		if !found {
			return false
		}
	}
	return true
}

// ---------------------------------------------------------------------------------------------------------------
// calls

// Op is one call through a wrapped service.
type Op struct {
	K string `json:"k"`           // method
	X string `json:"x,omitempty"` // target / argument (fixture name, "nb" = the bucket created by createBucket, ...)
	G []int  `json:"g,omitempty"` // createToken: indexes into grantBasis
	L []P    `json:"l,omitempty"` // createTokenL (family D): the requested permission list itself, in order
	F *Filt  `json:"f,omitempty"` // find calls of family C: the whole filter, field by field (X is unused then)
}

// Filt is a find filter in symbolic form: every field is the name of a fixture entity ("" = field absent). Which
// fields apply depends on the call: buckets ID/Name/Org/OrgName, orgs ID/Name/User, users ID/Name,
// tokens ID/Token/User/UserName/Org/OrgName.
type Filt struct {
	ID       string `json:"id,omitempty"`
	Name     string `json:"name,omitempty"`
	Org      string `json:"org,omitempty"`     // organization id
	OrgName  string `json:"orgName,omitempty"` // organization name
	User     string `json:"user,omitempty"`    // user id
	UserName string `json:"userName,omitempty"`
	Token    string `json:"token,omitempty"` // token string of the named fixture token
}

func (f Filt) String() string {
	var l []string
	for _, kv := range [][2]string{{"id", f.ID}, {"name", f.Name}, {"org", f.Org}, {"orgName", f.OrgName}, {"user", f.User}, {"userName", f.UserName}, {"token", f.Token}} {
		if kv[1] != "" {
			l = append(l, kv[0]+"="+kv[1])
		}
	}
	return "{" + strings.Join(l, ",") + "}"
}

func (o Op) String() string {
	s := o.K
	if o.X != "" {
		s += "(" + o.X + ")"
	}
	if o.F != nil {
		s += o.F.String()
	}
	if o.K == "createToken" {
		var g []string
		for _, i := range o.G {
			g = append(g, grantBasis[i].String())
		}
		s += "[" + strings.Join(g, ",") + "]"
	}
	if o.K == "createTokenL" {
		s += fmt.Sprint(o.L)
	}
	return s
}

func subsetsOf(n int) [][]int {
	var out [][]int
	for m := 0; m < 1<<n; m++ {
		var s []int
		for i := 0; i < n; i++ {
			if m&(1<<i) != 0 {
				s = append(s, i)
			}
		}
		out = append(out, s)
	}
	sort.SliceStable(out, func(i, j int) bool { return len(out[i]) < len(out[j]) })
	return out
}

// full alphabet
func fullAlphabet() []Op {
	ops := []Op{
		{K: "findBucketByID", X: "b1"}, {K: "findBucketByID", X: "b3"}, {K: "findBucketByID", X: "s1"}, {K: "findBucketByID", X: "nb"},
		{K: "findBucketByName", X: "org1/b2"}, {K: "findBucketByName", X: "org2/b3"}, {K: "findBucketByName", X: "org1/_tasks"},
		{K: "findBucket", X: "name=b2"}, {K: "findBucket", X: "org1/b1"},
		{K: "findBuckets", X: ""}, {K: "findBuckets", X: "org1"}, {K: "findBuckets", X: "orgname=org2"},
		{K: "findOrgByID", X: "org1"}, {K: "findOrgByID", X: "org2"}, {K: "findOrg", X: "name=org2"},
		{K: "findOrgs", X: ""}, {K: "findOrgs", X: "user=u2"},
		{K: "findUserByID", X: "u1"}, {K: "findUserByID", X: "u2"}, {K: "findUser", X: "name=u2"}, {K: "findUsers", X: ""},
		{K: "findTokenByID", X: "t1"}, {K: "findTokenByID", X: "t2"}, {K: "findTokenByToken", X: "t3"},
		{K: "findTokens", X: ""}, {K: "findTokens", X: "user=u2"}, {K: "findTokens", X: "org=org1"},
		{K: "createBucket", X: "org1"}, {K: "createBucket", X: "org2"},
		{K: "updateBucket", X: "b1"}, {K: "updateBucket", X: "b3"}, {K: "updateBucket", X: "nb"},
		{K: "deleteBucket", X: "b1"}, {K: "deleteBucket", X: "b2"}, {K: "deleteBucket", X: "b3"},
		{K: "createOrg", X: "norg"}, {K: "updateOrg", X: "org1"}, {K: "updateOrg", X: "org2"}, {K: "deleteOrg", X: "org1"}, {K: "deleteOrg", X: "org2"},
		{K: "createUser", X: "nu"}, {K: "updateUser", X: "u1"}, {K: "updateUser", X: "u2"}, {K: "deleteUser", X: "u1"}, {K: "deleteUser", X: "u2"},
		{K: "updateToken", X: "t1"}, {K: "updateToken", X: "t2"}, {K: "deleteToken", X: "t1"}, {K: "deleteToken", X: "t2"}, {K: "deleteToken", X: "t3"},
		{K: "createToken", X: "org2/u2"},
	}
	for _, g := range subsetsOf(len(grantBasis)) {
		ops = append(ops, Op{K: "createToken", X: "org1/u1", G: g})
	}
	return ops
}

// reduced alphabet for the sequences of length <= 3
func reducedAlphabet() []Op {
	return []Op{
		{K: "findBucketByID", X: "b1"}, {K: "findBucketByID", X: "b3"}, {K: "findBuckets", X: ""}, {K: "findBuckets", X: "org1"},
		{K: "findOrgByID", X: "org2"}, {K: "findOrgs", X: ""}, {K: "findUsers", X: ""}, {K: "findTokens", X: ""},
		{K: "createBucket", X: "org1"}, {K: "createBucket", X: "org2"}, {K: "updateBucket", X: "b1"}, {K: "updateBucket", X: "b3"}, {K: "updateBucket", X: "nb"},
		{K: "deleteBucket", X: "b1"}, {K: "deleteBucket", X: "b2"}, {K: "deleteBucket", X: "b3"},
		{K: "updateOrg", X: "org2"}, {K: "deleteOrg", X: "org2"}, {K: "deleteOrg", X: "org1"},
		{K: "createUser", X: "nu"}, {K: "deleteUser", X: "u2"}, {K: "createToken", X: "org1/u1", G: []int{0}}, {K: "deleteToken", X: "t1"},
	}
}

// family C: every find-by-filter call with every combination of its filter fields over the fixture's entities
// ("" = field absent), so that fields of one filter may point at different organizations / users / resources.
func filterAlphabet(tokens bool) []Op {
	var ops []Op
	if !tokens {
		bucketIDs, bucketNames := []string{"", "b1", "b2", "b3", "s1"}, []string{"", "b1", "b2", "b3", "_tasks"}
		orgs, users := []string{"", "org1", "org2"}, []string{"", "u1", "u2"}
		for _, id := range bucketIDs {
			for _, n := range bucketNames {
				for _, oid := range orgs {
					for _, on := range orgs {
						for _, k := range []string{"findBuckets", "findBucket"} {
							ops = append(ops, Op{K: k, F: &Filt{ID: id, Name: n, Org: oid, OrgName: on}})
						}
					}
				}
			}
		}
		for _, id := range orgs {
			for _, n := range orgs {
				for _, u := range users {
					for _, k := range []string{"findOrgs", "findOrg"} {
						ops = append(ops, Op{K: k, F: &Filt{ID: id, Name: n, User: u}})
					}
				}
			}
		}
		for _, id := range users {
			for _, n := range users {
				for _, k := range []string{"findUsers", "findUser"} {
					ops = append(ops, Op{K: k, F: &Filt{ID: id, Name: n}})
				}
			}
		}
		return ops
	}
	toks, orgs, users := []string{"", "t1", "t2", "t3"}, []string{"", "org1", "org2"}, []string{"", "u1", "u2"}
	for _, id := range toks {
		for _, tk := range toks {
			for _, uid := range users {
				for _, un := range users {
					for _, oid := range orgs {
						for _, on := range orgs {
							ops = append(ops, Op{K: "findTokens", F: &Filt{ID: id, Token: tk, User: uid, UserName: un, Org: oid, OrgName: on}})
						}
					}
				}
			}
		}
	}
	return ops
}

func isMutation(o Op) bool { return !strings.HasPrefix(o.K, "find") }

// Case is one enumerated case.
type Case struct {
	Via   string `json:"via"` // "authorizer" or "authed"
	Perms []P    `json:"perms"`
	Seq   []Op   `json:"seq"`
}

// ---------------------------------------------------------------------------------------------------------------
// world

type seqGen struct{ next uint64 }

func (g *seqGen) ID() platform.ID { g.next++; return platform.ID(g.next) }

type noTasks struct{ taskmodel.TaskService }

func (noTasks) FindTasks(context.Context, taskmodel.TaskFilter) ([]*taskmodel.Task, int, error) {
	return nil, 0, nil
}

type services struct {
	bkt influxdb.BucketService
	org influxdb.OrganizationService
	usr influxdb.UserService
	tok influxdb.AuthorizationService
}

type pair struct{ K, V string }

// dump is the content of the whole kv store, bucket by bucket.
type dump struct {
	names []string
	data  map[string][]pair
	recs  map[string]map[uint64]rec // decoded lazily
}

func samePairs(a, b []pair) bool {
	if len(a) != len(b) {
		return false
	}
	for i := range a {
		if a[i] != b[i] {
			return false
		}
	}
	return true
}

// countingStore is the in-memory kv store with a decorator that counts the Put/Delete calls reaching it: a call
// during which no write reached the store left it byte-identical, so the full dump is only taken (and compared)
// after calls that wrote something.
type countingStore struct {
	*inmem.KVStore
	writes int
	dirty  map[string]bool // buckets written since the last clearDirty
}

func (s *countingStore) Update(ctx context.Context, fn func(kv.Tx) error) error {
	return s.KVStore.Update(ctx, func(tx kv.Tx) error { return fn(&countingTx{tx, s}) })
}

type countingTx struct {
	kv.Tx
	s *countingStore
}

func (t *countingTx) Bucket(b []byte) (kv.Bucket, error) {
	bk, err := t.Tx.Bucket(b)
	if err != nil {
		return nil, err
	}
	return &countingBucket{bk, t.s, string(b)}, nil
}

type countingBucket struct {
	kv.Bucket
	s    *countingStore
	name string
}

func (b *countingBucket) Put(k, v []byte) error {
	b.s.writes++
	b.s.dirty[b.name] = true
	return b.Bucket.Put(k, v)
}
func (b *countingBucket) Delete(k []byte) error {
	b.s.writes++
	b.s.dirty[b.name] = true
	return b.Bucket.Delete(k)
}

type world struct {
	st      *countingStore
	gens    [4]*seqGen
	raw     services
	wrapped map[string]services
	fix     *dump
	fixCtr  [4]uint64
	cur     *dump // current content (kept up to date by run)
	touched map[string]bool
}

func must(err error) {
	if err != nil {
		panic(err)
	}
}

func newWorld() *world {
	ctx := context.Background()
	mem := inmem.NewKVStore()
	must(all.Up(ctx, zap.NewNop(), mem))
	st := &countingStore{KVStore: mem, dirty: map[string]bool{}}
	w := &world{st: st, touched: map[string]bool{}}
	for i, base := range []uint64{0x0a00000000000000, 0x0b00000000000000, 0x0c00000000000000, 0x0d00000000000000} {
		w.gens[i] = &seqGen{next: base}
	}
	ts := tenant.NewStore(st)
	ts.OrgIDGen, ts.BucketIDGen, ts.IDGen = w.gens[0], w.gens[1], w.gens[2]
	ten := tenant.NewService(ts)
	ten.Apply(tenant.WithTaskService(noTasks{}))
	as, err := authorization.NewStore(ctx, st, false)
	must(err)
	as.IDGen = w.gens[3]
	tok := authorization.NewService(as, ten)
	w.raw = services{ten.BucketService, ten.OrganizationService, ten.UserService, tok}
	w.wrapped = map[string]services{
		"authorizer": {authorizer.NewBucketService(ten.BucketService), authorizer.NewOrgService(ten.OrganizationService), authorizer.NewUserService(ten.UserService), authorizer.NewAuthorizationService(tok)},
		"authed": {tenant.NewAuthedBucketService(ten.BucketService), tenant.NewAuthedOrgService(ten.OrganizationService), tenant.NewAuthedUserService(ten.UserService),
			authorization.NewAuthedAuthorizationService(tok, ten)},
	}
	// fixture, through the unwrapped services
	U1, U2 := &influxdb.User{Name: "u1", Status: influxdb.Active}, &influxdb.User{Name: "u2", Status: influxdb.Active}
	must(ten.CreateUser(ctx, U1))
	must(ten.CreateUser(ctx, U2))
	O1, O2 := &influxdb.Organization{Name: "org1"}, &influxdb.Organization{Name: "org2"}
	must(ten.CreateOrganization(ctx, O1))
	must(ten.CreateOrganization(ctx, O2))
	B1, B2, B3 := &influxdb.Bucket{OrgID: O1.ID, Name: "b1"}, &influxdb.Bucket{OrgID: O1.ID, Name: "b2"}, &influxdb.Bucket{OrgID: O2.ID, Name: "b3"}
	must(ten.CreateBucket(ctx, B1))
	must(ten.CreateBucket(ctx, B2))
	must(ten.CreateBucket(ctx, B3))
	for _, o := range []*influxdb.Organization{O1, O2} {
		for _, u := range []*influxdb.User{U1, U2} {
			must(ten.CreateUserResourceMapping(ctx, &influxdb.UserResourceMapping{UserID: u.ID, UserType: influxdb.Member, MappingType: influxdb.UserMappingType,
				ResourceType: influxdb.OrgsResourceType, ResourceID: o.ID}))
		}
	}
	rb1 := P{"read", "buckets", "org1", "b1"}.perm()
	T1 := &influxdb.Authorization{Token: "tok-t1", OrgID: O1.ID, UserID: U1.ID, Permissions: []influxdb.Permission{rb1}}
	T2 := &influxdb.Authorization{Token: "tok-t2", OrgID: O2.ID, UserID: U2.ID, Permissions: []influxdb.Permission{P{"read", "buckets", "org2", ""}.perm()}}
	T3 := &influxdb.Authorization{Token: "tok-t3", OrgID: O1.ID, UserID: U2.ID, Permissions: []influxdb.Permission{rb1}}
	must(tok.CreateAuthorization(ctx, T1))
	must(tok.CreateAuthorization(ctx, T2))
	must(tok.CreateAuthorization(ctx, T3))
	got := []uint64{uint64(O1.ID), uint64(O2.ID), uint64(B1.ID), uint64(B2.ID), uint64(B3.ID), uint64(U1.ID), uint64(U2.ID), uint64(T1.ID), uint64(T2.ID), uint64(T3.ID)}
	want := []uint64{org1, org2, b1, b2, b3, u1, u2, t1, t2, t3}
	for i := range got {
		if got[i] != want[i] {
			panic(fmt.Sprintf("fixture id %d is %x, expected %x", i, got[i], want[i]))
		}
	}
	w.fix = w.dumpAll()
	w.cur = w.fix
	st.dirty = map[string]bool{}
	for i, g := range w.gens {
		w.fixCtr[i] = g.next
	}
	return w
}

func (w *world) readBucket(tx kv.Tx, bn string) ([]pair, error) {
	b, err := tx.Bucket([]byte(bn))
	if err != nil {
		return nil, err
	}
	cur, err := b.Cursor()
	if err != nil {
		return nil, err
	}
	var ps []pair
	for k, v := cur.First(); k != nil; k, v = cur.Next() {
		ps = append(ps, pair{string(k), string(v)})
	}
	return ps, nil
}

func (w *world) dumpAll() *dump {
	ctx := context.Background()
	d := &dump{data: map[string][]pair{}}
	for _, b := range w.st.Buckets(ctx) {
		d.names = append(d.names, string(b))
	}
	sort.Strings(d.names)
	must(w.st.View(ctx, func(tx kv.Tx) error {
		for _, bn := range d.names {
			ps, err := w.readBucket(tx, bn)
			if err != nil {
				return err
			}
			d.data[bn] = ps
		}
		return nil
	}))
	return d
}

// dumpAfter returns the content after a call: the buckets no write reached are taken over from pre (they are
// byte-identical by construction), the written ones are read again. changed lists the buckets whose content differs.
func (w *world) dumpAfter(pre *dump) (post *dump, changed []string) {
	if len(w.st.dirty) == 0 {
		return pre, nil
	}
	post = &dump{names: pre.names, data: make(map[string][]pair, len(pre.data)), recs: map[string]map[uint64]rec{}}
	for k, v := range pre.data {
		post.data[k] = v
	}
	for k, v := range pre.recs {
		if !w.st.dirty[k] {
			post.recs[k] = v
		}
	}
	must(w.st.View(context.Background(), func(tx kv.Tx) error {
		for bn := range w.st.dirty {
			ps, err := w.readBucket(tx, bn)
			if err != nil {
				return err
			}
			post.data[bn] = ps
			if !samePairs(ps, pre.data[bn]) {
				changed = append(changed, bn)
			}
			w.touched[bn] = true
		}
		return nil
	}))
	sort.Strings(changed)
	w.st.dirty = map[string]bool{}
	return post, changed
}

// reset restores the fixture content of every bucket written since the last reset.
func (w *world) reset() {
	if len(w.touched) > 0 {
		must(w.st.Update(context.Background(), func(tx kv.Tx) error {
			for bn := range w.touched {
				b, err := tx.Bucket([]byte(bn))
				if err != nil {
					return err
				}
				for _, p := range w.cur.data[bn] {
					if err := b.Delete([]byte(p.K)); err != nil {
						return err
					}
				}
				for _, p := range w.fix.data[bn] {
					if err := b.Put([]byte(p.K), []byte(p.V)); err != nil {
						return err
					}
				}
			}
			return nil
		}))
		w.touched = map[string]bool{}
		w.st.dirty = map[string]bool{}
	}
	w.cur = w.fix
	for i, g := range w.gens {
		g.next = w.fixCtr[i]
	}
}

// ---------------------------------------------------------------------------------------------------------------
// the backing records, decoded from the raw dump (never through the services under test)

type rec struct {
	ID     string `json:"id"`
	OrgID  string `json:"orgID"`
	UserID string `json:"userID"`
	Name   string `json:"name"`
	Type   int    `json:"type"`
	Token  string `json:"token"`
}

func hexID(s string) uint64 {
	var v uint64
	fmt.Sscanf(s, "%x", &v)
	return v
}

func (d *dump) records(bucket string) map[uint64]rec {
	if m, ok := d.recs[bucket]; ok {
		return m
	}
	if d.recs == nil {
		d.recs = map[string]map[uint64]rec{}
	}
	m := map[uint64]rec{}
	defer func() { d.recs[bucket] = m }()
	for _, p := range d.data[bucket] {
		var r rec
		if json.Unmarshal([]byte(p.V), &r) == nil {
			m[hexID(p.K)] = r
		}
	}
	return m
}

func (d *dump) bucketByName(org uint64, name string) uint64 {
	for id, r := range d.records("bucketsv1") {
		if hexID(r.OrgID) == org && r.Name == name {
			return id
		}
	}
	return ghostB
}

// ---------------------------------------------------------------------------------------------------------------
// executing and judging one call

type finding struct{ sig, msg string }

type callResult struct {
	class    string
	findings []finding
	relevant bool // the reference allowed something (a readable resource / a permitted mutation)
}

func pid(v uint64) platform.ID { return platform.ID(v) }

func optID(name string) *platform.ID {
	if name == "" {
		return nil
	}
	i := pid(nameID[name])
	return &i
}

func optStr(s string) *string {
	if s == "" {
		return nil
	}
	return &s
}

func bucketFilter(f *Filt) influxdb.BucketFilter {
	return influxdb.BucketFilter{ID: optID(f.ID), Name: optStr(f.Name), OrganizationID: optID(f.Org), Org: optStr(f.OrgName)}
}

func orgFilter(f *Filt) influxdb.OrganizationFilter {
	return influxdb.OrganizationFilter{ID: optID(f.ID), Name: optStr(f.Name), UserID: optID(f.User)}
}

func userFilter(f *Filt) influxdb.UserFilter {
	return influxdb.UserFilter{ID: optID(f.ID), Name: optStr(f.Name)}
}

func tokenFilter(f *Filt) influxdb.AuthorizationFilter {
	af := influxdb.AuthorizationFilter{ID: optID(f.ID), UserID: optID(f.User), User: optStr(f.UserName), OrgID: optID(f.Org), Org: optStr(f.OrgName)}
	if f.Token != "" {
		af.Token = optStr("tok-" + f.Token)
	}
	return af
}

// run executes one call as the caller and judges it. pre is the content before the call.
func (w *world) run(via string, perms []P, o Op) callResult {
	var set []req
	var ips []influxdb.Permission
	for _, p := range perms {
		set = append(set, p.req())
		ips = append(ips, p.perm())
	}
	caller := &influxdb.Authorization{ID: pid(0x0d000000000000ff), UserID: pid(u1), OrgID: pid(org1), Status: influxdb.Active, Permissions: ips}
	ctx := icontext.SetAuthorizer(context.Background(), caller)
	svc := w.wrapped[via]
	pre := w.cur
	bkts, orgs, users, toks := pre.records("bucketsv1"), pre.records("organizationsv1"), pre.records("usersv1"), pre.records("authorizationsv1")

	var res callResult
	add := func(sig, f string, a ...any) {
		res.findings = append(res.findings, finding{via + "/" + sig, fmt.Sprintf("caller %v, %s: ", perms, o) + fmt.Sprintf(f, a...)})
	}
	// what the reference says about reading a backing record
	mayReadBucket := func(id uint64) (bool, bool) {
		r, ok := bkts[id]
		if !ok {
			return false, false
		}
		may := allowed(set, req{"read", "buckets", hexID(r.OrgID), id})
		if r.Type == 1 { // system bucket: readable by whoever may read its organization (the statement does not single them out: accept both grounds)
			may = may || allowed(set, req{"read", "orgs", 0, hexID(r.OrgID)})
		}
		return may, true
	}
	mayReadOrg := func(id uint64) (bool, bool) {
		_, ok := orgs[id]
		return allowed(set, req{"read", "orgs", 0, id}), ok
	}
	mayReadUser := func(id uint64) (bool, bool) {
		_, ok := users[id]
		return allowed(set, req{"read", "users", 0, id}), ok
	}
	mayReadToken := func(id uint64) (bool, bool) {
		r, ok := toks[id]
		if !ok {
			return false, false
		}
		return allowed(set, req{"read", "authorizations", hexID(r.OrgID), id}), true
	}
	returned := 0
	checkRet := func(kind string, id uint64, may func(uint64) (bool, bool)) {
		returned++
		m, exists := may(id)
		switch {
		case !exists:
			add("returned-nonexistent/"+o.K+"/"+kind, "returned %s %016x which is not in the backing store", kind, id)
		case !m:
			sys := ""
			if kind == "bucket" && bkts[id].Type == 1 {
				sys = "/system"
			}
			add("leak/"+o.K+"/"+kind+sys, "returned %s %016x which the caller may not read", kind, id)
		}
	}

	var err error
	permitted, hasVerdict := false, false                // for mutations: does the reference permit it (hasVerdict=false: no target, nothing to say)
	mayCreate, gatesOpen, firstUnheld := false, false, 0 // token create: org gate, org + user gate, 1-based position of the first requested entry the caller does not hold
	arg := o.X
	strp := func(s string) *string { return &s }
	idp := func(v uint64) *platform.ID { i := pid(v); return &i }
	resolveBucket := func(x string) uint64 {
		if x == "nb" {
			return pre.bucketByName(org1, "nb")
		}
		return nameID[x]
	}
	panicked, pdesc := vlib.Guard(func() {
		switch o.K {
		// ---- reads
		case "findBucketByID":
			var b *influxdb.Bucket
			if b, err = svc.bkt.FindBucketByID(ctx, pid(resolveBucket(arg))); err == nil && b != nil {
				checkRet("bucket", uint64(b.ID), mayReadBucket)
			}
		case "findBucketByName":
			on, bn, _ := strings.Cut(arg, "/")
			var b *influxdb.Bucket
			if b, err = svc.bkt.FindBucketByName(ctx, pid(nameID[on]), bn); err == nil && b != nil {
				checkRet("bucket", uint64(b.ID), mayReadBucket)
			}
		case "findBucket":
			f := influxdb.BucketFilter{}
			if o.F != nil {
				f = bucketFilter(o.F)
			} else if n, ok := strings.CutPrefix(arg, "name="); ok {
				f.Name = &n
			} else {
				on, bn, _ := strings.Cut(arg, "/")
				f.OrganizationID, f.Name = idp(nameID[on]), &bn
			}
			var b *influxdb.Bucket
			if b, err = svc.bkt.FindBucket(ctx, f); err == nil && b != nil {
				checkRet("bucket", uint64(b.ID), mayReadBucket)
			}
		case "findBuckets":
			f := influxdb.BucketFilter{}
			if o.F != nil {
				f = bucketFilter(o.F)
			} else if n, ok := strings.CutPrefix(arg, "orgname="); ok {
				f.Org = &n
			} else if arg != "" {
				f.OrganizationID = idp(nameID[arg])
			}
			var bs []*influxdb.Bucket
			bs, _, err = svc.bkt.FindBuckets(ctx, f)
			for _, b := range bs {
				checkRet("bucket", uint64(b.ID), mayReadBucket)
			}
		case "findOrgByID":
			var r *influxdb.Organization
			if r, err = svc.org.FindOrganizationByID(ctx, pid(nameID[arg])); err == nil && r != nil {
				checkRet("org", uint64(r.ID), mayReadOrg)
			}
		case "findOrg":
			n, _ := strings.CutPrefix(arg, "name=")
			f := influxdb.OrganizationFilter{Name: &n}
			if o.F != nil {
				f = orgFilter(o.F)
			}
			var r *influxdb.Organization
			if r, err = svc.org.FindOrganization(ctx, f); err == nil && r != nil {
				checkRet("org", uint64(r.ID), mayReadOrg)
			}
		case "findOrgs":
			f := influxdb.OrganizationFilter{}
			if o.F != nil {
				f = orgFilter(o.F)
			} else if n, ok := strings.CutPrefix(arg, "user="); ok {
				f.UserID = idp(nameID[n])
			}
			var rs []*influxdb.Organization
			rs, _, err = svc.org.FindOrganizations(ctx, f)
			for _, r := range rs {
				checkRet("org", uint64(r.ID), mayReadOrg)
			}
		case "findUserByID":
			var r *influxdb.User
			if r, err = svc.usr.FindUserByID(ctx, pid(nameID[arg])); err == nil && r != nil {
				checkRet("user", uint64(r.ID), mayReadUser)
			}
		case "findUser":
			n, _ := strings.CutPrefix(arg, "name=")
			f := influxdb.UserFilter{Name: &n}
			if o.F != nil {
				f = userFilter(o.F)
			}
			var r *influxdb.User
			if r, err = svc.usr.FindUser(ctx, f); err == nil && r != nil {
				checkRet("user", uint64(r.ID), mayReadUser)
			}
		case "findUsers":
			f := influxdb.UserFilter{}
			if o.F != nil {
				f = userFilter(o.F)
			}
			var rs []*influxdb.User
			rs, _, err = svc.usr.FindUsers(ctx, f)
			for _, r := range rs {
				checkRet("user", uint64(r.ID), mayReadUser)
			}
		case "findTokenByID":
			var r *influxdb.Authorization
			if r, err = svc.tok.FindAuthorizationByID(ctx, pid(nameID[arg])); err == nil && r != nil {
				checkRet("token", uint64(r.ID), mayReadToken)
			}
		case "findTokenByToken":
			var r *influxdb.Authorization
			if r, err = svc.tok.FindAuthorizationByToken(ctx, "tok-"+arg); err == nil && r != nil {
				checkRet("token", uint64(r.ID), mayReadToken)
			}
		case "findTokens":
			f := influxdb.AuthorizationFilter{}
			if o.F != nil {
				f = tokenFilter(o.F)
			} else if n, ok := strings.CutPrefix(arg, "user="); ok {
				f.UserID = idp(nameID[n])
			} else if n, ok := strings.CutPrefix(arg, "org="); ok {
				f.OrgID = idp(nameID[n])
			}
			var rs []*influxdb.Authorization
			rs, _, err = svc.tok.FindAuthorizations(ctx, f)
			for _, r := range rs {
				checkRet("token", uint64(r.ID), mayReadToken)
			}
		// ---- mutations
		case "createBucket":
			hasVerdict, permitted = true, allowed(set, req{"write", "buckets", nameID[arg], 0})
			err = svc.bkt.CreateBucket(ctx, &influxdb.Bucket{OrgID: pid(nameID[arg]), Name: "nb"})
		case "updateBucket", "deleteBucket":
			id := resolveBucket(arg)
			if r, ok := bkts[id]; ok {
				hasVerdict, permitted = true, allowed(set, req{"write", "buckets", hexID(r.OrgID), id})
			}
			if o.K == "updateBucket" {
				_, err = svc.bkt.UpdateBucket(ctx, pid(id), influxdb.BucketUpdate{Description: strp("changed")})
			} else {
				err = svc.bkt.DeleteBucket(ctx, pid(id))
			}
		case "createOrg":
			hasVerdict, permitted = true, allowed(set, req{"write", "orgs", 0, 0})
			err = svc.org.CreateOrganization(ctx, &influxdb.Organization{Name: arg})
		case "updateOrg", "deleteOrg":
			id := nameID[arg]
			if _, ok := orgs[id]; ok {
				hasVerdict, permitted = true, allowed(set, req{"write", "orgs", 0, id})
			}
			if o.K == "updateOrg" {
				_, err = svc.org.UpdateOrganization(ctx, pid(id), influxdb.OrganizationUpdate{Description: strp("changed")})
			} else {
				err = svc.org.DeleteOrganization(ctx, pid(id))
			}
		case "createUser":
			hasVerdict, permitted = true, allowed(set, req{"write", "users", 0, 0})
			err = svc.usr.CreateUser(ctx, &influxdb.User{Name: arg, Status: influxdb.Active})
		case "updateUser", "deleteUser":
			id := nameID[arg]
			if _, ok := users[id]; ok {
				hasVerdict, permitted = true, allowed(set, req{"write", "users", 0, id})
			}
			if o.K == "updateUser" {
				st := influxdb.Inactive
				_, err = svc.usr.UpdateUser(ctx, pid(id), influxdb.UserUpdate{Status: &st})
			} else {
				err = svc.usr.DeleteUser(ctx, pid(id))
			}
		case "createToken", "createTokenL":
			on, un, _ := strings.Cut(arg, "/")
			a := &influxdb.Authorization{Token: "tok-new", OrgID: pid(nameID[on]), UserID: pid(nameID[un]), Permissions: []influxdb.Permission{}}
			mayCreate = allowed(set, req{"write", "authorizations", nameID[on], 0})
			gatesOpen = mayCreate && allowed(set, req{"write", "users", 0, nameID[un]})
			permitted = mayCreate
			list := o.L
			if o.K == "createToken" {
				list = nil
				for _, gi := range o.G {
					list = append(list, grantBasis[gi])
				}
			}
			for i, g := range list {
				a.Permissions = append(a.Permissions, g.perm())
				if !allowed(set, g.req()) { // the caller must already hold EVERY permission being granted, wherever it stands in the list
					permitted = false
					if firstUnheld == 0 {
						firstUnheld = i + 1
					}
				}
			}
			hasVerdict = true
			err = svc.tok.CreateAuthorization(ctx, a)
		case "updateToken", "deleteToken":
			id := nameID[arg]
			if r, ok := toks[id]; ok {
				hasVerdict, permitted = true, allowed(set, req{"write", "authorizations", hexID(r.OrgID), id})
			}
			if o.K == "updateToken" {
				st := influxdb.Inactive
				_, err = svc.tok.UpdateAuthorization(ctx, pid(id), &influxdb.AuthorizationUpdate{Status: &st})
			} else {
				err = svc.tok.DeleteAuthorization(ctx, pid(id))
			}
		default:
			panic("unknown op " + o.K)
		}
	})
	post, changedBuckets := w.dumpAfter(pre)
	w.cur = post
	if panicked {
		res.class = o.K + ":panic"
		add("panic/"+o.K, "%s", pdesc)
		return res
	}
	changed := len(changedBuckets) > 0
	code := errors.ErrorCode(err)
	denied := err != nil && (code == errors.EUnauthorized || code == errors.EForbidden)
	outcome := "ok"
	if denied {
		outcome = "denied"
	} else if err != nil {
		outcome = "error"
	}
	if denied && changed {
		add("denied-call-changed-state/"+o.K, "the call was denied (%v) but the stored state changed in %v", err, changedBuckets)
	}
	listTag := "" // family D: features of the requested list
	if o.K == "createTokenL" {
		gates := "closed"
		if gatesOpen {
			gates = "open"
			res.relevant = true // the list verification is reached: the verdict depends on the entries of the list
		}
		listTag = fmt.Sprintf("/gates=%s/len=%d/shape=%s", gates, len(o.L), listShape(o.L))
	}
	if isMutation(o) {
		switch {
		case !hasVerdict:
			res.class = fmt.Sprintf("%s:%s/no-target", o.K, outcome)
		case permitted:
			res.relevant = true
			res.class = fmt.Sprintf("%s:%s/permitted", o.K, outcome) + listTag
		default:
			res.class = fmt.Sprintf("%s:%s/not-permitted", o.K, outcome) + listTag
			grantTag := ""
			if o.K == "createToken" {
				grantTag = fmt.Sprintf("/mayCreateInOrg=%v", mayCreate)
			} else if o.K == "createTokenL" {
				grantTag = fmt.Sprintf("/mayCreateInOrg=%v/len=%d/shape=%s/firstUnheld=%d", mayCreate, len(o.L), listShape(o.L), firstUnheld)
			}
			if err == nil {
				add("write-without-permission/"+o.K+grantTag, "the call succeeded although the caller may not write the target (state changed: %v)", changed)
			} else if changed && !denied {
				add("unpermitted-call-changed-state/"+o.K+grantTag, "the caller may not write the target, the call failed (%v) but the stored state changed", err)
			}
		}
	} else {
		res.relevant = returned > 0
		n := "0"
		if returned == 1 {
			n = "1"
		} else if returned > 1 {
			n = "n"
		}
		res.class = fmt.Sprintf("%s:%s/returned=%s", o.K, outcome, n)
		if changed { // not a violation of the statement (only denied calls are covered), but worth seeing in the histogram
			res.class += "/state-changed"
		}
	}
	return res
}

// runCase runs a whole case on a reset world.
func (w *world) runCase(cs Case) (classes []string, fs []finding, relevant bool) {
	w.reset()
	for _, o := range cs.Seq {
		r := w.run(cs.Via, cs.Perms, o)
		classes = append(classes, r.class)
		fs = append(fs, r.findings...)
		relevant = relevant || r.relevant
	}
	return
}

// ---------------------------------------------------------------------------------------------------------------
// enumeration

// subsets of `from` with at most k elements, smallest first
func smallSubsets(from []P, k int) [][]P {
	out := [][]P{{}}
	var rec func(start int, cur []P)
	for size := 1; size <= k; size++ {
		rec = func(start int, cur []P) {
			if len(cur) == size {
				out = append(out, append([]P{}, cur...))
				return
			}
			for i := start; i < len(from); i++ {
				rec(i+1, append(cur, from[i]))
			}
		}
		rec(0, nil)
	}
	return out
}

func allSubsets(from []P) [][]P {
	var out [][]P
	for _, idx := range subsetsOf(len(from)) {
		var s []P
		for _, i := range idx {
			s = append(s, from[i])
		}
		out = append(out, s)
	}
	return out
}

func seqsUpTo(alpha []Op, n int) [][]Op {
	var out [][]Op
	level := [][]Op{{}}
	for d := 1; d <= n; d++ {
		var next [][]Op
		for _, s := range level {
			for _, o := range alpha {
				next = append(next, append(append([]Op{}, s...), o))
			}
		}
		out = append(out, next...)
		level = next
	}
	return out
}

var vias = []string{"authorizer", "authed"}

func TestCheck(t *testing.T) {
	vlib.Main(t, &vlib.Check{
		ID: "C29", Level: "exploration", QuickBudgetS: 50, ThoroughBudgetS: 800,
		Rule: "cases = (wrapper family, caller permission set, call sequence from one fixed fixture: 2 orgs, 3 user + 4 system buckets, 2 users, 3 tokens, memberships) for both wrapper families " +
			"(authorizer.* and tenant.Authed*/authorization.AuthedAuthorizationService). Family A: every subset of size <= 2 (thorough: <= 3) of a 23-permission basis (read/write x org-scoped / id-scoped / type-wide " +
			"permissions on buckets, orgs, users, authorizations, plus instance) x every single call of the full alphabet (59 calls: find-by-id/name/filter/list, create, update, delete on buckets, orgs, users, tokens; " +
			"token create with every subset of 3 grantable permissions); thorough adds every ordered pair (mutating call, any call) for the subsets of size <= 1. Family B: all 64 subsets of the basis read/write x " +
			"{buckets of org1, bucket b1, org2} x every sequence of <= 2 (thorough: <= 3) calls of a 23-call alphabet. Family C (filter products): every single find-by-filter call with EVERY combination of its filter fields " +
			"over the fixture's entities, each field absent or naming any entity, so the fields of one filter may point at different organizations/users/resources: FindBucket(s) ID{b1,b2,b3,_tasks} x Name{b1,b2,b3,_tasks} x OrganizationID{org1,org2} x Org{org1,org2} " +
			"(2 x 225 filters), FindOrganization(s) ID x Name x UserID (2 x 27), FindUser(s) ID x Name (2 x 9), FindAuthorizations ID{t1,t2,t3} x Token x UserID x User x OrgID x Org (1296) x every caller set of size <= 1 of the 23-permission basis; " +
			"the bucket/org/user filters additionally x every pair of the 12 read permissions of the basis (thorough: all filters x every set of size <= 2 of the basis). " +
			"Family D (requested permission lists): CreateAuthorization of a token of org1/u1 through both wrappers with EVERY ORDERED list of <= 2 requested permissions over the 23-permission basis (1+23+529 lists; entries may repeat, " +
			"so every list naming one resource (same type/org/id) twice with different actions, in both orders, and every plain duplicate is inside) x callers H and H + {write authorizations of org1, write user u1} (the two permissions " +
			"that open the gates in front of the list verification) for every held set H of family A (size <= 2, thorough <= 3) and of family B (64 subsets) = 592 (thorough 3632) caller sets; thorough adds every ordered list of exactly 3 entries " +
			"(12167) x the same construction over the held sets of size <= 1 and the 64 core subsets (160 caller sets); requests identical to a family A call are skipped. Oracle = the C28 rule transcribed, applied to the raw kv content: every returned resource must be readable, " +
			"a mutation the caller may not perform on its target (for token create: may not create in the org or does not hold EVERY entry of the requested permission list, whatever its position and whatever else the list repeats) must fail, and after a denied (unauthorized/forbidden) or unpermitted " +
			"call the dump of the whole kv store is byte-identical; non-trivial = cases in which the reference allows at least one call (a resource is returned or a mutation is permitted) or, in family D, the caller may create tokens in the org and write the token's user, " +
			"so that the verdict is decided by the entries of the requested list; cases are distinct by construction",
		Assumptions: []string{
			"'may read' for a system bucket is taken as: bucket read permission OR read permission on its organization (the statement does not single system buckets out)",
			"resources returned by successful update calls are not counted as reads; completeness of find results (returning everything readable) is not part of the statement and not demanded",
			"the caller is an active token of user u1; the reference never calls influxdb.Permission.Matches / PermissionSet.Allowed",
			"a TaskService without tasks is attached so that organization delete can finish; in-memory kv transactions do not roll back",
			"family D requests entries the token service itself may reject after the wrapper let them through (permissions scoped to org2 in a token of org1, the instance type): a permitted call may fail, only an unpermitted one may not succeed; " +
				"the write-user gate of CreateAuthorization is not in the statement and is used for the non-trivial count and the outcome classes only, never for the verdict",
		},
		Run: func(c *vlib.Ctx) {
			w := newWorld()
			full, red := fullAlphabet(), reducedAlphabet()
			var idx int64
			do := func(cs Case) {
				idx++
				if !c.Mine(idx) {
					return
				}
				classes, fs, relevant := w.runCase(cs)
				c.Eval(1)
				if relevant {
					c.NontrivialN(1)
				}
				for _, cl := range classes {
					c.Outcome(cl)
				}
				for _, f := range fs {
					c.Violation(f.sig, f.msg, cs)
				}
				if relevant && len(cs.Perms) > 0 && c.WantSample() {
					c.Sample(map[string]any{"case": cs, "outcomes": classes})
				}
			}
			kA := 2
			if c.Thorough() {
				kA = 3
			}
			setsA := smallSubsets(basis, kA)
			for _, via := range vias {
				for _, ps := range setsA {
					for _, o := range full {
						do(Case{via, ps, []Op{o}})
					}
					if c.Expired() {
						c.Cap("family A singles not finished")
						return
					}
				}
			}
			// family D: token create with every ORDERED list of requested permissions over the 23-permission basis
			// (entries may repeat, so lists naming one resource twice with different actions, in both orders, and
			// plain duplicates are all inside) x the held sets of families A and B, each as it is and together with
			// the two gate-opening permissions. Requests that family A already made (same caller, list = a
			// sublist of grantBasis in its order) are skipped.
			familyD := func(held [][]P, lists [][]P, what string) bool {
				for _, via := range vias {
					for _, ps := range callerSetsD(held) {
						for _, l := range lists {
							if len(ps) <= kA && isGrantSublist(l) {
								continue
							}
							do(Case{via, ps, []Op{{K: "createTokenL", X: "org1/u1", L: l}}})
						}
						if c.Expired() {
							c.Cap(what)
							return false
						}
					}
				}
				return true
			}
			heldD := append(append([][]P{}, setsA...), allSubsets(core)...)
			listsD := append(append(listsOfLen(basis, 0), listsOfLen(basis, 1)...), listsOfLen(basis, 2)...)
			if !familyD(heldD, listsD, "family D (lists of <= 2 entries) not finished") {
				return
			}
			// family C: filter-field products (read-only single calls). Caller sets: every set of size <= 1 of the basis;
			// quick adds every pair of READ permissions for the bucket/org/user filters, thorough every pair of the basis
			// for all filters.
			var readBasis []P
			for _, p := range basis {
				if p.A == "read" {
					readBasis = append(readBasis, p)
				}
			}
			setsC, kTok := smallSubsets(basis, 1), 1
			if c.Thorough() {
				setsC, kTok = smallSubsets(basis, 2), 2
			} else {
				for _, ps := range smallSubsets(readBasis, 2) {
					if len(ps) == 2 {
						setsC = append(setsC, ps)
					}
				}
			}
			for _, part := range []struct {
				ops  []Op
				sets [][]P
				what string
			}{
				{filterAlphabet(false), setsC, "family C bucket/org/user filters not finished"},
				{filterAlphabet(true), smallSubsets(basis, kTok), "family C token filters not finished"},
			} {
				for _, via := range vias {
					for _, ps := range part.sets {
						for _, o := range part.ops {
							do(Case{via, ps, []Op{o}})
						}
						if c.Expired() {
							c.Cap(part.what)
							return
						}
					}
				}
			}
			if c.Thorough() {
				for _, via := range vias {
					for _, ps := range smallSubsets(basis, 1) {
						for _, m := range full {
							if !isMutation(m) {
								continue
							}
							for _, o := range full {
								do(Case{via, ps, []Op{m, o}})
							}
						}
						if c.Expired() {
							c.Cap("family A pairs not finished")
							return
						}
					}
				}
			}
			depth := 2
			if c.Thorough() {
				depth = 3
			}
			seqs := seqsUpTo(red, depth)
			for _, via := range vias {
				for _, ps := range allSubsets(core) {
					for _, s := range seqs {
						do(Case{via, ps, s})
					}
					if c.Expired() {
						c.Cap("family B not finished")
						return
					}
				}
			}
			if c.Thorough() { // family D, lists of exactly 3 entries x held sets of size <= 1 of the basis and all subsets of the core basis
				heldD3 := append(append([][]P{}, smallSubsets(basis, 1)...), allSubsets(core)...)
				if !familyD(heldD3, listsOfLen(basis, 3), "family D (lists of 3 entries) not finished") {
					return
				}
			}
		},
		Replay: func(c *vlib.Ctx, raw json.RawMessage) (bool, string) {
			var cs Case
			if err := json.Unmarshal(raw, &cs); err != nil {
				return false, err.Error()
			}
			w := newWorld()
			classes, fs, _ := w.runCase(cs)
			var lines []string
			for _, f := range fs {
				lines = append(lines, "["+f.sig+"] "+f.msg)
			}
			return len(fs) > 0, fmt.Sprintf("via=%s caller=%v seq=%v outcomes=%v\n%s", cs.Via, cs.Perms, cs.Seq, classes, strings.Join(lines, "\n"))
		},
	})
}
