#!/bin/bash
# mkoverlay.sh <pkg> <outdir>: (re)generate the build overlay from the repo's current working tree
V="$(cd "$(dirname "$0")/.." && pwd)"
cd "$V/h" && go run ./cmd/mkoverlay "$V" "${REPO:-/repo}" "$1" "$2"
