package mini

import (
	"encoding/json"
	"testing"
	"time"
)

// TestSmoke is a self-test of the fixture (not a registered check): lifecycle cost and one round trip of every helper.
func TestSmoke(t *testing.T) {
	for i := 0; i < 3; i++ {
		t0 := time.Now()
		f, err := Open(Options{})
		if err != nil {
			t.Fatal(err)
		}
		tOpen := time.Since(t0)
		b, err := f.CreateBucket("db0", 0)
		if err != nil {
			t.Fatal(err)
		}
		pts := []Point{
			{M: "m0", Tags: T("a", "x"), Fields: map[string]any{"f0": 1.5, "f1": int64(7)}, T: Base + Hour - 1},
			{M: "m0", Tags: T("a", "x"), Fields: map[string]any{"f0": 2.5}, T: Base + Hour},
			{M: "m1", Tags: T("a", "y", "b", "z"), Fields: map[string]any{"f0": 3.5}, T: Base + Hour + 5},
		}
		if err := f.Write(b, pts); err != nil {
			t.Fatal(err)
		}
		if i == 1 {
			if err := f.SnapshotAll(); err != nil {
				t.Fatal(err)
			}
		}
		ss, err := f.ReadFilter(b, Base, Base+2*Hour, nil)
		if err != nil {
			t.Fatal(err)
		}
		gs, err := f.ReadGroup(b, Base, Base+2*Hour, nil, GroupBy, []string{"a"}, AggNone)
		if err != nil {
			t.Fatal(err)
		}
		rs, err := f.InfluxQL(b, `SELECT f0 FROM m0; SHOW MEASUREMENTS; SHOW TAG KEYS`)
		if err != nil {
			t.Fatal(err)
		}
		if i == 2 {
			if err := f.Delete(b, Base, Base+Hour-1, `a="x"`); err != nil {
				t.Fatal(err)
			}
			if err := f.FullCompactAll(); err != nil {
				t.Fatal(err)
			}
			if err := f.Reopen(); err != nil {
				t.Fatal(err)
			}
			ss, err = f.ReadFilter(b, Base, Base+2*Hour, TagEq("a", "x"))
			if err != nil {
				t.Fatal(err)
			}
		}
		t1 := time.Now()
		if err := f.Close(); err != nil {
			t.Fatal(err)
		}
		j1, _ := json.Marshal(ss)
		j2, _ := json.Marshal(gs)
		j3, _ := json.Marshal(rs)
		t.Logf("open %v total %v close %v shards %v\n filter %s\n group %s\n iql %s", tOpen, time.Since(t0), time.Since(t1), f.ShardIDs(b), j1, j2, j3)
	}
}
