// Package mini is the shared storage fixture of the checks C17, C21, C22, C38, C41 and C42 (DESIGN.md §2.5):
// the REAL storage stack of influxd in one process, on a tmpfs directory, with nothing mocked between the write
// API and the TSM/TSI files, and with every background activity switched off so that a lifecycle is cheap
// and deterministic. Measured cost (loaded 16-core box): Open ≈ 3–15 ms (KV migrations + engine), Close ≈ 10–30 ms,
// and ≈ 60–130 ms of CPU for EVERY NEW SHARD (first write into a shard group: series file + 8 tsi1 partitions, dominated
// by HLL sketch allocation) – so a 2-shard dataset costs ≈ 0.25 s; a ReadFilter ≈ 0.2 ms, a ReadGroup ≈ 0.5 ms. Build
// many requests on one dataset rather than many datasets.
//
// # What is wired (as cmd/influxd/launcher does)
//
//	inmem.NewKVStore()  ── kv/migration/all.Up ──►  meta.NewClient(meta.NewConfig(), kv).Open()
//	storage.NewEngine(dir, cfg, storage.WithMetaClient(mc), storage.WithMetricsDisabled(true)).Open()
//	    └─ tsdb.Store (tsm1 + tsi1, WAL on), coordinator.PointsWriter, retention + precreator services
//	v1/services/storage.NewStore(engine.TSDBStore(), engine.MetaClient())        = Fixture.Reads (a reads.Store)
//	v1/coordinator.LocalShardMapper + StatementExecutor + influxql/query.Executor = Fixture.ShardMapper / .StmtExec / .QueryExec
//	DBRP: an in-harness influxdb.DBRPMappingService (Fixture.DBRP; one default mapping per bucket, see CreateBucket)
//
// The PointsWriter's WriteTimeout (wall clock, default 10 s) is raised to 1 h: under heavy machine load a shard creation
// can exceed 10 s and writes would fail with "timeout" depending on load.
//
// Switched off / frozen: tsdb EngineOptions.CompactionDisabled and MonitorDisabled (no background cache snapshots,
// no level/full compactions, no shard monitor), metrics collection, retention and precreator services are the real
// ones and are opened, but their check intervals are 10 years so they never tick. Snapshots (cache → TSM) and
// compactions are explicit harness operations (SnapshotAll, FullCompactAll).
// CAVEAT (repo behaviour, not a fixture choice): tsm1.Engine.DeleteSeriesRange ends with enableLevelCompactions(true),
// which starts the level-compaction goroutine of that shard even when compactions were disabled at open. It plans
// once per second and does nothing with < 4 level-1 files / a cold threshold of 10 years (set below), so it is
// harmless for small histories, but checks that delete and then keep a fixture alive for > 1 s with ≥ 4 TSM files per
// shard should know about it.
//
// # Lifecycle
//
//	f, err := mini.Open(mini.Options{})         // fresh directory under VERIF_SCRATCH (/dev/shm)
//	defer f.Close()                             // closes the engine and removes the directory
//	b, err := f.CreateBucket("db0", 0)          // Bucket{OrgID, ID, Name}; shard-group duration 0 ⇒ 1h (the minimum
//	                                            // the meta client allows; smaller values are normalised to 1h)
//	err = f.Write(b, []mini.Point{{M: "m0", Tags: mini.T("a", "x"), Fields: map[string]any{"f0": 1.5}, T: mini.Base + 5}})
//	err = f.SnapshotAll()                       // every shard: cache → TSM (data written later stays in the cache)
//	err = f.Delete(b, min, max, `a="x"`)        // DELETE API: predicate string as in POST /api/v2/delete ("" = all)
//	ss, err := f.ReadFilter(b, start, end, mini.TagEq("a", "x"))   // [start,end) ; plain structs
//	gs, err := f.ReadGroup(b, start, end, nil, mini.GroupBy, []string{"a"}, mini.AggNone)
//	rs, err := f.InfluxQL(b, `SELECT v FROM m0`) // through query.Executor → StatementExecutor → LocalShardMapper
//
// Timestamps are int64 nanoseconds. mini.Base (2000-01-01T00:00:00Z) is aligned to every shard-group duration that is
// a divisor of a day, so with the default 1h groups the first two shard groups are [Base, Base+Hour) and
// [Base+Hour, Base+2·Hour): write at Base+Hour-1 and Base+Hour to straddle the boundary. Shard groups (and shards,
// one per group) are created on demand by the real PointsWriter; ShardIDs(b) lists them in time order.
//
// # Determinism
//
// Nothing in the fixture depends on wall time except the meta client's "now" when it decides whether a point is
// older than the retention period: buckets are created with infinite retention unless Options/CreateBucketRP says
// otherwise. IDs are deterministic: org = 0x0…a1, buckets 0x0…b1, b2, … in creation order; shard ids 1,2,… in
// creation order. Directory names differ between runs (mkdtemp): never put Fixture.Dir in an observation.
// Results returned by the helpers are in the order the real iterators produced them (the checks test that order);
// helpers never sort.
//
// # Pieces for the other checks
//
//   - C17/C42: Fixture.TSDB is the *tsdb.Store (MeasurementNames, TagKeys, TagValues, SeriesCardinality, Shards…),
//     Fixture.Engine the *storage.Engine, Fixture.Reads also serves TagKeys/TagValues requests (use ReadSource(b)).
//   - C22/C42 (InfluxQL): Fixture.InfluxQL / InfluxQLAuth run a query string through the real query.Executor
//     (parser = github.com/influxdata/influxql, pure Go). The context carries an all-access influxdb.Authorizer,
//     which executeShowDatabases/RetentionPolicies need; pass a query.Authorizer via InfluxQLAuth for C42.
//   - C41: storage/flux.NewReader(f.Reads) gives the query.StorageReader (not imported here to keep link time down;
//     it needs no Flux parsing).
//   - C38: Fixture.Engine.BackupShard / RestoreShard, Fixture.TSDB.Shard(id) (Export/Import live on the shard);
//     Reopen() closes and reopens the engine on the same directory and KV store.
//
// TODO hooks (not needed by C21, left for their owners): a fake clock for retention (the services take real time);
// query.Authorizer fakes; os.Chtimes helpers for C38.
package mini

import (
	"context"
	"errors"
	"fmt"
	"os"
	"sort"
	"time"

	influxdb "github.com/influxdata/influxdb/v2"
	icontext "github.com/influxdata/influxdb/v2/context"
	iqlcontrol "github.com/influxdata/influxdb/v2/influxql/control"
	iqlquery "github.com/influxdata/influxdb/v2/influxql/query"
	"github.com/influxdata/influxdb/v2/inmem"
	"github.com/influxdata/influxdb/v2/kit/platform"
	"github.com/influxdata/influxdb/v2/kv/migration/all"
	"github.com/influxdata/influxdb/v2/models"
	"github.com/influxdata/influxdb/v2/predicate"
	"github.com/influxdata/influxdb/v2/storage"
	"github.com/influxdata/influxdb/v2/storage/reads"
	"github.com/influxdata/influxdb/v2/storage/reads/datatypes"
	"github.com/influxdata/influxdb/v2/toml"
	"github.com/influxdata/influxdb/v2/tsdb"
	"github.com/influxdata/influxdb/v2/tsdb/cursors"
	"github.com/influxdata/influxdb/v2/tsdb/engine/tsm1"
	iqlcoordinator "github.com/influxdata/influxdb/v2/v1/coordinator"
	"github.com/influxdata/influxdb/v2/v1/services/meta"
	v1storage "github.com/influxdata/influxdb/v2/v1/services/storage"
	"github.com/influxdata/influxql"
	"go.uber.org/zap"
	"google.golang.org/protobuf/types/known/anypb"
	"verif/h/vlib"
)

const (
	// Hour is the default (and minimal) shard-group duration in nanoseconds.
	Hour = int64(time.Hour)
	// Base = 2000-01-01T00:00:00Z in nanoseconds; start of a shard group for every duration dividing 24h.
	Base = int64(946684800) * int64(time.Second)
	// OrgID is the organisation every bucket of the fixture belongs to.
	OrgID = platform.ID(0xa1)

	never = 10 * 365 * 24 * time.Hour
)

// Options configures Open. The zero value is what the checks normally want.
type Options struct {
	// Dir: use this directory instead of a fresh scratch directory (it is still removed by Close unless KeepDir).
	Dir     string
	KeepDir bool
	// EnableCompactions leaves background snapshotting/compaction of the tsm1 engines ON (non-deterministic; for
	// schedule-exploration harnesses that drive time themselves).
	EnableCompactions bool
	// Logger for the engine (default: nop).
	Logger *zap.Logger
	// Mutate is called on the storage.Config before the engine is built (e.g. to change cache sizes).
	Mutate func(*storage.Config)
}

// Bucket identifies a bucket created by CreateBucket. DB is the InfluxQL database name mapped to it (= Name).
type Bucket struct {
	OrgID platform.ID
	ID    platform.ID
	Name  string
}

// DBName is the v1 database name under which the storage layer knows the bucket (its hex id).
func (b Bucket) DBName() string { return b.ID.String() }

// Fixture is one open instance of the stack.
type Fixture struct {
	Dir    string
	KV     *inmem.KVStore
	Meta   *meta.Client
	Engine *storage.Engine
	TSDB   *tsdb.Store
	// Reads is the real v1/services/storage.Store (implements storage/reads.Store).
	Reads *v1storage.Store

	DBRP        *DBRP
	ShardMapper *iqlcoordinator.LocalShardMapper
	StmtExec    *iqlcoordinator.StatementExecutor
	QueryExec   *iqlquery.Executor

	opt     Options
	cfg     storage.Config
	buckets []Bucket
	closed  bool
}

// Open builds and opens the whole stack on a fresh directory.
func Open(opt Options) (*Fixture, error) {
	f := &Fixture{opt: opt, Dir: opt.Dir}
	if f.Dir == "" {
		f.Dir = vlib.Scratch("mini-")
	}
	if f.opt.Logger == nil {
		f.opt.Logger = zap.NewNop()
	}
	ctx := context.Background()
	f.KV = inmem.NewKVStore()
	if err := all.Up(ctx, zap.NewNop(), f.KV); err != nil {
		f.cleanup()
		return nil, fmt.Errorf("mini: kv migrations: %w", err)
	}
	f.Meta = meta.NewClient(meta.NewConfig(), f.KV)
	if err := f.Meta.Open(); err != nil {
		f.cleanup()
		return nil, fmt.Errorf("mini: meta client: %w", err)
	}
	cfg := storage.NewConfig()
	cfg.RetentionService.CheckInterval = toml.Duration(never)
	cfg.PrecreatorConfig.CheckInterval = toml.Duration(never)
	cfg.Data.CompactFullWriteColdDuration = toml.Duration(never)
	// the PointsWriter gives up after WriteTimeout of WALL time (default 10 s): on a loaded machine the creation of a
	// shard can take that long, which would make results load-dependent
	cfg.WriteTimeout = time.Hour
	if opt.Mutate != nil {
		opt.Mutate(&cfg)
	}
	f.cfg = cfg
	f.DBRP = &DBRP{}
	if err := f.openEngine(); err != nil {
		f.cleanup()
		return nil, err
	}
	return f, nil
}

func (f *Fixture) openEngine() error {
	e := storage.NewEngine(f.Dir, f.cfg, storage.WithMetaClient(f.Meta), storage.WithMetricsDisabled(true))
	st, ok := e.TSDBStore().(*tsdb.Store)
	if !ok {
		return errors.New("mini: storage.Engine.TSDBStore() is no longer a *tsdb.Store")
	}
	if !f.opt.EnableCompactions {
		st.EngineOptions.CompactionDisabled = true
	}
	st.EngineOptions.MonitorDisabled = true
	e.WithLogger(f.opt.Logger)
	if err := e.Open(context.Background()); err != nil {
		return fmt.Errorf("mini: engine open: %w", err)
	}
	f.Engine, f.TSDB = e, st
	f.Reads = v1storage.NewStore(e.TSDBStore(), e.MetaClient())

	f.ShardMapper = &iqlcoordinator.LocalShardMapper{MetaClient: f.Meta, TSDBStore: e.TSDBStore(), DBRP: f.DBRP}
	f.QueryExec = iqlquery.NewExecutor(f.opt.Logger, iqlcontrol.NewControllerMetrics([]string{}))
	f.StmtExec = &iqlcoordinator.StatementExecutor{
		MetaClient:  f.Meta,
		TSDBStore:   e.TSDBStore(),
		ShardMapper: f.ShardMapper,
		DBRP:        f.DBRP,
	}
	f.QueryExec.StatementExecutor = f.StmtExec
	f.QueryExec.StatementNormalizer = f.StmtExec
	return nil
}

// Reopen closes the engine and opens a new one on the same directory, KV store and meta client (restart).
func (f *Fixture) Reopen() error {
	if err := f.Engine.Close(); err != nil {
		return err
	}
	return f.openEngine()
}

func (f *Fixture) cleanup() {
	if !f.opt.KeepDir && f.Dir != "" {
		os.RemoveAll(f.Dir)
	}
}

// Close closes the engine and removes the directory. Idempotent.
func (f *Fixture) Close() error {
	if f.closed {
		return nil
	}
	f.closed = true
	var err error
	if f.Engine != nil {
		err = f.Engine.Close()
	}
	if f.Meta != nil {
		f.Meta.Close()
	}
	f.cleanup()
	return err
}

// CreateBucket creates a bucket with infinite retention and the given shard-group duration (0 ⇒ 1h; the meta
// client raises anything below 1h to 1h) and registers the default DBRP mapping (database = name, rp = "autogen").
func (f *Fixture) CreateBucket(name string, shardGroupDuration time.Duration) (Bucket, error) {
	return f.CreateBucketRP(name, 0, shardGroupDuration)
}

// CreateBucketRP is CreateBucket with a retention period (0 = infinite).
func (f *Fixture) CreateBucketRP(name string, retention, shardGroupDuration time.Duration) (Bucket, error) {
	if shardGroupDuration == 0 {
		shardGroupDuration = time.Hour
	}
	b := Bucket{OrgID: OrgID, ID: platform.ID(0xb1 + len(f.buckets)), Name: name}
	err := f.Engine.CreateBucket(context.Background(), &influxdb.Bucket{
		ID: b.ID, OrgID: b.OrgID, Name: name, RetentionPeriod: retention, ShardGroupDuration: shardGroupDuration,
		RetentionPolicyName: meta.DefaultRetentionPolicyName,
	})
	if err != nil {
		return Bucket{}, err
	}
	f.buckets = append(f.buckets, b)
	f.DBRP.add(&influxdb.DBRPMapping{
		ID: platform.ID(0xd1 + len(f.buckets)), Database: name, RetentionPolicy: meta.DefaultRetentionPolicyName,
		Default: true, OrganizationID: b.OrgID, BucketID: b.ID,
	})
	return b, nil
}

// Tag is one tag pair. Tags given to Write may be in any order (models.NewTags sorts them).
type Tag struct {
	K string `json:"k"`
	V string `json:"v"`
}

// T builds a tag list from alternating key, value strings.
func T(kv ...string) []Tag {
	var out []Tag
	for i := 0; i+1 < len(kv); i += 2 {
		out = append(out, Tag{kv[i], kv[i+1]})
	}
	return out
}

// Point is one line of line protocol. Field values: float64, int64, uint64, bool or string.
type Point struct {
	M      string         `json:"m"`
	Tags   []Tag          `json:"tags,omitempty"`
	Fields map[string]any `json:"fields"`
	T      int64          `json:"t"`
}

// Write writes one batch through storage.Engine.WritePoints (→ coordinator.PointsWriter → shards).
func (f *Fixture) Write(b Bucket, pts []Point) error {
	mp := make([]models.Point, 0, len(pts))
	for _, p := range pts {
		tm := map[string]string{}
		for _, t := range p.Tags {
			tm[t.K] = t.V
		}
		pt, err := models.NewPoint(p.M, models.NewTags(tm), models.Fields(p.Fields), time.Unix(0, p.T))
		if err != nil {
			return fmt.Errorf("mini: bad point %+v: %w", p, err)
		}
		mp = append(mp, pt)
	}
	return f.Engine.WritePoints(context.Background(), b.OrgID, b.ID, mp)
}

// ShardIDs lists the shards of the bucket in shard-group time order.
func (f *Fixture) ShardIDs(b Bucket) []uint64 {
	groups, err := f.Meta.ShardGroupsByTimeRange(b.DBName(), meta.DefaultRetentionPolicyName, time.Unix(0, models.MinNanoTime), time.Unix(0, models.MaxNanoTime))
	if err != nil {
		return nil
	}
	sort.Sort(meta.ShardGroupInfos(groups))
	var out []uint64
	for _, g := range groups {
		for _, s := range g.Shards {
			out = append(out, s.ID)
		}
	}
	return out
}

// ShardGroupOf returns [start,end) of the shard group containing t, or ok=false if none exists yet.
func (f *Fixture) ShardGroupOf(b Bucket, t int64) (start, end int64, ok bool) {
	groups, err := f.Meta.ShardGroupsByTimeRange(b.DBName(), meta.DefaultRetentionPolicyName, time.Unix(0, t), time.Unix(0, t))
	if err != nil || len(groups) == 0 {
		return 0, 0, false
	}
	return groups[0].StartTime.UnixNano(), groups[0].EndTime.UnixNano(), true
}

// SnapshotAll writes the cache of every shard of the store to TSM files (tsm1.Engine.WriteSnapshot).
func (f *Fixture) SnapshotAll() error {
	ids := f.TSDB.ShardIDs()
	sort.Slice(ids, func(i, j int) bool { return ids[i] < ids[j] })
	for _, id := range ids {
		if err := f.SnapshotShard(id); err != nil {
			return err
		}
	}
	return nil
}

// SnapshotShard writes the cache of one shard to a TSM file.
func (f *Fixture) SnapshotShard(id uint64) error {
	sh := f.TSDB.Shard(id)
	if sh == nil {
		return fmt.Errorf("mini: no shard %d", id)
	}
	e, err := sh.Engine()
	if err != nil {
		return err
	}
	type snapshotter interface{ WriteSnapshot() error }
	s, ok := e.(snapshotter)
	if !ok {
		return fmt.Errorf("mini: engine %T cannot snapshot", e)
	}
	return s.WriteSnapshot()
}

// FullCompactAll runs FullCompactShard on every shard.
func (f *Fixture) FullCompactAll() error {
	ids := f.TSDB.ShardIDs()
	sort.Slice(ids, func(i, j int) bool { return ids[i] < ids[j] })
	for _, id := range ids {
		if err := f.FullCompactShard(id); err != nil {
			return err
		}
	}
	return nil
}

// FullCompactShard snapshots the cache and merges ALL TSM files of the shard into one generation with the two calls
// tsm1's compactGroup makes (Compactor.CompactFull, then FileStore.Replace); the planner is bypassed. No-op with < 2 files.
func (f *Fixture) FullCompactShard(id uint64) error {
	if err := f.SnapshotShard(id); err != nil {
		return err
	}
	sh := f.TSDB.Shard(id)
	e, err := sh.Engine()
	if err != nil {
		return err
	}
	te, ok := e.(*tsm1.Engine)
	if !ok {
		return fmt.Errorf("mini: engine %T is not tsm1", e)
	}
	var old []string
	for _, tf := range te.FileStore.Files() {
		old = append(old, tf.Path())
	}
	if len(old) < 2 {
		return nil
	}
	sort.Strings(old)
	nf, err := te.Compactor.CompactFull(old, zap.NewNop(), tsdb.DefaultMaxPointsPerBlock)
	if err != nil {
		return err
	}
	return te.FileStore.Replace(old, nf)
}

// Delete mirrors POST /api/v2/delete (http.DeleteHandler → storage.Engine.DeleteBucketRangePredicate): points with
// min ≤ t ≤ max of the series matching the predicate string (`a="x" AND _measurement="m0"`; "" matches everything).
// As in the handler, the `_measurement` terms are additionally partitioned out into an influxql measurement expression.
func (f *Fixture) Delete(b Bucket, min, max int64, pred string) error {
	node, err := predicate.Parse(pred)
	if err != nil {
		return err
	}
	p, err := predicate.New(node)
	if err != nil {
		return err
	}
	var measurement influxql.Expr
	if pred != "" {
		expr, err := influxql.ParseExpr(pred)
		if err != nil {
			return err
		}
		measurement, _, err = influxql.PartitionExpr(influxql.CloneExpr(expr), func(e influxql.Expr) (bool, error) {
			if be, ok := e.(*influxql.BinaryExpr); ok {
				switch be.Op {
				case influxql.EQ, influxql.NEQ, influxql.EQREGEX, influxql.NEQREGEX:
					if tag, ok := be.LHS.(*influxql.VarRef); ok && tag.Val == "_measurement" {
						return true, nil
					}
				}
			}
			return false, nil
		})
		if err != nil {
			return err
		}
	}
	return f.Engine.DeleteBucketRangePredicate(context.Background(), b.OrgID, b.ID, min, max, p, measurement)
}

// ReadSource is the protobuf Any every read request of reads.Store needs.
func (f *Fixture) ReadSource(b Bucket) *anypb.Any {
	a, err := anypb.New(f.Reads.GetSource(uint64(b.OrgID), uint64(b.ID)))
	if err != nil {
		panic(err)
	}
	return a
}

// ---------------------------------------------------------------------------------------------------------
// predicates (datatypes.Predicate builders)

func cmp(op datatypes.Node_Comparison, key, val string) *datatypes.Node {
	return &datatypes.Node{
		NodeType: datatypes.Node_TypeComparisonExpression,
		Value:    &datatypes.Node_Comparison_{Comparison: op},
		Children: []*datatypes.Node{
			{NodeType: datatypes.Node_TypeTagRef, Value: &datatypes.Node_TagRefValue{TagRefValue: key}},
			{NodeType: datatypes.Node_TypeLiteral, Value: &datatypes.Node_StringValue{StringValue: val}},
		},
	}
}

// TagEq is `key = "val"`; key may be "_measurement" or "_field" (as Flux pushes them down) or a tag key.
func TagEq(key, val string) *datatypes.Node { return cmp(datatypes.Node_ComparisonEqual, key, val) }

// TagNe is `key != "val"`.
func TagNe(key, val string) *datatypes.Node { return cmp(datatypes.Node_ComparisonNotEqual, key, val) }

func logical(op datatypes.Node_Logical, n ...*datatypes.Node) *datatypes.Node {
	return &datatypes.Node{NodeType: datatypes.Node_TypeLogicalExpression, Value: &datatypes.Node_Logical_{Logical: op}, Children: n}
}

// And / Or combine two or more nodes.
func And(n ...*datatypes.Node) *datatypes.Node { return logical(datatypes.Node_LogicalAnd, n...) }
func Or(n ...*datatypes.Node) *datatypes.Node  { return logical(datatypes.Node_LogicalOr, n...) }

// Paren wraps a node in a parenthesised expression.
func Paren(n *datatypes.Node) *datatypes.Node {
	return &datatypes.Node{NodeType: datatypes.Node_TypeParenExpression, Children: []*datatypes.Node{n}}
}

func pred(n *datatypes.Node) *datatypes.Predicate {
	if n == nil {
		return nil
	}
	return &datatypes.Predicate{Root: n}
}

// ---------------------------------------------------------------------------------------------------------
// reads

// Pt is one returned point; V is float64, int64, uint64, bool or string.
type Pt struct {
	T int64 `json:"t"`
	V any   `json:"v"`
}

// Series is one series frame of a result: the tags as reported (including _measurement and _field, in the order
// reported), the cursor's value type ("float","integer","unsigned","boolean","string", or "nil" when the result set
// returned a nil cursor for the series) and all points of all batches in the order returned.
type Series struct {
	Tags   []Tag  `json:"tags"`
	Type   string `json:"type"`
	Points []Pt   `json:"points"`
	// Batches is the number of non-empty arrays the cursor returned.
	Batches int `json:"batches"`
}

// Tag returns the value of a tag of the series ("" if absent).
func (s Series) Tag(k string) string {
	for _, t := range s.Tags {
		if t.K == k {
			return t.V
		}
	}
	return ""
}

func copyTags(in models.Tags) []Tag {
	out := make([]Tag, len(in))
	for i, t := range in {
		out[i] = Tag{string(t.Key), string(t.Value)}
	}
	return out
}

// Drain reads a cursor to exhaustion and closes it.
func Drain(cur cursors.Cursor) (typ string, pts []Pt, batches int, err error) {
	if cur == nil {
		return "nil", nil, 0, nil
	}
	defer cur.Close()
	const maxBatches = 1 << 20 // a cursor that never ends is reported, not waited for
	switch c := cur.(type) {
	case cursors.FloatArrayCursor:
		typ = "float"
		for a := c.Next(); a.Len() > 0; a = c.Next() {
			for i := range a.Timestamps {
				pts = append(pts, Pt{a.Timestamps[i], a.Values[i]})
			}
			if batches++; batches > maxBatches {
				return typ, pts, batches, errors.New("mini: cursor does not terminate")
			}
		}
	case cursors.IntegerArrayCursor:
		typ = "integer"
		for a := c.Next(); a.Len() > 0; a = c.Next() {
			for i := range a.Timestamps {
				pts = append(pts, Pt{a.Timestamps[i], a.Values[i]})
			}
			if batches++; batches > maxBatches {
				return typ, pts, batches, errors.New("mini: cursor does not terminate")
			}
		}
	case cursors.UnsignedArrayCursor:
		typ = "unsigned"
		for a := c.Next(); a.Len() > 0; a = c.Next() {
			for i := range a.Timestamps {
				pts = append(pts, Pt{a.Timestamps[i], a.Values[i]})
			}
			if batches++; batches > maxBatches {
				return typ, pts, batches, errors.New("mini: cursor does not terminate")
			}
		}
	case cursors.BooleanArrayCursor:
		typ = "boolean"
		for a := c.Next(); a.Len() > 0; a = c.Next() {
			for i := range a.Timestamps {
				pts = append(pts, Pt{a.Timestamps[i], a.Values[i]})
			}
			if batches++; batches > maxBatches {
				return typ, pts, batches, errors.New("mini: cursor does not terminate")
			}
		}
	case cursors.StringArrayCursor:
		typ = "string"
		for a := c.Next(); a.Len() > 0; a = c.Next() {
			for i := range a.Timestamps {
				pts = append(pts, Pt{a.Timestamps[i], a.Values[i]})
			}
			if batches++; batches > maxBatches {
				return typ, pts, batches, errors.New("mini: cursor does not terminate")
			}
		}
	default:
		return fmt.Sprintf("%T", cur), nil, 0, fmt.Errorf("mini: unknown cursor type %T", cur)
	}
	return typ, pts, batches, cur.Err()
}

// ReadFilter runs reads.Store.ReadFilter over [start,end) with an optional predicate (nil = none) and collects
// every series (also those whose cursor is nil or empty) in the order returned.
func (f *Fixture) ReadFilter(b Bucket, start, end int64, p *datatypes.Node) ([]Series, error) {
	rs, err := f.Reads.ReadFilter(context.Background(), &datatypes.ReadFilterRequest{
		ReadSource: f.ReadSource(b),
		Range:      &datatypes.TimestampRange{Start: start, End: end},
		Predicate:  pred(p),
	})
	if err != nil {
		return nil, err
	}
	if rs == nil {
		return nil, nil
	}
	defer rs.Close()
	var out []Series
	for rs.Next() {
		s := Series{Tags: copyTags(rs.Tags())}
		var derr error
		s.Type, s.Points, s.Batches, derr = Drain(rs.Cursor())
		if derr != nil {
			return out, derr
		}
		out = append(out, s)
	}
	return out, rs.Err()
}

// Group modes and aggregates of ReadGroup.
const (
	GroupNone = datatypes.ReadGroupRequest_GroupNone
	GroupBy   = datatypes.ReadGroupRequest_GroupBy

	AggNone  = datatypes.Aggregate_AggregateTypeNone
	AggSum   = datatypes.Aggregate_AggregateTypeSum
	AggCount = datatypes.Aggregate_AggregateTypeCount
	AggMin   = datatypes.Aggregate_AggregateTypeMin
	AggMax   = datatypes.Aggregate_AggregateTypeMax
	AggFirst = datatypes.Aggregate_AggregateTypeFirst
	AggLast  = datatypes.Aggregate_AggregateTypeLast
	AggMean  = datatypes.Aggregate_AggregateTypeMean
)

// Group is one group of a ReadGroup result. PartitionVals[i] is nil when the group has no value for GroupKeys[i]
// (HasVal[i]==false) – kept separately because JSON cannot tell nil from empty.
type Group struct {
	Keys          []string `json:"keys"`           // union of tag keys, as reported
	PartitionVals []string `json:"partition_vals"` // values of the group keys, request order ("" when absent)
	HasVal        []bool   `json:"has_val"`
	NilPartition  bool     `json:"nil_partition"` // PartitionKeyVals()==nil (group mode none)
	Series        []Series `json:"series"`
}

// ReadGroup runs reads.Store.ReadGroup; agg == AggNone sends no aggregate.
func (f *Fixture) ReadGroup(b Bucket, start, end int64, p *datatypes.Node, mode datatypes.ReadGroupRequest_Group, keys []string, agg datatypes.Aggregate_AggregateType) ([]Group, error) {
	req := &datatypes.ReadGroupRequest{
		ReadSource: f.ReadSource(b),
		Range:      &datatypes.TimestampRange{Start: start, End: end},
		Predicate:  pred(p),
		Group:      mode,
		GroupKeys:  keys,
	}
	if agg != AggNone {
		req.Aggregate = &datatypes.Aggregate{Type: agg}
	}
	rs, err := f.Reads.ReadGroup(context.Background(), req)
	if err != nil {
		return nil, err
	}
	if rs == nil {
		return nil, nil
	}
	defer rs.Close()
	var out []Group
	for gc := rs.Next(); gc != nil; gc = rs.Next() {
		var g Group
		for _, k := range gc.Keys() {
			g.Keys = append(g.Keys, string(k))
		}
		pv := gc.PartitionKeyVals()
		g.NilPartition = pv == nil
		for _, v := range pv {
			g.PartitionVals = append(g.PartitionVals, string(v))
			g.HasVal = append(g.HasVal, v != nil)
		}
		for gc.Next() {
			s := Series{Tags: copyTags(gc.Tags())}
			var derr error
			s.Type, s.Points, s.Batches, derr = Drain(gc.Cursor())
			if derr != nil {
				gc.Close()
				return out, derr
			}
			g.Series = append(g.Series, s)
		}
		if err := gc.Err(); err != nil {
			gc.Close()
			return out, err
		}
		gc.Close()
		out = append(out, g)
		if len(out) > 1<<12 {
			return out, errors.New("mini: group result set does not terminate")
		}
	}
	return out, rs.Err()
}

var _ reads.Store = (*v1storage.Store)(nil)

// ---------------------------------------------------------------------------------------------------------
// InfluxQL

// Row is one series of an InfluxQL result.
type Row struct {
	Name    string            `json:"name"`
	Tags    map[string]string `json:"tags,omitempty"`
	Columns []string          `json:"columns"`
	Values  [][]any           `json:"values"`
	Partial bool              `json:"partial,omitempty"`
}

// Result is the outcome of one statement.
type Result struct {
	StatementID int    `json:"statement_id"`
	Rows        []Row  `json:"rows"`
	Err         string `json:"err,omitempty"`
}

type allAccess struct{}

func (allAccess) PermissionSet() (influxdb.PermissionSet, error) {
	return influxdb.PermissionSet(influxdb.OperPermissions()), nil
}
func (allAccess) Identifier() platform.ID           { return 1 }
func (allAccess) GetUserID() platform.ID            { return 1 }
func (allAccess) Kind() string                      { return "mini" }
func (allAccess) Prepare(ctx context.Context) error { return nil }

// InfluxQL parses and executes a query against the bucket's database (default retention policy) with the open
// authorizer; chunking off. Results of all statements are collected in order; rows that arrive in several chunks for the
// same statement are appended as they come.
func (f *Fixture) InfluxQL(b Bucket, q string) ([]Result, error) {
	return f.InfluxQLAuth(b, q, iqlquery.OpenAuthorizer)
}

// InfluxQLAuth is InfluxQL with a fine-grained authorizer (query.Authorizer) for series visibility.
func (f *Fixture) InfluxQLAuth(b Bucket, q string, auth iqlquery.Authorizer) ([]Result, error) {
	parsed, err := influxql.ParseQuery(q)
	if err != nil {
		return nil, err
	}
	ctx := icontext.SetAuthorizer(context.Background(), allAccess{})
	ch, _ := f.QueryExec.ExecuteQuery(ctx, parsed, iqlquery.ExecutionOptions{
		OrgID:           b.OrgID,
		Database:        b.Name,
		RetentionPolicy: "",
		Authorizer:      auth,
		Quiet:           true,
	})
	var out []Result
	for r := range ch {
		res := Result{StatementID: r.StatementID}
		if r.Err != nil {
			res.Err = r.Err.Error()
		}
		for _, s := range r.Series {
			res.Rows = append(res.Rows, Row{Name: s.Name, Tags: s.Tags, Columns: s.Columns, Values: s.Values, Partial: s.Partial})
		}
		if n := len(out); n > 0 && out[n-1].StatementID == res.StatementID && res.Err == "" && out[n-1].Err == "" {
			out[n-1].Rows = append(out[n-1].Rows, res.Rows...)
		} else {
			out = append(out, res)
		}
	}
	return out, nil
}

// ---------------------------------------------------------------------------------------------------------
// DBRP

// DBRP is a minimal in-memory influxdb.DBRPMappingService: bucket ↔ (database, retention policy).
type DBRP struct {
	m []*influxdb.DBRPMapping
}

func (d *DBRP) add(m *influxdb.DBRPMapping) { d.m = append(d.m, m) }

func (d *DBRP) FindByID(ctx context.Context, orgID, id platform.ID) (*influxdb.DBRPMapping, error) {
	for _, m := range d.m {
		if m.ID == id && m.OrganizationID == orgID {
			c := *m
			return &c, nil
		}
	}
	return nil, errors.New("dbrp mapping not found")
}

func (d *DBRP) FindMany(ctx context.Context, f influxdb.DBRPMappingFilter, opts ...influxdb.FindOptions) ([]*influxdb.DBRPMapping, int, error) {
	var out []*influxdb.DBRPMapping
	for _, m := range d.m {
		if (f.ID != nil && *f.ID != m.ID) || (f.OrgID != nil && *f.OrgID != m.OrganizationID) ||
			(f.BucketID != nil && *f.BucketID != m.BucketID) || (f.Database != nil && *f.Database != m.Database) ||
			(f.RetentionPolicy != nil && *f.RetentionPolicy != m.RetentionPolicy) ||
			(f.Default != nil && *f.Default != m.Default) || (f.Virtual != nil && *f.Virtual != m.Virtual) {
			continue
		}
		c := *m
		out = append(out, &c)
	}
	return out, len(out), nil
}

func (d *DBRP) Create(ctx context.Context, m *influxdb.DBRPMapping) error {
	c := *m
	d.m = append(d.m, &c)
	return nil
}

func (d *DBRP) Update(ctx context.Context, m *influxdb.DBRPMapping) error {
	for i, x := range d.m {
		if x.ID == m.ID {
			c := *m
			d.m[i] = &c
			return nil
		}
	}
	return errors.New("dbrp mapping not found")
}

func (d *DBRP) Delete(ctx context.Context, orgID, id platform.ID) error {
	for i, x := range d.m {
		if x.ID == id && x.OrganizationID == orgID {
			d.m = append(d.m[:i], d.m[i+1:]...)
			return nil
		}
	}
	return nil
}

var _ influxdb.DBRPMappingService = (*DBRP)(nil)
