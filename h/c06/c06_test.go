// C06: multi-file block reads through a KeyCursor return the exact newest-wins merge.
//
// Bounded-exhaustive: every set of 2 (quick) / 2..3 (thorough) TSM files over one key, each file any
// subset of a small timestamp domain split into 1-2 blocks, each with a tombstone set of a small family,
// opened in a real FileStore; every seek time, both directions, scalar and array block reads, all five
// block types. The oracle is the reference merge of tsmkit (written from the statement).
//
// Multi-range dimension: besides the small fixed tombstone family, one file of a set may carry EVERY set
// of two (thorough: also three) distinct tombstone ranges over the timestamp grid - disjoint with a gap,
// adjacent, overlapping, nested - over layouts of up to three blocks, so that blocks fully deleted by one
// range, blocks only jointly deleted, blocks with live points in the gap between two ranges and untouched
// blocks all occur; the tombstones are loaded from disk (FileStore.Open, TSMReader) or applied to the open
// store with FileStore.DeleteRange.
package c06

import (
	"context"
	"encoding/json"
	"fmt"
	"os"
	"path/filepath"
	"runtime"
	"strings"
	"testing"
	"time"

	"github.com/influxdata/influxdb/v2/tsdb"
	"github.com/influxdata/influxdb/v2/tsdb/engine/tsm1"
	"verif/h/tsmkit"
	"verif/h/vlib"
)

// FileSpec is one TSM file of a case (files[0] is the oldest generation).
type FileSpec struct {
	Blocks tsmkit.Layout  `json:"blocks"`
	Tombs  tsmkit.TombSet `json:"tombstones"`
}

// Case is one cursor run.
type Case struct {
	Files []FileSpec `json:"files"`
	Seek  int64      `json:"seek"`
	Asc   bool       `json:"ascending"`
	Array bool       `json:"array_form"`
	Type  string     `json:"type"`
	Via   string     `json:"via"` // how the files were put into a FileStore (viaOpen | viaPooled | viaLive)
}

const maxReads = 64 // a cursor over <= 6 blocks that has not ended after 64 reads never will

// tombVariants is the per-file tombstone family over the domain {1..maxT}.
func tombVariants(maxT int64) []tsmkit.TombSet {
	return []tsmkit.TombSet{
		nil,
		{tsmkit.FullRange},
		{{Min: 2, Max: 3}},
		{{Min: 1, Max: 1}},
		{{Min: maxT, Max: maxT + 4}},
		{{Min: 1, Max: 1}, {Min: 2, Max: 3}}, // two ranges that only jointly cover a block {1,2},{1,3},{1,2,3}
	}
}

// gridRanges lists every closed range [a,b] with 1 <= a <= b <= maxT (a, then b ascending).
func gridRanges(maxT int64) []tsmkit.Range {
	var rs []tsmkit.Range
	for a := int64(1); a <= maxT; a++ {
		for b := a; b <= maxT; b++ {
			rs = append(rs, tsmkit.Range{Min: a, Max: b})
		}
	}
	return rs
}

// rangeSets enumerates every set of k (2 or 3) distinct ranges of gridRanges(maxT). Unordered sets are
// listed once in grid order; ordered=true (k=2 only) lists both recording orders.
func rangeSets(maxT int64, k int, ordered bool) []tsmkit.TombSet {
	rs := gridRanges(maxT)
	var out []tsmkit.TombSet
	for i := range rs {
		for j := range rs {
			if i == j || (!ordered && j < i) {
				continue
			}
			if k == 2 {
				out = append(out, tsmkit.TombSet{rs[i], rs[j]})
				continue
			}
			for l := j + 1; l < len(rs); l++ {
				out = append(out, tsmkit.TombSet{rs[i], rs[j], rs[l]})
			}
		}
	}
	return out
}

// apart keeps the sets whose ranges are pairwise non-intersecting with at least gap grid points between
// them (gap=0: disjoint, adjacent ranges included; gap=1: a timestamp of the grid lies between any two ranges).
func apart(sets []tsmkit.TombSet, gap int64) []tsmkit.TombSet {
	var out []tsmkit.TombSet
	for _, ts := range sets {
		ok := true
		for i := range ts {
			for j := i + 1; j < len(ts); j++ {
				if ts[i].Min <= ts[j].Max+gap && ts[j].Min <= ts[i].Max+gap {
					ok = false
				}
			}
		}
		if ok {
			out = append(out, ts)
		}
	}
	return out
}

// withNone prepends the empty tombstone set (index 0 of every per-file family).
func withNone(sets ...[]tsmkit.TombSet) []tsmkit.TombSet {
	out := []tsmkit.TombSet{nil}
	for _, s := range sets {
		out = append(out, s...)
	}
	return out
}

// gapLive returns the timestamps that are live in a block lying inside the overall span
// [smallest Min, largest Max] of the >= 2 tombstone ranges of its own file (such a block is covered by
// no single range; its live points sit in a gap between ranges).
func gapLive(files []FileSpec) map[int64]bool {
	var g map[int64]bool
	for _, f := range files {
		if len(f.Tombs) < 2 {
			continue
		}
		lo, hi := f.Tombs[0].Min, f.Tombs[0].Max
		for _, r := range f.Tombs[1:] {
			if r.Min < lo {
				lo = r.Min
			}
			if r.Max > hi {
				hi = r.Max
			}
		}
		for _, b := range f.Blocks {
			if b[0] < lo || b[len(b)-1] > hi {
				continue
			}
			for _, t := range b {
				if !f.Tombs.Covers(t) {
					if g == nil {
						g = map[int64]bool{}
					}
					g[t] = true
				}
			}
		}
	}
	return g
}

func allKeys() [][]byte {
	var ks [][]byte
	for _, t := range tsmkit.AllTypes {
		ks = append(ks, tsmkit.KeyFor(t))
	}
	// sorted: Boolean < Float < Integer < String < Unsigned
	for i := range ks {
		for j := i + 1; j < len(ks); j++ {
			if string(ks[j]) < string(ks[i]) {
				ks[i], ks[j] = ks[j], ks[i]
			}
		}
	}
	return ks
}

func keyData(l tsmkit.Layout) []tsmkit.KeyData {
	var kd []tsmkit.KeyData
	for _, t := range tsmkit.AllTypes {
		kd = append(kd, tsmkit.KeyData{Key: tsmkit.KeyFor(t), Typ: t, Blocks: l})
	}
	return kd
}

// drive runs one KeyCursor the way the array/batch cursors of tsm1 do: read the current block, then
// Next()+read until an empty block. It returns the blocks exactly as returned.
func drive(fs *tsm1.FileStore, typ byte, seek int64, asc, array bool) (blocks [][]tsmkit.Point, err error, capped bool) {
	kc := fs.KeyCursor(context.Background(), tsmkit.KeyFor(typ), seek, asc)
	defer kc.Close()
	var read func() ([]tsmkit.Point, error)
	switch {
	case typ == tsm1.BlockFloat64 && !array:
		var buf []tsm1.FloatValue
		read = func() ([]tsmkit.Point, error) {
			vs, err := kc.ReadFloatBlock(&buf)
			out := make([]tsmkit.Point, len(vs))
			for i, v := range vs {
				out[i] = tsmkit.Point{T: v.UnixNano(), Code: int64(v.RawValue())}
			}
			return out, err
		}
	case typ == tsm1.BlockInteger && !array:
		var buf []tsm1.IntegerValue
		read = func() ([]tsmkit.Point, error) {
			vs, err := kc.ReadIntegerBlock(&buf)
			out := make([]tsmkit.Point, len(vs))
			for i, v := range vs {
				out[i] = tsmkit.Point{T: v.UnixNano(), Code: v.RawValue()}
			}
			return out, err
		}
	case typ == tsm1.BlockUnsigned && !array:
		var buf []tsm1.UnsignedValue
		read = func() ([]tsmkit.Point, error) {
			vs, err := kc.ReadUnsignedBlock(&buf)
			out := make([]tsmkit.Point, len(vs))
			for i, v := range vs {
				out[i] = tsmkit.Point{T: v.UnixNano(), Code: int64(v.RawValue())}
			}
			return out, err
		}
	case typ == tsm1.BlockString && !array:
		var buf []tsm1.StringValue
		read = func() ([]tsmkit.Point, error) {
			vs, err := kc.ReadStringBlock(&buf)
			out := make([]tsmkit.Point, len(vs))
			for i, v := range vs {
				out[i] = tsmkit.Point{T: v.UnixNano(), Code: tsmkit.StringCode(v.RawValue())}
			}
			return out, err
		}
	case typ == tsm1.BlockBoolean && !array:
		var buf []tsm1.BooleanValue
		read = func() ([]tsmkit.Point, error) {
			vs, err := kc.ReadBooleanBlock(&buf)
			out := make([]tsmkit.Point, len(vs))
			for i, v := range vs {
				out[i] = tsmkit.Point{T: v.UnixNano(), Code: tsmkit.BoolCode(v.RawValue())}
			}
			return out, err
		}
	case typ == tsm1.BlockFloat64 && array:
		buf := tsdb.NewFloatArrayLen(8)
		read = func() ([]tsmkit.Point, error) {
			a, err := kc.ReadFloatArrayBlock(buf)
			if a == nil {
				return nil, err
			}
			if len(a.Timestamps) != len(a.Values) {
				return nil, fmt.Errorf("array block with %d timestamps and %d values", len(a.Timestamps), len(a.Values))
			}
			out := make([]tsmkit.Point, len(a.Timestamps))
			for i, t := range a.Timestamps {
				out[i] = tsmkit.Point{T: t, Code: int64(a.Values[i])}
			}
			return out, err
		}
	case typ == tsm1.BlockInteger && array:
		buf := tsdb.NewIntegerArrayLen(8)
		read = func() ([]tsmkit.Point, error) {
			a, err := kc.ReadIntegerArrayBlock(buf)
			if a == nil {
				return nil, err
			}
			if len(a.Timestamps) != len(a.Values) {
				return nil, fmt.Errorf("array block with %d timestamps and %d values", len(a.Timestamps), len(a.Values))
			}
			out := make([]tsmkit.Point, len(a.Timestamps))
			for i, t := range a.Timestamps {
				out[i] = tsmkit.Point{T: t, Code: a.Values[i]}
			}
			return out, err
		}
	case typ == tsm1.BlockUnsigned && array:
		buf := tsdb.NewUnsignedArrayLen(8)
		read = func() ([]tsmkit.Point, error) {
			a, err := kc.ReadUnsignedArrayBlock(buf)
			if a == nil {
				return nil, err
			}
			if len(a.Timestamps) != len(a.Values) {
				return nil, fmt.Errorf("array block with %d timestamps and %d values", len(a.Timestamps), len(a.Values))
			}
			out := make([]tsmkit.Point, len(a.Timestamps))
			for i, t := range a.Timestamps {
				out[i] = tsmkit.Point{T: t, Code: int64(a.Values[i])}
			}
			return out, err
		}
	case typ == tsm1.BlockString && array:
		buf := tsdb.NewStringArrayLen(8)
		read = func() ([]tsmkit.Point, error) {
			a, err := kc.ReadStringArrayBlock(buf)
			if a == nil {
				return nil, err
			}
			if len(a.Timestamps) != len(a.Values) {
				return nil, fmt.Errorf("array block with %d timestamps and %d values", len(a.Timestamps), len(a.Values))
			}
			out := make([]tsmkit.Point, len(a.Timestamps))
			for i, t := range a.Timestamps {
				out[i] = tsmkit.Point{T: t, Code: tsmkit.StringCode(a.Values[i])}
			}
			return out, err
		}
	case typ == tsm1.BlockBoolean && array:
		buf := tsdb.NewBooleanArrayLen(8)
		read = func() ([]tsmkit.Point, error) {
			a, err := kc.ReadBooleanArrayBlock(buf)
			if a == nil {
				return nil, err
			}
			if len(a.Timestamps) != len(a.Values) {
				return nil, fmt.Errorf("array block with %d timestamps and %d values", len(a.Timestamps), len(a.Values))
			}
			out := make([]tsmkit.Point, len(a.Timestamps))
			for i, t := range a.Timestamps {
				out[i] = tsmkit.Point{T: t, Code: tsmkit.BoolCode(a.Values[i])}
			}
			return out, err
		}
	default:
		return nil, fmt.Errorf("harness: bad type %d", typ), false
	}
	for n := 0; ; n++ {
		if n == maxReads {
			return blocks, nil, true
		}
		b, err := read()
		if err != nil {
			return blocks, err, false
		}
		if len(b) == 0 {
			return blocks, nil, false
		}
		blocks = append(blocks, b)
		kc.Next()
	}
}

// model is the reference result of one cursor (file set, seek, direction), from the statement.
// Codes are the raw Code(file,t); the comparison maps them through tsmkit.ObservedCode per type.
type model struct {
	// want: the points every reading of the statement requires, in yield order (ascending, or
	// descending for a descending cursor).
	want []tsmkit.Point
	// optional: timestamps on which the statement is silent - the newest file holding the timestamp
	// has it tombstoned while an older file still holds it live. Either the point is absent or it is
	// present with the value of the newest file holding it live.
	optional map[int64]int64
	// overlapping: two blocks of different files have intersecting [min,max] ranges
	overlapping bool
}

func reference(files []FileSpec, seek int64, asc bool) model {
	m := model{}
	per := make([][]tsmkit.Point, len(files))
	newestHolderLive := map[int64]bool{}
	for i, f := range files {
		per[i] = tsmkit.LivePoints(i+1, f.Blocks, f.Tombs)
		for _, t := range f.Blocks.Times() {
			newestHolderLive[t] = !f.Tombs.Covers(t)
		}
	}
	merged := tsmkit.MergeNewestWins(per) // ascending
	var sel []tsmkit.Point
	for _, p := range merged {
		if (asc && p.T >= seek) || (!asc && p.T <= seek) {
			if !newestHolderLive[p.T] {
				if m.optional == nil {
					m.optional = map[int64]int64{}
				}
				m.optional[p.T] = p.Code
				continue
			}
			sel = append(sel, p)
		}
	}
	if !asc {
		for i, j := 0, len(sel)-1; i < j; i, j = i+1, j-1 {
			sel[i], sel[j] = sel[j], sel[i]
		}
	}
	m.want = sel
	for i := range files {
		for j := i + 1; j < len(files); j++ {
			for _, a := range files[i].Blocks {
				for _, b := range files[j].Blocks {
					if a[0] <= b[len(b)-1] && b[0] <= a[len(a)-1] {
						m.overlapping = true
					}
				}
			}
		}
	}
	return m
}

// yieldOrder flattens the returned blocks into the order a consumer sees the points: blocks in the
// order returned; inside a block front-to-back for ascending cursors and back-to-front for descending
// ones (tsm1's descending cursors start at the end of each block).
func yieldOrder(blocks [][]tsmkit.Point, asc bool) []tsmkit.Point {
	var out []tsmkit.Point
	for _, b := range blocks {
		if asc {
			out = append(out, b...)
		} else {
			for i := len(b) - 1; i >= 0; i-- {
				out = append(out, b[i])
			}
		}
	}
	return out
}

// judge compares an observed run with the reference; clause=="" means the property holds.
func judge(cs Case, typ byte, m model, blocks [][]tsmkit.Point, err error, capped bool) (clause, detail string) {
	if err != nil {
		return "error", "read returned error: " + err.Error()
	}
	if capped {
		return "no-termination", fmt.Sprintf("cursor still returns non-empty blocks after %d reads", maxReads)
	}
	got := yieldOrder(blocks, cs.Asc)
	// fast path: exactly the required sequence
	if len(m.optional) == 0 && len(got) == len(m.want) {
		same := true
		for i, p := range got {
			if p.T != m.want[i].T || p.Code != tsmkit.ObservedCode(typ, m.want[i].Code) {
				same = false
				break
			}
		}
		if same {
			return "", ""
		}
	}
	seen := map[int64]int{}
	for _, p := range got {
		seen[p.T]++
	}
	wantAt := map[int64]int64{}
	for _, p := range m.want {
		wantAt[p.T] = tsmkit.ObservedCode(typ, p.Code)
		if seen[p.T] == 0 {
			return "missing-point", fmt.Sprintf("live point t=%d is never returned", p.T)
		}
	}
	for _, p := range got {
		if _, ok := wantAt[p.T]; ok {
			continue
		}
		if _, ok := m.optional[p.T]; ok {
			continue
		}
		if (cs.Asc && p.T < cs.Seek) || (!cs.Asc && p.T > cs.Seek) {
			return "beyond-seek", fmt.Sprintf("point t=%d on the wrong side of seek time %d is returned", p.T, cs.Seek)
		}
		return "dead-point", fmt.Sprintf("point t=%d is returned but is deleted / not present in any file", p.T)
	}
	for _, p := range got {
		if seen[p.T] > 1 {
			return "duplicate-point", fmt.Sprintf("point t=%d is returned %d times", p.T, seen[p.T])
		}
	}
	for i := 1; i < len(got); i++ {
		if (cs.Asc && got[i].T <= got[i-1].T) || (!cs.Asc && got[i].T >= got[i-1].T) {
			return "out-of-order", fmt.Sprintf("t=%d is yielded after t=%d", got[i].T, got[i-1].T)
		}
	}
	for _, p := range got {
		w, ok := wantAt[p.T]
		if !ok {
			w = tsmkit.ObservedCode(typ, m.optional[p.T])
		}
		if p.Code != w {
			return "stale-value", fmt.Sprintf("point t=%d has value code %d, the newest file holding it live gives %d", p.T, p.Code, w)
		}
	}
	return "", ""
}

func method(cs Case) string {
	if cs.Array {
		return "KeyCursor.Read<T>ArrayBlock"
	}
	return "KeyCursor.Read<T>Block"
}

func dirName(asc bool) string {
	if asc {
		return "asc"
	}
	return "desc"
}

func sigOf(cs Case, clause string) string {
	tomb := "false"
	for _, f := range cs.Files {
		if len(f.Tombs) > 1 {
			tomb = "multi-range"
		} else if len(f.Tombs) == 1 && tomb == "false" {
			tomb = "true"
		}
	}
	return vlib.JoinSig(method(cs), dirName(cs.Asc), clause, fmt.Sprintf("files=%d,tombstones=%s", len(cs.Files), tomb))
}

func describe(cs Case) string {
	var fs []string
	for i, f := range cs.Files {
		fs = append(fs, fmt.Sprintf("file%d=%s tomb=%s", i+1, f.Blocks, f.Tombs))
	}
	return fmt.Sprintf("%s %s type=%s seek=%d over %s", method(cs), dirName(cs.Asc), cs.Type, cs.Seek, strings.Join(fs, "; "))
}

func fmtBlocks(blocks [][]tsmkit.Point) string {
	var sb strings.Builder
	for _, b := range blocks {
		sb.WriteString("[")
		for i, p := range b {
			if i > 0 {
				sb.WriteString(" ")
			}
			fmt.Fprintf(&sb, "%d:%d", p.T, p.Code)
		}
		sb.WriteString("]")
	}
	if sb.Len() == 0 {
		return "(nothing)"
	}
	return sb.String()
}

func fmtWant(m model, typ byte) string {
	w := make([]tsmkit.Point, len(m.want))
	for i, p := range m.want {
		w[i] = tsmkit.Point{T: p.T, Code: tsmkit.ObservedCode(typ, p.Code)}
	}
	s := fmtBlocks([][]tsmkit.Point{w})
	if len(m.optional) > 0 {
		s += fmt.Sprintf(" (+%d timestamps the statement is silent on)", len(m.optional))
	}
	return s
}

// ocKey is an outcome class (kept numeric in the hot loop, rendered once at the end).
type ocKey struct {
	asc, array, tomb, boolean, silent bool
	nblocks, nsources                 int8
	clause                            string
}

func (k ocKey) String() string {
	if k.clause != "" {
		return "VIOLATION/" + k.clause
	}
	form := "scalar"
	if k.array {
		form = "array"
	}
	s := fmt.Sprintf("%s/%s/blocks=%d", dirName(k.asc), form, k.nblocks)
	if k.boolean {
		s += "/boolean"
	} else {
		s += fmt.Sprintf("/sources=%d/tomb=%v", k.nsources, k.tomb)
	}
	if k.silent {
		s += "/statement-silent-ts"
	}
	return s
}

type tally struct {
	evals, nontrivial int64
	gapRuns           int64 // runs whose expected yield holds a live point of a block inside the span of >= 2 ranges
	oc                map[ocKey]int64
}

func (t *tally) flush(c *vlib.Ctx) {
	c.Eval(t.evals)
	c.NontrivialN(t.nontrivial)
	c.Extra("runs_live_point_between_tombstone_ranges", t.gapRuns)
	t.gapRuns = 0
	for k, n := range t.oc {
		c.OutcomeN(k.String(), n)
	}
	t.evals, t.nontrivial, t.oc = 0, 0, map[ocKey]int64{}
}

// runFileSet evaluates every cursor run over one opened set of files.
func runFileSet(c *vlib.Ctx, tl *tally, fs *tsm1.FileStore, files []FileSpec, maxT int64, via string) {
	anyTomb := false
	for _, f := range files {
		anyTomb = anyTomb || len(f.Tombs) > 0
	}
	gap := gapLive(files)
	for _, asc := range []bool{true, false} {
		for seek := int64(0); seek <= maxT+1; seek++ {
			m := reference(files, seek, asc)
			gapRun := false
			for _, p := range m.want {
				gapRun = gapRun || gap[p.T]
			}
			nontrivial := len(m.want) > 0 && (m.overlapping || gapRun)
			for _, array := range []bool{false, true} {
				for _, typ := range tsmkit.AllTypes {
					var blocks [][]tsmkit.Point
					var rerr error
					var capped bool
					panicked, pdesc := vlib.Guard(func() { blocks, rerr, capped = drive(fs, typ, seek, asc, array) })
					tl.evals++
					if nontrivial {
						tl.nontrivial++
					}
					if gapRun {
						tl.gapRuns++
					}
					cs := Case{Files: files, Seek: seek, Asc: asc, Array: array, Type: tsmkit.TypeName(typ), Via: via}
					if panicked {
						tl.oc[ocKey{clause: "panic"}]++
						c.Violation(vlib.JoinSig(method(cs), dirName(asc), "panic", strings.TrimSpace(pdesc[strings.LastIndex(pdesc, "@")+1:])), describe(cs)+": "+pdesc, cs)
						continue
					}
					clause, detail := judge(cs, typ, m, blocks, rerr, capped)
					if clause != "" {
						tl.oc[ocKey{clause: clause}]++
						c.Violation(sigOf(cs, clause), fmt.Sprintf("%s: %s; returned blocks %s, expected yield %s", describe(cs), detail, fmtBlocks(blocks), fmtWant(m, typ)), cs)
						continue
					}
					var src [16]bool
					ns := 0
					for _, b := range blocks {
						for _, p := range b {
							if f := (p.Code / 100) & 15; !src[f] {
								src[f] = true
								ns++
							}
						}
					}
					nb := len(blocks)
					if nb > 4 {
						nb = 4
					}
					k := ocKey{asc: asc, array: array, nblocks: int8(nb), silent: len(m.optional) > 0}
					if typ == tsm1.BlockBoolean {
						k.boolean = true
					} else {
						k.nsources, k.tomb = int8(ns), anyTomb
					}
					tl.oc[k]++
					if nontrivial && anyTomb && len(blocks) > 1 && c.WantSample() {
						c.Sample(map[string]any{"case": cs, "returned_blocks": fmtBlocks(blocks)})
					}
				}
			}
		}
	}
}

// openStore opens a real FileStore on dir.
func openStore(dir string) (*tsm1.FileStore, error) {
	fs := tsm1.NewFileStore(dir, tsdb.EngineTags{})
	if err := fs.Open(context.Background()); err != nil {
		return nil, err
	}
	return fs, nil
}

// pool holds the pre-built inputs of one family. Masters: one TSM file per (position, layout) at
// <dir>/g<pos>/l<li>/<gen>-000000001.tsm and one tombstone file per tombstone set at <dir>/tomb<ti>.tombstone
// (its content depends only on keys and ranges). File sets opened per case hard-link the masters into a case
// directory. In shared-reader mode every variant v = li*len(tombs)+ti of position pos is additionally linked
// at <dir>/g<pos>/v<v>/<gen>-000000001.tsm (+ .tombstone) and opened ONCE with a real TSMReader; comparing
// full paths orders files of different positions by generation exactly as in one shard directory.
type pool struct {
	dir     string
	layouts []tsmkit.Layout
	tombs   []tsmkit.TombSet
	readers [][]tsm1.TSMFile // [pos-1][variant], only in shared-reader mode
}

func (p *pool) nvariants() int { return len(p.layouts) * len(p.tombs) }
func (p *pool) master(pos, li int) string {
	return filepath.Join(p.dir, fmt.Sprintf("g%d", pos), fmt.Sprintf("l%04d", li), tsmkit.FileName(pos, 1))
}
func (p *pool) tombMaster(ti int) string {
	return tsmkit.TombstonePath(filepath.Join(p.dir, fmt.Sprintf("tomb%d.tsm", ti)))
}
func (p *pool) tsm(pos, v int) string {
	return filepath.Join(p.dir, fmt.Sprintf("g%d", pos), fmt.Sprintf("v%05d", v), tsmkit.FileName(pos, 1))
}

func openReader(path string) (*tsm1.TSMReader, error) {
	f, err := os.Open(path)
	if err != nil {
		return nil, err
	}
	return tsm1.NewTSMReader(f, tsm1.WithParseFileNameFunc(tsm1.DefaultParseFileName))
}

func buildPool(dir string, nfiles int, layouts []tsmkit.Layout, tombs []tsmkit.TombSet, sharedReaders bool) (*pool, error) {
	p := &pool{dir: dir, layouts: layouts, tombs: tombs}
	if err := os.MkdirAll(dir, 0o777); err != nil {
		return nil, err
	}
	keys := allKeys()
	for ti, ts := range tombs {
		if len(ts) > 0 {
			if err := tsmkit.WriteTombstone(filepath.Join(dir, fmt.Sprintf("tomb%d.tsm", ti)), keys, ts); err != nil {
				return nil, err
			}
		}
	}
	for pos := 1; pos <= nfiles; pos++ {
		var rs []tsm1.TSMFile
		for li, l := range layouts {
			if err := os.MkdirAll(filepath.Dir(p.master(pos, li)), 0o777); err != nil {
				return nil, err
			}
			if err := tsmkit.WriteTSM(p.master(pos, li), pos, keyData(l)); err != nil {
				return nil, err
			}
			if !sharedReaders {
				continue
			}
			for ti, ts := range tombs {
				path := p.tsm(pos, li*len(tombs)+ti)
				if err := os.MkdirAll(filepath.Dir(path), 0o777); err != nil {
					return nil, err
				}
				if err := os.Link(p.master(pos, li), path); err != nil {
					return nil, err
				}
				if len(ts) > 0 {
					if err := os.Link(p.tombMaster(ti), tsmkit.TombstonePath(path)); err != nil {
						return nil, err
					}
				}
				r, err := openReader(path)
				if err != nil {
					return nil, err
				}
				rs = append(rs, r)
			}
		}
		p.readers = append(p.readers, rs)
	}
	return p, nil
}

// linkCase hard-links the files of one file set (and, if withTombs, their tombstone files) into cdir under
// generation-ordered names and returns the TSM paths, oldest first.
func (p *pool) linkCase(cdir string, choice []int, withTombs bool) ([]string, error) {
	if err := os.Mkdir(cdir, 0o777); err != nil {
		return nil, err
	}
	nt := len(p.tombs)
	var paths []string
	for i, v := range choice {
		dst := filepath.Join(cdir, tsmkit.FileName(i+1, 1))
		if err := os.Link(p.master(i+1, v/nt), dst); err != nil {
			return nil, err
		}
		if withTombs && len(p.tombs[v%nt]) > 0 {
			if err := os.Link(p.tombMaster(v%nt), tsmkit.TombstonePath(dst)); err != nil {
				return nil, err
			}
		}
		paths = append(paths, dst)
	}
	return paths, nil
}

func (p *pool) close() {
	for _, rs := range p.readers {
		for _, r := range rs {
			r.Close()
		}
	}
	os.RemoveAll(p.dir)
}

const (
	viaOpen   = "FileStore.Open"             // files + tombstone files hard-linked into one directory, opened with the real FileStore.Open
	viaPooled = "pooled-readers"             // real TSMReaders (tombstones loaded from disk) handed to a FileStore
	viaLive   = "FileStore.Open+DeleteRange" // files opened without tombstone files; every range applied in recorded order with FileStore.DeleteRange
)

// liveDelete applies a tombstone set to an open FileStore the way a delete request does.
func liveDelete(fs *tsm1.FileStore, ts tsmkit.TombSet) error {
	for _, r := range ts {
		if err := fs.DeleteRange(allKeys(), r.Min, r.Max); err != nil {
			return err
		}
	}
	return nil
}

// family is one enumerated family of file sets: every nfiles-tuple of (layout, tombstone set) variants
// over {1..maxT} whose tuple of tombstone-set indices passes allow.
type family struct {
	what      string
	via       string
	nfiles    int
	maxT      int64
	maxBlocks int
	tombs     []tsmkit.TombSet    // per-file tombstone family, tombs[0] = none
	allow     func(ti []int) bool // nil: every combination
	perCase   bool                // viaPooled only: open the TSMReaders per file set instead of once per variant
}

// atMostTomb allows tuples with at most n files carrying a tombstone set.
func atMostTomb(n int) func([]int) bool {
	return func(ti []int) bool {
		k := 0
		for _, t := range ti {
			if t != 0 {
				k++
			}
		}
		return k <= n
	}
}

// oneMulti allows tuples where exactly one file carries a set of index >= first (the multi-range sets) and
// every other file one of index < first.
func oneMulti(first int) func([]int) bool {
	return func(ti []int) bool {
		k := 0
		for _, t := range ti {
			if t >= first {
				k++
			}
		}
		return k == 1
	}
}

// explore enumerates the family; false = stop the run (budget or harness error).
func explore(c *vlib.Ctx, scratch string, idx *int64, fam family) bool {
	what, via, nfiles, maxT := fam.what, fam.via, fam.nfiles, fam.maxT
	layouts := tsmkit.Layouts(int(maxT), fam.maxBlocks)
	tombs := fam.tombs
	shared := via == viaPooled && !fam.perCase
	if c.Expired() {
		c.Cap("budget expired before " + what)
		return false
	}
	t0 := time.Now()
	p, err := buildPool(filepath.Join(scratch, "pool"), nfiles, layouts, tombs, shared)
	if err != nil {
		c.HarnessError("building file pool: " + err.Error())
		return false
	}
	c.Logf("%s: pool built (%d variants x %d positions) at %s", what, p.nvariants(), nfiles, time.Since(t0))
	defer func() { c.Logf("%s: done at %s", what, time.Since(t0)) }()
	defer p.close()
	tl := &tally{oc: map[ocKey]int64{}}
	defer tl.flush(c)
	cdir := filepath.Join(scratch, "case")
	nv := p.nvariants()
	nt := len(tombs)
	choice := make([]int, nfiles)
	ti := make([]int, nfiles)
	var done int64
	for {
		ok := true
		if fam.allow != nil {
			for i, v := range choice {
				ti[i] = v % nt
			}
			ok = fam.allow(ti)
		}
		if ok {
			*idx++
		}
		if ok && c.Mine(*idx) {
			if done++; done%8 == 0 && c.Expired() {
				c.Cap("budget expired during " + what)
				return false
			}
			files := make([]FileSpec, nfiles)
			multi := false
			for i, v := range choice {
				files[i] = FileSpec{Blocks: layouts[v/nt], Tombs: tombs[v%nt]}
				multi = multi || len(tombs[v%nt]) > 1
			}
			switch {
			case shared:
				rs := make([]tsm1.TSMFile, nfiles)
				for i, v := range choice {
					rs[i] = p.readers[i][v] // ascending by path: g1/.. < g2/.. < g3/..
				}
				runFileSet(c, tl, tsm1.VerifFileStoreOf(rs), files, maxT, via)
			case via == viaPooled:
				paths, err := p.linkCase(cdir, choice, true)
				if err != nil {
					c.HarnessError(err.Error())
					return false
				}
				rs := make([]tsm1.TSMFile, 0, nfiles)
				for _, path := range paths {
					r, err := openReader(path)
					if err != nil {
						c.HarnessError("NewTSMReader: " + err.Error())
						return false
					}
					rs = append(rs, r)
				}
				runFileSet(c, tl, tsm1.VerifFileStoreOf(rs), files, maxT, via)
				for _, r := range rs {
					r.Close()
				}
				os.RemoveAll(cdir)
			default: // viaOpen, viaLive
				if _, err := p.linkCase(cdir, choice, via == viaOpen); err != nil {
					c.HarnessError(err.Error())
					return false
				}
				fs, err := openStore(cdir)
				if err != nil {
					c.HarnessError("FileStore.Open: " + err.Error())
					return false
				}
				if via == viaLive {
					// one delete history for the whole store: only single-file families use this path
					if err := liveDelete(fs, files[0].Tombs); err != nil {
						c.HarnessError("FileStore.DeleteRange: " + err.Error())
						return false
					}
				}
				runFileSet(c, tl, fs, files, maxT, via)
				fs.Close()
				os.RemoveAll(cdir)
			}
			c.Extra("file_sets_"+strings.NewReplacer(".", "_", "+", "_").Replace(via), 1)
			if multi {
				c.Extra("file_sets_with_multi_range_tombstones", 1)
			}
		}
		// odometer, last file fastest
		k := nfiles - 1
		for k >= 0 {
			choice[k]++
			if choice[k] < nv {
				break
			}
			choice[k] = 0
			k--
		}
		if k < 0 {
			return true
		}
	}
}

// replayCase rebuilds the files of one case from scratch, puts them into a FileStore the same way as the
// exploration did (FileStore.Open / TSMReaders handed over / Open followed by DeleteRange) and runs the one cursor.
func replayCase(cs Case) (bool, string) {
	typ, ok := tsmkit.TypeByName(cs.Type)
	if !ok {
		return false, "bad type " + cs.Type
	}
	dir := vlib.Scratch("c06-replay-")
	defer os.RemoveAll(dir)
	clean := func(s string) string { return strings.ReplaceAll(s, dir, "<dir>") }
	var fs *tsm1.FileStore
	var rs []tsm1.TSMFile
	for i, f := range cs.Files {
		path := filepath.Join(dir, tsmkit.FileName(i+1, 1))
		if err := tsmkit.WriteTSM(path, i+1, keyData(f.Blocks)); err != nil {
			return false, "harness: " + clean(err.Error())
		}
		if cs.Via != viaLive {
			if err := tsmkit.WriteTombstone(path, allKeys(), f.Tombs); err != nil {
				return false, "harness: " + clean(err.Error())
			}
		}
		if cs.Via == viaPooled {
			r, err := openReader(path)
			if err != nil {
				return false, "harness: " + clean(err.Error())
			}
			defer r.Close()
			rs = append(rs, r)
		}
	}
	if cs.Via == viaPooled {
		fs = tsm1.VerifFileStoreOf(rs)
	} else {
		var err error
		if fs, err = openStore(dir); err != nil {
			return false, "harness: " + clean(err.Error())
		}
		defer fs.Close()
		if cs.Via == viaLive {
			if len(cs.Files) != 1 {
				return false, "harness: the DeleteRange path takes single-file cases only"
			}
			if err := liveDelete(fs, cs.Files[0].Tombs); err != nil {
				return false, "harness: " + clean(err.Error())
			}
		}
	}
	m := reference(cs.Files, cs.Seek, cs.Asc)
	var blocks [][]tsmkit.Point
	var rerr error
	var capped bool
	if p, d := vlib.Guard(func() { blocks, rerr, capped = drive(fs, typ, cs.Seek, cs.Asc, cs.Array) }); p {
		return true, describe(cs) + ": " + clean(d)
	}
	clause, detail := judge(cs, typ, m, blocks, rerr, capped)
	obs := fmt.Sprintf("%s (via %s)\nreturned blocks (t:valuecode, valuecode=100*file+t; boolean: parity of file): %s\nexpected yield: %s\nverdict: %s %s",
		describe(cs), cs.Via, fmtBlocks(blocks), fmtWant(m, typ), clause, clean(detail))
	return clause != "", obs
}

func TestCheck(t *testing.T) {
	vlib.Main(t, &vlib.Check{
		ID: "C06", Level: "exploration",
		Rule: "one series key per block type (5 keys with identical layout per file); file = any non-empty subset of timestamps {1..N} split into 1-B contiguous blocks (B=2: N=5 80 layouts, N=4 32, N=3 12, N=2 4; B=3: N=6 303, N=5 111, N=4 39) x a tombstone set, written with the real TSMWriter/Tombstoner. " +
			"BASE tombstone family: {none, whole key, [2,3], [1,1], [N,N+4], [1,1]+[2,3]}. MULTI-RANGE families over the grid ranges [a,b], 1<=a<=b<=N: P2(N) = every set of 2 distinct ranges (disjoint with a gap, adjacent, overlapping, nested; N=3: 15, N=4: 45, N=5: 105, N=6: 210), O2(N) = the same in both recording orders, D2(N) = the sets of O2(N) whose ranges do not intersect (separated by a gap, or adjacent; N=4: 30), G2(N) = the sets of P2(N) with at least one grid timestamp between the two ranges (N=4: 5), P3(N) = every set of 3 distinct ranges (N=4: 120, N=5: 455). " +
			"QUICK: (a) every ordered pair of files for N=2,B=2, all 6x6 BASE combinations, hard-linked into a directory and opened with the real FileStore.Open; (m1) every single file N=4,B=3 x {none}+O2(4), tombstone file loaded by FileStore.Open; (m2) every single file N=4,B=3 x {none}+D2(4), file opened without tombstones and every range applied in recorded order with FileStore.DeleteRange; (m4) every ordered pair of files N=4,B=2 where exactly one file (either position) carries a set of G2(4) and the other none; (b) every ordered pair for N=4,B=2, all BASE combinations; (c) every ordered pair for N=5,B=2 with a BASE set on at most one file. " +
			"THOROUGH: (a) as quick but N=4; (m1),(m2) both with {none}+O2(4)+P3(4); (m3) every single file N=5,B=3 x {none}+O2(5)+P3(5); (b) every ordered pair for N=5, all BASE combinations; (m4) exactly one file carries any set of P2(4), the other none or [2,3]; (c) every ordered triple for N=3 with all 6^3 BASE combinations; (d) every ordered triple for N=5 without tombstones; (m6) every ordered triple N=3,B=2 where exactly one file (any position) carries a set of P2(3) and the others none; (m5) every single file N=6,B=3 x {none}+P2(6); (e) every ordered triple for N=4 with all 6^3 BASE combinations (the largest family, last: the budget may cap it). " +
			"(m3)-(m6),(b)-(e) use real TSMReaders (tombstones loaded from disk) handed to a FileStore in path order. " +
			"Per file set: every seek time 0..N+1 x ascending/descending x Read<T>Block/Read<T>ArrayBlock x 5 block types, driven read, Next(), read ... until an empty block; one evaluation = one cursor run; oracle = newest-file-wins merge of per-file live points (a point is live when NO range of its file's set covers it) restricted to the seek side, compared in consumer yield order; " +
			"non-trivial = runs whose expected yield is non-empty and where either blocks of two different files overlap in time or the yield holds a point that is live in a block lying inside the overall span [smallest Min, largest Max] of the >=2 tombstone ranges of its file, i.e. in the gap between ranges (distinct by construction; the latter are also counted in extra.runs_live_point_between_tombstone_ranges)",
		Assumptions: []string{
			"a point is live in a file when no tombstone range of that file covers it; where the newest file holding a timestamp has it tombstoned but an older file holds it live the statement is silent and both answers are accepted",
			"a descending cursor yields each returned block back-to-front (as tsm1's descending array cursors consume it)",
			"the end of a cursor is the first empty block (as tsm1's cursors treat it)",
			"boolean values can only encode the parity of the writing file's number",
			"pooled-reader file sets bypass FileStore.Open (an add-only export sets FileStore.files; readers are opened once per variant, or once per file set in the single-file families); FileStore.Open itself is covered by families (a),(m1),(m2)",
			"FileStore.DeleteRange applies a range to every file of the store, so the delete-on-open-store path (m2) is enumerated for single-file stores only; multi-file sets with per-file tombstone sets load them from tombstone files",
			"multi-range sets sit on one file of a set; the other files carry none (thorough pairs: none or [2,3])",
		},
		QuickBudgetS: 60, ThoroughBudgetS: 800,
		Run: func(c *vlib.Ctx) {
			// 16 worker processes share 16 cores; mmap/munmap get much slower with many threads per process
			runtime.GOMAXPROCS(2)
			scratch := vlib.Scratch("c06-")
			defer os.RemoveAll(scratch)
			var idx int64
			base := func(n int64) []tsmkit.TombSet { return tombVariants(n) }
			run := func(f family) bool { return explore(c, scratch, &idx, f) }
			if c.Quick() {
				o24 := withNone(rangeSets(4, 2, true))
				d24 := withNone(apart(rangeSets(4, 2, true), 0))
				_ = run(family{what: "(a) pairs N=2 via FileStore.Open", via: viaOpen, nfiles: 2, maxT: 2, maxBlocks: 2, tombs: base(2)}) &&
					run(family{what: "(m1) single file N=4 B=3, ordered 2-range sets, via FileStore.Open", via: viaOpen, nfiles: 1, maxT: 4, maxBlocks: 3, tombs: o24}) &&
					run(family{what: "(m2) single file N=4 B=3, ordered non-intersecting 2-range sets, via DeleteRange", via: viaLive, nfiles: 1, maxT: 4, maxBlocks: 3, tombs: d24}) &&
					run(family{what: "(m4) pairs N=4, 2-range set with a gap on exactly one file", via: viaPooled, nfiles: 2, maxT: 4, maxBlocks: 2, tombs: withNone(apart(rangeSets(4, 2, false), 1)), allow: oneMulti(1)}) &&
					run(family{what: "(b) pairs N=4", via: viaPooled, nfiles: 2, maxT: 4, maxBlocks: 2, tombs: base(4)}) &&
					run(family{what: "(c) pairs N=5 (tombstones on <=1 file)", via: viaPooled, nfiles: 2, maxT: 5, maxBlocks: 2, tombs: base(5), allow: atMostTomb(1)})
				return
			}
			o24 := withNone(rangeSets(4, 2, true), rangeSets(4, 3, false))
			_ = run(family{what: "(a) pairs N=4 via FileStore.Open", via: viaOpen, nfiles: 2, maxT: 4, maxBlocks: 2, tombs: base(4)}) &&
				run(family{what: "(m1) single file N=4 B=3, ordered 2-range and 3-range sets, via FileStore.Open", via: viaOpen, nfiles: 1, maxT: 4, maxBlocks: 3, tombs: o24}) &&
				run(family{what: "(m2) single file N=4 B=3, ordered 2-range and 3-range sets, via DeleteRange", via: viaLive, nfiles: 1, maxT: 4, maxBlocks: 3, tombs: o24}) &&
				run(family{what: "(m3) single file N=5 B=3, ordered 2-range and 3-range sets", via: viaPooled, perCase: true, nfiles: 1, maxT: 5, maxBlocks: 3, tombs: withNone(rangeSets(5, 2, true), rangeSets(5, 3, false))}) &&
				run(family{what: "(b) pairs N=5", via: viaPooled, nfiles: 2, maxT: 5, maxBlocks: 2, tombs: base(5)}) &&
				run(family{what: "(m4) pairs N=4, any 2-range set on exactly one file, other none or [2,3]", via: viaPooled, nfiles: 2, maxT: 4, maxBlocks: 2,
					tombs: append([]tsmkit.TombSet{nil, {{Min: 2, Max: 3}}}, rangeSets(4, 2, false)...), allow: oneMulti(2)}) &&
				run(family{what: "(c) triples N=3", via: viaPooled, nfiles: 3, maxT: 3, maxBlocks: 2, tombs: base(3)}) &&
				run(family{what: "(d) triples N=5 without tombstones", via: viaPooled, nfiles: 3, maxT: 5, maxBlocks: 2, tombs: withNone()}) &&
				run(family{what: "(m6) triples N=3, any 2-range set on exactly one file", via: viaPooled, nfiles: 3, maxT: 3, maxBlocks: 2, tombs: withNone(rangeSets(3, 2, false)), allow: oneMulti(1)}) &&
				run(family{what: "(m5) single file N=6 B=3, 2-range sets", via: viaPooled, perCase: true, nfiles: 1, maxT: 6, maxBlocks: 3, tombs: withNone(rangeSets(6, 2, false))}) &&
				run(family{what: "(e) triples N=4", via: viaPooled, nfiles: 3, maxT: 4, maxBlocks: 2, tombs: base(4)})
		},
		Replay: func(c *vlib.Ctx, raw json.RawMessage) (bool, string) {
			var cs Case
			if err := json.Unmarshal(raw, &cs); err != nil {
				return false, err.Error()
			}
			return replayCase(cs)
		},
	})
}
