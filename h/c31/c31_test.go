// C31: resource IDs round-trip and generated IDs are unique.
//
// Part 1 (inputs, enum): platform.ID Encode/Decode against a hand-written canonical-form reference over boundary ids,
// single/double character edits of valid encodings, insertions/deletions and all short strings.
// Part 2 (inputs, sequential generator): every op sequence over {Next, clock +1ms, clock -1ms} on the real
// snowflake generators inside synctest bubbles (fake clock), from start sequences {fresh, 0, 4094, 4095}.
// Part 3 (schedules, vsched): 2-3 real goroutines calling the real generator, pkg/snowflake/gen.go compiled against the
// modelled sync/atomic, every interleaving up to a preemption bound, with clock ticks in the middle of calls.
package c31

import (
	"encoding/hex"
	"encoding/json"
	"fmt"
	"sort"
	"strings"
	"testing"
	"testing/synctest"
	"time"

	"github.com/influxdata/influxdb/v2/kit/platform"
	psnow "github.com/influxdata/influxdb/v2/pkg/snowflake"
	"github.com/influxdata/influxdb/v2/pkg/verifrt/vrt"
	"github.com/influxdata/influxdb/v2/pkg/verifrt/vsync"
	"github.com/influxdata/influxdb/v2/snowflake"
	"verif/h/vlib"
)

// ---------------------------------------------------------------------------------------------
// Part 1: Encode / Decode
// ---------------------------------------------------------------------------------------------

const lowerHex = "0123456789abcdef"

// refEncode is the statement's encoding: 16 lowercase hex characters, most significant nibble first.
func refEncode(id uint64) string {
	var b [16]byte
	for i := 15; i >= 0; i-- {
		b[i] = lowerHex[id&0xf]
		id >>= 4
	}
	return string(b[:])
}

// canonical reports whether s is the encoding of a valid (non-zero) id, and which.
func canonical(s string) (uint64, bool) {
	if len(s) != 16 {
		return 0, false
	}
	var v uint64
	for i := 0; i < 16; i++ {
		k := strings.IndexByte(lowerHex, s[i])
		if k < 0 {
			return 0, false
		}
		v = v<<4 | uint64(k)
	}
	return v, v != 0
}

// hexDigits is the reference table of the 22 valid hex characters and their values, spelled out one by one.
var hexDigits = [22]struct {
	c byte
	v uint64
}{
	{'0', 0}, {'1', 1}, {'2', 2}, {'3', 3}, {'4', 4}, {'5', 5}, {'6', 6}, {'7', 7}, {'8', 8}, {'9', 9},
	{'a', 10}, {'b', 11}, {'c', 12}, {'d', 13}, {'e', 14}, {'f', 15},
	{'A', 10}, {'B', 11}, {'C', 12}, {'D', 13}, {'E', 14}, {'F', 15},
}

// hexVal looks one byte up in the table: (value, is-hex, is-upper-case-letter).
func hexVal(c byte) (uint64, bool, bool) {
	for i, d := range hexDigits {
		if d.c == c {
			return d.v, true, i >= 16
		}
	}
	return 0, false, false
}

// foldedValue: the value the 16 hex digits of s stand for when the case of the letters is ignored. ok = s is 16 bytes
// of [0-9a-fA-F]. Used only to sub-classify strings the statement rejects (upper case) but the code accepts.
func foldedValue(s string) (v uint64, ok bool) {
	if len(s) != 16 {
		return 0, false
	}
	for i := 0; i < 16; i++ {
		d, isHex, _ := hexVal(s[i])
		if !isHex {
			return 0, false
		}
		v = v<<4 | d
	}
	return v, true
}

func classOf(s string) string {
	switch {
	case len(s) < 16:
		return "len<16"
	case len(s) > 16:
		return "len>16"
	}
	allHex, upper, zero := true, false, true
	ctl, high := false, false
	for i := 0; i < len(s); i++ {
		c := s[i]
		_, isHex, isUp := hexVal(c)
		switch {
		case isHex && isUp:
			upper = true
		case isHex:
		default:
			allHex = false
			if c < 0x20 {
				ctl = true
			} else if c >= 0x80 {
				high = true
			}
		}
		if c != '0' {
			zero = false
		}
	}
	switch {
	case zero:
		return "all-zero"
	case allHex && upper:
		return "uppercase-hex"
	case allHex:
		return "lowercase-hex"
	case ctl:
		return "non-hex-char/control-byte"
	case high:
		return "non-hex-char/high-byte"
	}
	return "non-hex-char/printable"
}

var decodeAPIs = []string{"Decode", "DecodeFromString", "IDFromString", "UnmarshalText", "Scan", "json.Unmarshal"}

type decRes struct {
	OK  bool
	Val uint64
}

// jsonLiteral is the JSON string literal that denotes exactly the bytes of s (control bytes, quote and backslash
// escaped). Bytes >= 0x80 have no such literal here (encoding/json replaces invalid UTF-8): not applicable.
func jsonLiteral(s string) (string, bool) {
	var sb strings.Builder
	sb.WriteByte('"')
	for i := 0; i < len(s); i++ {
		c := s[i]
		switch {
		case c >= 0x80:
			return "", false
		case c < 0x20:
			fmt.Fprintf(&sb, `\u%04x`, c)
		case c == '"' || c == '\\':
			sb.WriteByte('\\')
			sb.WriteByte(c)
		default:
			sb.WriteByte(c)
		}
	}
	sb.WriteByte('"')
	return sb.String(), true
}

func decodeVia(api, s string) (r decRes, applicable bool) {
	var id platform.ID
	var err error
	switch api {
	case "Decode":
		err = id.Decode([]byte(s))
	case "DecodeFromString":
		err = id.DecodeFromString(s)
	case "IDFromString":
		var p *platform.ID
		p, err = platform.IDFromString(s)
		if err == nil {
			if p == nil {
				return decRes{}, true
			}
			id = *p
		}
	case "UnmarshalText":
		err = id.UnmarshalText([]byte(s))
	case "Scan":
		err = id.Scan(s)
	case "json.Unmarshal":
		lit, ok := jsonLiteral(s)
		if !ok {
			return decRes{}, false
		}
		err = json.Unmarshal([]byte(lit), &id)
	}
	if err != nil {
		return decRes{}, true
	}
	return decRes{true, uint64(id)}, true
}

type vio struct{ Sig, Msg string }

// judgeDecode: a string is accepted exactly when it is the canonical encoding of a non-zero id, and then yields that id.
func judgeDecode(s string) (vs []vio, outcome string) {
	want, isCanon := canonical(s)
	folded, isHex16 := foldedValue(s)
	verdict := func(r decRes) string {
		switch {
		case r.OK && !isCanon && isHex16 && folded != 0 && r.Val != folded:
			// a spelling the statement rejects anyway; kept apart from the plain acceptance of upper-case digits
			return "accepted-noncanonical/" + classOf(s) + "/and-not-the-value-of-its-hex-digits"
		case r.OK && !isCanon:
			return "accepted-noncanonical/" + classOf(s)
		case !r.OK && isCanon:
			return "rejected-canonical"
		case r.OK && r.Val != want:
			return "wrong-value"
		}
		return ""
	}
	var base decRes
	var baseBad string
	for _, api := range decodeAPIs {
		var r decRes
		var app bool
		if p, d := vlib.Guard(func() { r, app = decodeVia(api, s) }); p {
			vs = append(vs, vio{"decode/ID." + api + "/panic", fmt.Sprintf("%s(%q): %s", api, s, d)})
			continue
		}
		if !app {
			continue
		}
		bad := verdict(r)
		if api == "Decode" {
			base, baseBad = r, bad
			if r.OK {
				outcome = "decode:accepted/" + classOf(s)
			} else {
				outcome = "decode:rejected/" + classOf(s)
			}
		} else if bad != "" && baseBad == bad && r == base {
			continue // same wrong answer as ID.Decode, which every wrapper delegates to: one class, reported there
		}
		if bad != "" {
			got := "rejected"
			if r.OK {
				got = fmt.Sprintf("accepted as id %#x", r.Val)
			}
			exp := "a rejection (not the 16-character lowercase hex encoding of a non-zero id)"
			if strings.HasSuffix(bad, "/and-not-the-value-of-its-hex-digits") {
				exp += fmt.Sprintf("; its hex digits read without regard to case stand for %#x", folded)
			}
			if isCanon {
				exp = fmt.Sprintf("id %#x", want)
			}
			vs = append(vs, vio{"decode/ID." + api + "/" + bad, fmt.Sprintf("platform.ID.%s(%q) %s; the statement demands %s", api, s, got, exp)})
		}
	}
	// Encode(Decode(s)): whatever non-zero id Decode produced is a valid id, so it must encode to its 16 lower-case hex
	// digits (= s itself for a canonical s, = lower(s) for an accepted upper-case spelling).
	if base.OK && base.Val != 0 {
		var b []byte
		var err error
		if p, d := vlib.Guard(func() { b, err = platform.ID(base.Val).Encode() }); p {
			vs = append(vs, vio{"decode-then-encode/ID.Encode/panic", fmt.Sprintf("Decode(%q) then Encode: %s", s, d)})
		} else if wantEnc := refEncode(base.Val); err != nil || string(b) != wantEnc {
			vs = append(vs, vio{"decode-then-encode/ID.Encode/differs", fmt.Sprintf("platform.ID.Decode(%q) gave id %#x whose Encode() = %q, %v; the statement demands %q", s, base.Val, b, err, wantEnc)})
		}
	}
	return
}

// judgeEncode: a valid id encodes to 16 lowercase hex chars = refEncode(id) and every decoder maps that back to id.
func judgeEncode(idv uint64) (vs []vio, outcome string) {
	id := platform.ID(idv)
	want := refEncode(idv)
	add := func(sig, msg string) { vs = append(vs, vio{sig, msg}) }
	var b []byte
	var err error
	if p, d := vlib.Guard(func() { b, err = id.Encode() }); p {
		add("encode/ID.Encode/panic", d)
		return vs, "encode:panic"
	}
	switch {
	case err != nil:
		add("encode/ID.Encode/error-on-valid-id", fmt.Sprintf("ID(%#x).Encode() = error %v", idv, err))
	case string(b) != want:
		kind := "wrong-digits"
		if len(b) != 16 {
			kind = "not-16-chars"
		} else if strings.ToLower(string(b)) == want {
			kind = "not-lowercase"
		}
		add("encode/ID.Encode/"+kind, fmt.Sprintf("ID(%#x).Encode() = %q, want %q", idv, b, want))
	}
	if s := id.String(); s != want {
		add("encode/ID.String/differs", fmt.Sprintf("ID(%#x).String() = %q, want %q", idv, s, want))
	}
	if mt, err := id.MarshalText(); err != nil || string(mt) != want {
		add("encode/ID.MarshalText/differs", fmt.Sprintf("ID(%#x).MarshalText() = %q, %v; want %q", idv, mt, err, want))
	}
	if js, err := json.Marshal(id); err != nil || string(js) != `"`+want+`"` {
		add("encode/json.Marshal/differs", fmt.Sprintf("json.Marshal(ID(%#x)) = %s, %v; want %q", idv, js, err, want))
	}
	// round trip of whatever Encode produced (when it produced something)
	if err == nil {
		for _, api := range decodeAPIs {
			r, app := decodeVia(api, string(b))
			if app && (!r.OK || r.Val != idv) {
				add("roundtrip/ID."+api+"/different-id", fmt.Sprintf("ID(%#x).Encode() = %q but %s of it gives ok=%v id=%#x", idv, b, api, r.OK, r.Val))
			}
		}
	}
	return vs, "encode:ok"
}

// the edit alphabet: hex digits of both cases, the characters adjacent to the three hex ranges in ASCII
// ('/' ':' '@' 'G' '`' 'g'), sign/prefix/separator characters strconv knows about, blanks, NUL, DEL, a high byte.
const sigma = "0123456789abcdefABCDEF/:@G`ggzxX+-_ .\n\t\x00\x7f\xff"

func sigmaSet() []byte {
	seen := map[byte]bool{}
	var out []byte
	for i := 0; i < len(sigma); i++ {
		if !seen[sigma[i]] {
			seen[sigma[i]] = true
			out = append(out, sigma[i])
		}
	}
	return out
}

func boundaryIDs() []uint64 {
	seen := map[uint64]bool{}
	var out []uint64
	add := func(v uint64) {
		if v != 0 && !seen[v] {
			seen[v] = true
			out = append(out, v)
		}
	}
	add(1)
	for k := 1; k < 64; k++ {
		add(1<<k - 1)
		add(1 << k)
		add(1<<k + 1)
	}
	add(^uint64(0))
	add(^uint64(0) - 1)
	for pos := 0; pos < 16; pos++ { // every nibble value at every position, on an all-0 and an all-f background
		for v := uint64(0); v < 16; v++ {
			add(v << (4 * pos))
			add(^uint64(0)&^(0xf<<(4*pos)) | v<<(4*pos))
		}
	}
	add(0x0123456789abcdef)
	add(0xfedcba9876543210)
	return out
}

var baseEncodings = []string{
	"0000000000000001", "ffffffffffffffff", "0123456789abcdef", "8000000000000000", "00000000000000a0", "a000000000000000",
	"0000000000000000", // not valid itself: its one-edit neighbours are the smallest valid encodings
	"fedcba9876543210", "7fffffffffffffff", "0a0b0c0d0e0f0a0b", "1000000000000000", "000000000000000f",
}

// fullBases: 16-byte strings whose whole byte neighbourhood is enumerated. The first 5 are non-zero spellings in lower,
// upper and mixed case (the latter two are hex but not canonical); the all-zero string's neighbours are the smallest ids.
var fullBases = []string{
	"0000000000000001", "ffffffffffffffff", "0123456789abcdef", "FEDCBA9876543210", "0a1B2c3D4e5F6A7b",
	"0000000000000000", "8000000000000000",
	// thorough only
	"FFFFFFFFFFFFFFFF", "fedcba9876543210", "7fffffffffffffff", "000000000000000A", "1000000000000000", "aAbBcCdDeEfF0910",
}

// pairBytes: bytes substituted at two positions at once: NUL, the control bytes that differ from '0' and '9' in one bit
// (0x10, 0x19), blank, the ASCII neighbours of the three hex ranges, DEL, the first and last high byte, sign / separator /
// prefix characters, and a few valid digits of each range (so that a bad byte meets a changed good one).
var pairBytes = []byte{0x00, 0x10, 0x19, 0x20, '/', ':', '@', 'G', '`', 'g', 0x7f, 0x80, 0xff, '+', '-', '_', 'x', '0', '1', '9', 'a', 'f', 'A', 'F'}

// enumByteFamilies: the full byte domain around each base.
//
//	sub1-byte: EVERY byte value 0..255 at EVERY one of the 16 positions;
//	sub2-byte: every pair of positions x pairBytes x pairBytes;
//	sub2-all:  (thorough) every pair of byte values 0..255 x 0..255 at 6 position pairs;
//	len:       every length 0..33 of the repeated base, of its zero-extension to the right / left, of its tail.
func enumByteFamilies(thorough bool, f func(fam, s string)) {
	bases, pairBases := fullBases[:7], fullBases[:5]
	if thorough {
		bases, pairBases = fullBases, fullBases
	}
	for _, b := range bases {
		for pos := 0; pos < 16; pos++ {
			for ch := 0; ch < 256; ch++ {
				e := []byte(b)
				e[pos] = byte(ch)
				f("sub1-byte", string(e))
			}
		}
	}
	zeros := strings.Repeat("0", 34)
	for _, b := range bases {
		for n := 0; n <= 33; n++ {
			f("len", (b + b + b)[:n])
			f("len", (b + zeros)[:n])
			if n >= 16 {
				f("len", zeros[:n-16]+b)
			} else {
				f("len", b[16-n:])
			}
		}
	}
	for _, b := range pairBases {
		for i := 0; i < 16; i++ {
			for j := i + 1; j < 16; j++ {
				for _, c1 := range pairBytes {
					for _, c2 := range pairBytes {
						e := []byte(b)
						e[i], e[j] = c1, c2
						f("sub2-byte", string(e))
					}
				}
			}
		}
	}
	if thorough {
		for _, b := range fullBases[:5] {
			for _, p := range [][2]int{{0, 1}, {7, 8}, {14, 15}, {0, 15}, {0, 8}, {3, 12}} {
				for c1 := 0; c1 < 256; c1++ {
					for c2 := 0; c2 < 256; c2++ {
						e := []byte(b)
						e[p[0]], e[p[1]] = byte(c1), byte(c2)
						f("sub2-all", string(e))
					}
				}
			}
		}
	}
}

// enumStrings calls f for every string of the family in a fixed order (simplest first).
func enumStrings(thorough bool, f func(fam, s string)) {
	S := sigmaSet()
	bases := baseEncodings[:7]
	if thorough {
		bases = baseEncodings
	}
	// short strings
	f("short", "")
	for _, a := range S {
		f("short", string([]byte{a}))
	}
	for _, a := range S {
		for _, b := range S {
			f("short", string([]byte{a, b}))
		}
	}
	for _, a := range S {
		for _, b := range S {
			for _, c := range S {
				f("short", string([]byte{a, b, c}))
			}
		}
	}
	for _, b := range bases {
		f("base", b)
		for pos := 0; pos < 16; pos++ {
			for _, ch := range S {
				if b[pos] == ch {
					continue
				}
				e := []byte(b)
				e[pos] = ch
				f("sub1", string(e))
			}
		}
		for pos := 0; pos < 16; pos++ {
			f("del1", b[:pos]+b[pos+1:])
		}
		for pos := 0; pos <= 16; pos++ {
			for _, ch := range S {
				f("ins1", b[:pos]+string([]byte{ch})+b[pos:])
			}
		}
		for _, x := range []string{"0x" + b[2:], "0X" + b[2:], "0x" + b, b + b, b[:14], b + "00", " " + b + " ", b[:8] + "_" + b[9:], b[:4] + "-" + b[4:8] + "-" + b[8:], strings.ToUpper(b)} {
			f("shape", x)
		}
	}
	enumByteFamilies(thorough, f)
	// double substitutions
	pairs := [][2]int{{0, 1}, {7, 8}, {14, 15}, {0, 15}}
	nb := 2
	if thorough {
		pairs = nil
		for i := 0; i < 16; i++ {
			for j := i + 1; j < 16; j++ {
				pairs = append(pairs, [2]int{i, j})
			}
		}
		nb = 3
	}
	for _, b := range baseEncodings[:nb] {
		for _, p := range pairs {
			for _, c1 := range S {
				for _, c2 := range S {
					if b[p[0]] == c1 || b[p[1]] == c2 {
						continue
					}
					e := []byte(b)
					e[p[0]], e[p[1]] = c1, c2
					f("sub2", string(e))
				}
			}
		}
	}
}

// ---------------------------------------------------------------------------------------------
// Generators: common
// ---------------------------------------------------------------------------------------------

// start is the instant the fake clock is moved to (the bubble clock starts at 2000-01-01, before the generator's epoch).
var start = time.Date(2024, 1, 1, 0, 0, 0, 0, time.UTC)

// genEpoch is pkg/snowflake's epoch (2017-04-09T00:00:00Z) restated: at this instant the time part of an id is 0.
var genEpoch = time.UnixMilli(1491696000000)

func sleepTo(t time.Time) {
	if d := t.Sub(time.Now()); d > 0 {
		time.Sleep(d)
	}
}

type gen struct {
	g   *snowflake.IDGenerator
	api string
}

func newGen(machine int, api string) gen {
	return gen{snowflake.NewIDGenerator(snowflake.WithMachineID(machine)), api}
}

func (g gen) next() uint64 {
	if g.api == "Next" {
		return g.g.Generator.Next()
	}
	return uint64(g.g.ID())
}

// prior: the ids handed out by `warm` real calls on a frozen clock (start + offset ms), and the generator's state
// word afterwards. Computed once per key in its own bubble (the fake clock makes it deterministic); executions that
// start "after the warm-up" restore the state word through the accessor instead of repeating the calls.
type prior struct {
	ids       []uint64
	set       map[uint64]int
	state     uint64
	kind, msg string // defect among the warm-up ids themselves
}

var priorCache = map[string]*prior{}

// getPrior must be called outside any bubble.
func getPrior(t *testing.T, machine int, api string, warm, offsetMs int, atEpoch bool) *prior {
	k := fmt.Sprintf("%d/%s/%d/%d/%v", machine, api, warm, offsetMs, atEpoch)
	if p, ok := priorCache[k]; ok {
		return p
	}
	p := &prior{set: map[uint64]int{}}
	if warm > 0 {
		synctest.Test(t, func(t *testing.T) {
			t0 := start
			if atEpoch {
				t0 = genEpoch
			}
			sleepTo(t0.Add(time.Duration(offsetMs) * time.Millisecond))
			g := newGen(machine, api)
			for i := 0; i < warm; i++ {
				p.ids = append(p.ids, g.next())
			}
			p.state = psnow.VerifC31State(g.g.Generator)
		})
	}
	for i, v := range p.ids {
		if v == 0 && p.kind == "" {
			p.kind, p.msg = "zero-id", fmt.Sprintf("warm-up id #%d handed out is 0", i)
		}
		if j, dup := p.set[v]; dup && p.kind == "" {
			p.kind, p.msg = "duplicate-id", fmt.Sprintf("id %#016x handed out twice (as #%d and #%d of the %d warm-up calls on a frozen clock)", v, j, i, warm)
		}
		p.set[v] = i
	}
	priorCache[k] = p
	return p
}

// distinct checks the statement: every id non-zero, all pairwise distinct (warm-up ids included). Returns "" or the defect.
func distinct(p *prior, ids []uint64) (kind, msg string) {
	if p.kind != "" {
		return p.kind, p.msg
	}
	seen := make(map[uint64]int, len(ids))
	for i, v := range ids {
		if v == 0 {
			return "zero-id", fmt.Sprintf("id #%d handed out after the warm-up is 0", i)
		}
		if j, dup := p.set[v]; dup {
			return "duplicate-id", fmt.Sprintf("id %#016x handed out twice (as warm-up id #%d of %d and as id #%d after it)", v, j, len(p.ids), i)
		}
		if j, dup := seen[v]; dup {
			return "duplicate-id", fmt.Sprintf("id %#016x handed out twice (as #%d and #%d of the %d ids after the warm-up)", v, j, i, len(ids))
		}
		seen[v] = i
	}
	return "", ""
}

func warmClass(w int) string {
	switch w {
	case 0:
		return "fresh"
	case 1:
		return "seq0"
	case 4095:
		return "seq4094"
	case 4096:
		return "seq4095"
	}
	return fmt.Sprintf("warm%d", w)
}

// ---------------------------------------------------------------------------------------------
// Part 2: sequential op sequences in fake time
// ---------------------------------------------------------------------------------------------

// SeqCase: Ops over N (one call), + (clock +1ms), - (clock -1ms), L (5000 calls). The clock can only be stepped back
// by leaving the bubble: the generator's state word is carried into a new bubble whose clock is 1ms earlier.
type SeqCase struct {
	Machine int    `json:"machine"`
	API     string `json:"api"`
	Warm    int    `json:"warm"` // calls made on the frozen clock before Ops (sequence number reached = Warm-1)
	Ops     string `json:"ops"`
	AtEpoch bool   `json:"at_epoch,omitempty"` // clock starts exactly at the generator's epoch (time part 0)
}

func runSeq(t *testing.T, sc SeqCase) (p *prior, ids []uint64) {
	offset := 0
	p = getPrior(t, sc.Machine, sc.API, sc.Warm, 0, sc.AtEpoch)
	state := p.state
	t0 := start
	if sc.AtEpoch {
		t0 = genEpoch
	}
	for si, seg := range strings.Split(sc.Ops, "-") {
		if si > 0 {
			offset--
		}
		synctest.Test(t, func(t *testing.T) {
			sleepTo(t0.Add(time.Duration(offset) * time.Millisecond))
			g := newGen(sc.Machine, sc.API)
			psnow.VerifC31SetState(g.g.Generator, state)
			for _, op := range seg {
				switch op {
				case 'N':
					ids = append(ids, g.next())
				case 'L':
					for i := 0; i < 5000; i++ {
						ids = append(ids, g.next())
					}
				case '+':
					time.Sleep(time.Millisecond)
					offset++
				}
			}
			state = psnow.VerifC31State(g.g.Generator)
		})
	}
	return p, ids
}

func judgeSeq(t *testing.T, sc SeqCase) (v *vio, outcome string, n int) {
	var ids []uint64
	var pr *prior
	if p, d := vlib.Guard(func() { pr, ids = runSeq(t, sc) }); p {
		return &vio{"generator/sequential/panic", d}, "seq:panic", 0
	}
	kind, msg := distinct(pr, ids)
	back, tick := strings.Contains(sc.Ops, "-"), strings.Contains(sc.Ops, "+")
	// outcome: how many distinct millisecond values the ids carry (1 = all in one ms, more = ticks or sequence exhaustion)
	ms := map[uint64]bool{}
	for _, v := range ids {
		ms[v>>22] = true
	}
	if len(pr.ids) > 0 {
		ms[pr.ids[0]>>22], ms[pr.ids[len(pr.ids)-1]>>22] = true, true
	}
	nms := len(ms)
	if nms > 4 {
		nms = 4
	}
	outcome = fmt.Sprintf("seq:%s/back=%v/tick=%v/ms-values=%d", warmClass(sc.Warm), back, tick, nms)
	if kind != "" {
		return &vio{fmt.Sprintf("generator/sequential/%s/stepback=%v,tick=%v,start=%s", kind, back, tick, warmClass(sc.Warm)),
			fmt.Sprintf("machine %d, %s, %d warm-up calls, ops %q: %s", sc.Machine, sc.API, sc.Warm, sc.Ops, msg)}, "seq:" + kind, len(ids) + len(pr.ids)
	}
	return nil, outcome, len(ids) + len(pr.ids)
}

func enumOps(maxLen int, f func(string)) {
	// breadth by length: simplest first
	for l := 1; l <= maxLen; l++ {
		ml := l
		var r2 func(cur []byte)
		r2 = func(cur []byte) {
			if len(cur) == ml {
				f(string(cur))
				return
			}
			for _, op := range []byte("N+-") {
				r2(append(cur, op))
			}
		}
		r2(nil)
	}
}

// ---------------------------------------------------------------------------------------------
// Part 3: schedules
// ---------------------------------------------------------------------------------------------

// Scenario of the concurrent part. Rel is the relation of the generator's remembered millisecond to the clock when
// the threads start: "same" (warm-up calls just made), "behind" (clock moved on 1ms since), "ahead" (the warm-up calls
// were made at clock+1ms in another bubble and the state carried over: the clock stepped back 1ms).
type Scenario struct {
	Machine int      `json:"machine"`
	API     string   `json:"api"`
	Warm    int      `json:"warm"`
	Rel     string   `json:"rel"`
	Threads []string `json:"threads"` // per thread ops over N (one call) and + (advance the clock 1ms, others frozen mid-call)
}

func (s Scenario) String() string {
	return fmt.Sprintf("machine=%d api=%s start=%s/%s threads=%s", s.Machine, s.API, warmClass(s.Warm), s.Rel, strings.Join(s.Threads, "|"))
}

// relOffset: when (relative to the threads' start instant) the warm-up calls were made.
func relOffset(rel string) int {
	switch rel {
	case "ahead":
		return 1
	case "behind":
		return -1
	}
	return 0
}

// prepare computes (outside any bubble) the warm-up ids/state of the scenario.
func prepare(t *testing.T, sc Scenario) *prior {
	return getPrior(t, sc.Machine, sc.API, sc.Warm, relOffset(sc.Rel), false)
}

type schedObs struct {
	prior  *prior
	issued [][]uint64
}

func harness(sc Scenario, pr *prior, obs *schedObs) *vrt.Harness {
	return &vrt.Harness{Name: sc.String(), Body: func(x *vrt.Exec) {
		*obs = schedObs{prior: pr, issued: make([][]uint64, len(sc.Threads))}
		g := newGen(sc.Machine, sc.API)
		sleepTo(start)
		psnow.VerifC31SetState(g.g.Generator, pr.state)
		// Clock gate: fake time only advances while no thread is runnable. A thread that wants to tick the clock takes
		// the gate and sleeps; every other thread blocks on the gate at its next sync/atomic point (it is then
		// disabled, mid-call), the bubble's clock moves, and the ticking thread releases the gate.
		var gate vsync.Mutex
		held := false
		x.S.Filter = func(kind vrt.OpKind, label string) bool {
			if kind == vrt.OpLock {
				return false // the gate's own Lock: silent when free, parks (disabled) when held
			}
			if held {
				gate.Lock()
				gate.Unlock()
			}
			return true
		}
		for i, prog := range sc.Threads {
			x.Go(fmt.Sprintf("T%d", i), func() {
				for _, op := range prog {
					switch op {
					case 'N':
						obs.issued[i] = append(obs.issued[i], g.next())
					case '+':
						gate.Lock()
						held = true
						time.Sleep(time.Millisecond)
						held = false
						gate.Unlock()
					}
				}
			})
		}
		x.Run()
		x.S.Drain()
	}}
}

func (o *schedObs) all() []uint64 {
	var out []uint64
	for _, l := range o.issued {
		out = append(out, l...)
	}
	return out
}

func (o *schedObs) describe() string {
	var sb strings.Builder
	fmt.Fprintf(&sb, "%d warm-up ids", len(o.prior.ids))
	if n := len(o.prior.ids); n > 0 {
		fmt.Fprintf(&sb, " (first %#016x last %#016x)", o.prior.ids[0], o.prior.ids[n-1])
	}
	for i, l := range o.issued {
		fmt.Fprintf(&sb, "; T%d got", i)
		for _, v := range l {
			fmt.Fprintf(&sb, " %#016x", v)
		}
	}
	return sb.String()
}

// outcomeOf classifies an execution: the order (by id value) in which the threads' ids interleave and the spread
// of millisecond values.
func (o *schedObs) outcomeOf() string {
	type e struct {
		v  uint64
		th int
	}
	var l []e
	ms := map[uint64]bool{}
	for i, ids := range o.issued {
		for _, v := range ids {
			l = append(l, e{v, i})
			ms[v>>22] = true
		}
	}
	sort.Slice(l, func(i, j int) bool { return l[i].v < l[j].v })
	var sb strings.Builder
	sw := 0
	for i, x := range l {
		sb.WriteByte(byte('A' + x.th))
		if i > 0 && l[i-1].th != x.th {
			sw++
		}
	}
	ord := sb.String()
	if len(o.issued) > 2 {
		ord = fmt.Sprintf("%d-switches", sw)
	}
	return fmt.Sprintf("ok/T%d/order=%s/ms-values=%d", len(o.issued), ord, len(ms))
}

func judgeSched(sc Scenario, r *vrt.Result, obs *schedObs) *vio {
	feat := fmt.Sprintf("threads=%d,start=%s,clock=%s", len(sc.Threads), warmClass(sc.Warm), sc.Rel)
	if r.Deadlock {
		return &vio{"generator/concurrent/deadlock/" + feat, "deadlock: " + strings.Join(r.Blocked, "; ")}
	}
	if r.StepCap {
		return &vio{"generator/concurrent/livelock/" + feat, "no termination within the step cap"}
	}
	want := 0
	for _, p := range sc.Threads {
		want += strings.Count(p, "N")
	}
	got := 0
	for _, l := range obs.issued {
		got += len(l)
	}
	if got != want {
		return &vio{"generator/concurrent/missing-ids/" + feat, fmt.Sprintf("%d ids handed out, %d calls made", got, want)}
	}
	if kind, msg := distinct(obs.prior, obs.all()); kind != "" {
		return &vio{"generator/concurrent/" + kind + "/" + feat, fmt.Sprintf("%s: %s [%s]", sc, msg, obs.describe())}
	}
	return nil
}

func scenarios(thorough bool) []Scenario {
	var out []Scenario
	progs := [][]string{{"NN", "NN"}, {"N+N", "NN"}, {"+NN", "NN"}, {"N+N", "N+N"}, {"NN", "NN", "NN"}}
	apis := []string{"ID"}
	if thorough {
		progs = append(progs, []string{"N+N", "NN", "NN"}, []string{"NNN", "N+N"}, []string{"N", "N", "N+N"}, []string{"NNN", "NNN"}, []string{"NN", "NN", "NN", "NN"})
		apis = []string{"ID", "Next"}
	}
	type st struct {
		warm int
		rel  string
	}
	starts := []st{{0, "same"}}
	for _, w := range []int{1, 4095, 4096} {
		for _, r := range []string{"same", "behind", "ahead"} {
			starts = append(starts, st{w, r})
		}
	}
	// simplest first: 2 threads before 3
	for _, p := range progs {
		for _, api := range apis {
			for _, m := range []int{1023, 0} {
				for _, s := range starts {
					out = append(out, Scenario{Machine: m, API: api, Warm: s.warm, Rel: s.rel, Threads: p})
				}
			}
		}
	}
	return out
}

func boundFor(sc Scenario, thorough bool) int {
	switch {
	case len(sc.Threads) >= 3 && !thorough:
		return 3
	case len(sc.Threads) >= 4:
		return 3
	case len(sc.Threads) >= 3:
		return 4
	case thorough:
		return 6
	}
	return 4
}

// ---------------------------------------------------------------------------------------------

type Case struct {
	Kind    string    `json:"kind"` // encode | decode | seq | sched
	ID      uint64    `json:"id,omitempty"`
	StrHex  string    `json:"string_hex,omitempty"` // the input string, hex encoded (it may hold arbitrary bytes)
	Str     string    `json:"string_quoted,omitempty"`
	Seq     *SeqCase  `json:"seq,omitempty"`
	Sched   *Scenario `json:"scenario,omitempty"`
	Choices []int     `json:"schedule,omitempty"`
	Trace   []string  `json:"trace,omitempty"`
	Sig     string    `json:"sig"`
}

func replay(t *testing.T, cs Case) (bool, string) {
	pick := func(vs []vio) (bool, string) {
		for _, v := range vs {
			if v.Sig == cs.Sig {
				return true, v.Msg
			}
		}
		if len(vs) > 0 {
			return true, vs[0].Msg
		}
		return false, "no violation"
	}
	switch cs.Kind {
	case "encode":
		vs, _ := judgeEncode(cs.ID)
		return pick(vs)
	case "decode":
		b, err := hex.DecodeString(cs.StrHex)
		if err != nil {
			return false, err.Error()
		}
		vs, _ := judgeDecode(string(b))
		return pick(vs)
	case "seq":
		v, out, _ := judgeSeq(t, *cs.Seq)
		if v != nil {
			return true, v.Msg
		}
		return false, out
	case "sched":
		sc := *cs.Sched
		var obs schedObs
		r := vrt.RunOnce(t, harness(sc, prepare(t, sc), &obs), cs.Choices)
		if r.Diverged != "" {
			return false, "diverged: " + r.Diverged
		}
		if v := judgeSched(sc, r, &obs); v != nil {
			return true, v.Msg
		}
		return false, obs.describe()
	}
	return false, "unknown case kind"
}

func TestCheck(t *testing.T) {
	vlib.Main(t, &vlib.Check{
		ID: "C31", Level: "model_checking",
		Rule: "(1) Encode/Decode: ~700 boundary ids (1, 2^k-1, 2^k, 2^k+1, MaxUint64, every nibble value at every position on all-0 and all-f backgrounds) through Encode/String/MarshalText/json and back through 6 decode entry points (Decode, DecodeFromString, IDFromString, UnmarshalText, Scan(string), json.Unmarshal of the exact JSON literal); strings: all strings of length <=3 over a 40-byte alphabet (hex digits of both cases, the ASCII neighbours of the hex ranges / : @ G ` g, + - _ x X blank . NL TAB NUL DEL 0xff), and for 7 (thorough 12) base encodings every single substitution, deletion (len 15) and insertion (len 17) over that alphabet, prefix/shape variants, and double substitutions (quick: 4 position pairs x 2 bases; thorough: all 120 pairs x 3 bases); FULL BYTE DOMAIN: for 7 (thorough 13) 16-byte bases in lower, upper and mixed case (0000000000000001, ffffffffffffffff, 0123456789abcdef, FEDCBA9876543210, 0a1B2c3D4e5F6A7b, all-zero, 8000000000000000, ...) EVERY byte value 0..255 at EVERY one of the 16 positions (4096 per base); for 5 (thorough 13) bases every one of the 120 position pairs x 24x24 bytes {NUL 0x10 0x19 blank / : @ G ` g DEL 0x80 0xff + - _ x 0 1 9 a f A F}; thorough: every byte pair 0..255 x 0..255 at 6 position pairs x 5 bases; every length 0..33 of the repeated base, its right/left zero-extension and its tail. Oracle (byte-by-byte table of the 22 hex characters) = accepted iff 16 chars of [0-9a-f] and not all zero, value = positional hex; every non-zero id Decode yields must Encode to its 16 lower-case digits; an accepted upper/mixed-case spelling (reported, the statement rejects it) is additionally classed apart when its value is not that of its digits. non-trivial = strings of length 16 and all ids. " +
			"(2) generators sequentially, real snowflake.IDGenerator.ID / pkg/snowflake.Generator.Next on the fake clock of a synctest bubble: every op sequence of length <=7 (thorough <=10) over {call, clock +1ms, clock -1ms} x start sequence {fresh, 0, 4094, 4095 reached by real calls on the frozen clock} x machine id {0,1023} x both APIs, plus 5000/10000 calls on a frozen clock, around a step back, and at the epoch instant; " +
			"(3) schedules: pkg/snowflake/gen.go compiled against the modelled sync/atomic; 2 threads x 2 calls (also with a 1ms clock tick between/before a thread's calls, taken while the other threads are frozen in the middle of their call) and 3 threads x 2 calls, start sequence {fresh,0,4094,4095} x generator's remembered millisecond {same as, 1ms behind, 1ms ahead of (= clock stepped back)} the clock, machine {1023,0}; every interleaving at atomic-operation granularity with <= B preemptions (2 threads: B=4 quick / 6 thorough; 3 threads: B=3 / 4; thorough adds 2 threads x 3 calls, a 3-call thread against a ticking thread, and 4 threads x 2 calls with B=3). Oracle for (2),(3): every id handed out (warm-up ids included) is non-zero and all are pairwise distinct. states = decision nodes of the schedule trees, transitions = scheduling steps, traces = executions",
		Assumptions: []string{
			"the 2^64 id space and arbitrary strings are covered only by the stated boundary / edit-neighbourhood families: all 256 byte values at one position, a 24-byte set at two positions (all 256x256 at 6 position pairs in thorough), lengths 0..33; three or more simultaneous non-alphabet bytes only over the 40-byte alphabet of the short strings (the decoder treats positions independently: length check + per-digit hex parse + zero check)",
			"json.Unmarshal is driven with the JSON literal that denotes exactly the input bytes (\\u00XX escapes for control bytes); inputs with bytes >= 0x80 are not applicable to that entry point",
			"the clock stays inside the generator's 42-bit millisecond range (2017-04-09 .. 2156); wrap-around of the time field is not examined",
			"a clock that steps back is presented by carrying the generator's state word (its only memory) into a bubble whose clock is earlier, through an add-only accessor; the synctest clock itself never goes backwards",
			"the warm-up calls that reach a start sequence number are made for real once per start configuration (own bubble, frozen fake clock, deterministic); executions restore the resulting state word through the same accessor and are checked against the warm-up ids",
			"fake time advances only when no thread is runnable, so a clock tick during another thread's call is taken with that thread stopped at a sync/atomic point (each other thread advances at most one point while the tick is pending)",
			"the 100-failed-CAS fallback of Generator.Next (needs >=100 preemptions inside one call) is outside the preemption bound",
			"sequentially consistent interleavings at sync/atomic granularity",
		},
		QuickBudgetS: 60, ThoroughBudgetS: 800, WorkerEnv: []string{"GOMAXPROCS=1"},
		Run: func(c *vlib.Ctx) {
			var idx int64
			report := func(vs []vio, cs Case) {
				for _, v := range vs {
					cs.Sig = v.Sig
					c.Violation(v.Sig, v.Msg, cs)
				}
			}
			// ---- part 1
			for _, id := range boundaryIDs() {
				idx++
				if !c.Mine(idx) {
					continue
				}
				vs, out := judgeEncode(id)
				c.Eval(1)
				c.NontrivialN(1)
				c.Outcome(out)
				report(vs, Case{Kind: "encode", ID: id})
				if c.WantSample() && id > 1<<40 {
					c.Sample(map[string]any{"id": fmt.Sprintf("%#x", id), "encoded": platform.ID(id).String()})
				}
			}
			enumStrings(c.Thorough(), func(fam, s string) {
				idx++
				if !c.Mine(idx) {
					return
				}
				vs, out := judgeDecode(s)
				c.Eval(1)
				if len(s) == 16 {
					c.Nontrivial("d:" + s)
				}
				c.Extra("decode_cases/"+fam, 1)
				c.Outcome(out)
				report(vs, Case{Kind: "decode", StrHex: hex.EncodeToString([]byte(s)), Str: fmt.Sprintf("%q", s)})
			})
			// ---- part 2
			maxLen := 7
			if c.Thorough() {
				maxLen = 10
			}
			doSeq := func(sc SeqCase) {
				idx++
				if !c.Mine(idx) {
					return
				}
				v, out, n := judgeSeq(t, sc)
				c.Eval(1)
				if n >= 2 {
					c.NontrivialN(1)
				}
				c.Outcome(out)
				if v != nil {
					report([]vio{*v}, Case{Kind: "seq", Seq: &sc})
				}
			}
			for _, api := range []string{"ID", "Next"} {
				for _, m := range []int{1023, 0} {
					for _, special := range []SeqCase{
						{Ops: "L"}, {Ops: "LL"}, {Ops: "L-L"}, {Ops: "L--L"}, {Ops: "L+L"}, {Ops: "N+L-L"}, {Warm: 4096, Ops: "-L"},
						{Ops: "NNN", AtEpoch: true}, {Ops: "N+N+N", AtEpoch: true}, {Ops: "L", AtEpoch: true}, {Ops: "N+N-NN", AtEpoch: true},
					} {
						special.Machine, special.API = m, api
						doSeq(special)
					}
				}
			}
			for _, api := range []string{"ID", "Next"} {
				for _, m := range []int{1023, 0} {
					for _, w := range []int{0, 1, 4095, 4096} {
						if c.Expired() {
							c.Cap("budget expired in the sequential generator part")
							return
						}
						enumOps(maxLen, func(ops string) {
							if !strings.Contains(ops, "N") && w == 0 {
								return // no id handed out at all
							}
							doSeq(SeqCase{Machine: m, API: api, Warm: w, Ops: ops})
						})
					}
				}
			}
			// ---- part 3
			scs := scenarios(c.Thorough())
			for si, sc := range scs {
				if !c.Mine(int64(si)) {
					continue
				}
				if c.Expired() {
					c.Cap("budget expired in the schedule part")
					break
				}
				var obs schedObs
				h := harness(sc, prepare(t, sc), &obs)
				b := boundFor(sc, c.Thorough())
				st := vrt.Explore(t, h, b, 0, 1, c.Expired, func(r *vrt.Result) {
					c.Eval(1)
					if r.Diverged != "" {
						c.HarnessError(sc.String() + ": " + r.Diverged)
						return
					}
					if r.Preempts > 0 {
						c.NontrivialN(1)
					}
					if v := judgeSched(sc, r, &obs); v != nil {
						cs := Case{Kind: "sched", Sched: &sc, Choices: r.Choices, Sig: v.Sig}
						for _, s := range r.Steps {
							cs.Trace = append(cs.Trace, fmt.Sprintf("T%d %s", s.Thread, s.Label))
						}
						c.Violation(v.Sig, v.Msg, cs)
						c.Outcome("violation")
						return
					}
					c.Outcome(obs.outcomeOf())
					if c.WantSample() && r.Preempts == b {
						c.Sample(map[string]any{"scenario": sc.String(), "schedule": r.Choices, "ids": obs.describe()})
					}
				})
				c.StateN(st.Nodes)
				c.Transition(st.Transitions)
				c.Trace(st.Executions)
				if !st.Complete {
					c.Cap("budget expired inside a schedule tree")
					break
				}
			}
			if c.Shard == 0 {
				c.Extra("schedule_scenarios", int64(len(scs)))
			}
		},
		Replay: func(c *vlib.Ctx, raw json.RawMessage) (bool, string) {
			var cs Case
			if err := json.Unmarshal(raw, &cs); err != nil {
				return false, err.Error()
			}
			return replay(t, cs)
		},
	})
}
