// Package shardkit is the shared fixture of the checks that run on a real tsdb.Shard
// (tsm1 engine + tsi1 index + SeriesFile in a /dev/shm directory, background compactions off):
// open / clean reopen / process-kill image, writes, manual cache snapshot, measurement drop, and three
// independent observations of the shard: the recorded field schema (MeasurementFieldSet), the raw
// stored values (cache + every TSM file, tombstones applied) and the public cursor read path.
//
// Nothing here is an oracle: it only builds inputs for, and reads answers from, the code under test.
//
// Directory layout under Fixture.Dir (same as tsdb.Store):
//
//	data/db0/_series            series file (Options.SeriesDir overrides)
//	data/db0/rp0/1              shard (fields.idx, fields.idxl, *.tsm, index/)
//	wal/db0/rp0/1               WAL segments
package shardkit

import (
	"context"
	"errors"
	"fmt"
	"hash/fnv"
	"io"
	"os"
	"path/filepath"
	"sort"
	"strings"
	"time"

	"github.com/influxdata/influxdb/v2/models"
	"github.com/influxdata/influxdb/v2/tsdb"
	_ "github.com/influxdata/influxdb/v2/tsdb/engine"
	"github.com/influxdata/influxdb/v2/tsdb/engine/tsm1"
	_ "github.com/influxdata/influxdb/v2/tsdb/index"
	"github.com/influxdata/influxdb/v2/tsdb/index/tsi1"
	"github.com/influxdata/influxql"
	"golang.org/x/sys/unix"
)

// ShardID is the id of the single shard of a fixture.
const ShardID = 1

// Options select the shard configuration.
type Options struct {
	// ValidateKeys turns on Config.ValidateKeys (reject invalid UTF-8 in measurement / tag tokens).
	ValidateKeys bool
	// SeriesTypeCheck turns on the engine's per-series type map (INFLUXDB_SERIES_TYPE_CHECK_ENABLED,
	// read by tsm1.NewEngine at every open). It is process-global: the fixture sets / unsets the variable
	// around each open.
	SeriesTypeCheck bool
	// SeriesDir places the series file outside Dir (crash checks: its segments are mmap-written).
	SeriesDir string
	// NoWAL disables the write-ahead log.
	NoWAL bool
	// TSIPartitions, if > 0, sets the number of partitions of the tsi1 index (tsi1.DefaultPartitionN, the
	// knob behind INFLUXDB_EXP_TSI_PARTITIONS; must be a power of 2; default 8). Opening an index costs
	// ~2 HLL sketches per partition, so deep enumerations use 1. Process-global like SeriesTypeCheck; a
	// directory must always be opened with the value it was created with.
	TSIPartitions int
}

// Fixture is one open shard.
type Fixture struct {
	Dir   string
	Opts  Options
	SFile *tsdb.SeriesFile
	Shard *tsdb.Shard
}

// ShardPath / WALPath / SeriesPath return the directories used below dir.
func ShardPath(dir string) string {
	return filepath.Join(dir, "data", "db0", "rp0", fmt.Sprint(ShardID))
}
func WALPath(dir string) string { return filepath.Join(dir, "wal", "db0", "rp0", fmt.Sprint(ShardID)) }
func SeriesPath(dir string) string {
	return filepath.Join(dir, "data", "db0", tsdb.SeriesFileDirectory)
}

// FieldsIdxPath / FieldsLogPath are the two files of the persistent field schema.
func FieldsIdxPath(dir string) string { return filepath.Join(ShardPath(dir), "fields.idx") }
func FieldsLogPath(dir string) string { return filepath.Join(ShardPath(dir), tsdb.FieldsChangeFile) }

// ownIDSets is the SeriesIDSets of a single-shard database: just the shard's own index set.
type ownIDSets struct{ sh *tsdb.Shard }

func (o *ownIDSets) ForEach(fn func(ids *tsdb.SeriesIDSet)) error {
	if o.sh == nil {
		return nil
	}
	idx, err := o.sh.Index()
	if err != nil {
		return nil
	}
	fn(idx.SeriesIDSet())
	return nil
}

const typeCheckEnv = "INFLUXDB_SERIES_TYPE_CHECK_ENABLED"

var defaultTSIPartitions = tsi1.DefaultPartitionN

// Open opens (creating what is missing) the series file and the shard below dir with the real
// open path (tsdb.NewSeriesFile.Open, tsdb.NewShard.Open). Compactions and the cache-snapshot
// goroutine are never started (Shard.CompactionDisabled); Snapshot() writes a snapshot on demand.
func Open(dir string, o Options) (*Fixture, error) {
	f := &Fixture{Dir: dir, Opts: o}
	sdir := o.SeriesDir
	if sdir == "" {
		sdir = SeriesPath(dir)
	}
	if err := os.MkdirAll(filepath.Dir(sdir), 0o777); err != nil {
		return nil, err
	}
	sf := tsdb.NewSeriesFile(sdir)
	if err := sf.Open(); err != nil {
		return nil, fmt.Errorf("series file: %w", err)
	}
	f.SFile = sf

	opt := tsdb.NewEngineOptions()
	opt.Config.Dir = filepath.Join(dir, "data")
	opt.Config.WALDir = filepath.Join(dir, "wal")
	opt.Config.ValidateKeys = o.ValidateKeys
	opt.WALEnabled = !o.NoWAL
	opt.MetricsDisabled = true
	opt.MonitorDisabled = true
	own := &ownIDSets{}
	opt.SeriesIDSets = own

	if o.SeriesTypeCheck {
		os.Setenv(typeCheckEnv, "1")
	} else {
		os.Unsetenv(typeCheckEnv)
	}
	if o.TSIPartitions > 0 {
		tsi1.DefaultPartitionN = uint64(o.TSIPartitions)
	} else {
		tsi1.DefaultPartitionN = defaultTSIPartitions
	}
	sh := tsdb.NewShard(ShardID, ShardPath(dir), WALPath(dir), sf, opt)
	sh.CompactionDisabled = true
	own.sh = sh
	if err := sh.Open(context.Background()); err != nil {
		sf.Close()
		return nil, fmt.Errorf("shard open: %w", err)
	}
	f.Shard = sh
	return f, nil
}

// Close closes the shard (clean close: fields.idxl is folded into fields.idx) and the series file.
func (f *Fixture) Close() error {
	var e1, e2 error
	if f.Shard != nil {
		e1 = f.Shard.Close()
		f.Shard = nil
	}
	if f.SFile != nil {
		e2 = f.SFile.Close()
		f.SFile = nil
	}
	return errors.Join(e1, e2)
}

// Reopen is a clean restart: Close, then Open on the same directory.
func (f *Fixture) Reopen() error {
	if err := f.Close(); err != nil {
		return err
	}
	g, err := Open(f.Dir, f.Opts)
	if err != nil {
		return err
	}
	*f = *g
	return nil
}

// KillRestart is an unclean restart in which every completed write(2) survived (process kill, machine
// stays up): the whole tree is copied while the shard is still open (nothing runs in the background,
// so the tree is quiescent), the old instance is then closed and its directory removed, and the copy
// is opened with the real open path. Dir changes to newDir.
func (f *Fixture) KillRestart(newDir string) error {
	if err := CopyTree(f.Dir, newDir); err != nil {
		return err
	}
	old := f.Dir
	cerr := f.Close()
	os.RemoveAll(old)
	if cerr != nil {
		return fmt.Errorf("closing the abandoned instance: %w", cerr)
	}
	o := f.Opts
	if o.SeriesDir != "" {
		return fmt.Errorf("KillRestart with an external series dir is not supported")
	}
	g, err := Open(newDir, o)
	if err != nil {
		return err
	}
	*f = *g
	return nil
}

// CopyTree copies a directory tree (regular files and directories only).
func CopyTree(src, dst string) error {
	return filepath.Walk(src, func(p string, info os.FileInfo, err error) error {
		if err != nil {
			return err
		}
		rel, _ := filepath.Rel(src, p)
		to := filepath.Join(dst, rel)
		if info.IsDir() {
			return os.MkdirAll(to, 0o777)
		}
		if !info.Mode().IsRegular() {
			return nil
		}
		return copySparse(p, to, info.Size())
	})
}

// copySparse copies the data extents of a file (SEEK_DATA / SEEK_HOLE; the series file preallocates 4 MiB
// segments that are almost entirely holes) and sets the final size; falls back to a plain copy.
func copySparse(from, to string, size int64) error {
	in, err := os.Open(from)
	if err != nil {
		return err
	}
	defer in.Close()
	out, err := os.OpenFile(to, os.O_CREATE|os.O_TRUNC|os.O_WRONLY, 0o666)
	if err != nil {
		return err
	}
	defer out.Close()
	fd := int(in.Fd())
	var off int64
	for off < size {
		ds, err := unix.Seek(fd, off, unix.SEEK_DATA)
		if err != nil {
			if err == unix.ENXIO { // only a hole is left
				break
			}
			// no SEEK_DATA support: plain copy of the rest
			if _, err := in.Seek(off, io.SeekStart); err != nil {
				return err
			}
			if _, err := out.Seek(off, io.SeekStart); err != nil {
				return err
			}
			if _, err := io.Copy(out, in); err != nil {
				return err
			}
			off = size
			break
		}
		he, err := unix.Seek(fd, ds, unix.SEEK_HOLE)
		if err != nil {
			he = size
		}
		buf := make([]byte, he-ds)
		if _, err := in.ReadAt(buf, ds); err != nil && err != io.EOF {
			return err
		}
		if _, err := out.WriteAt(buf, ds); err != nil {
			return err
		}
		off = he
	}
	return out.Truncate(size)
}

// Engine returns the tsm1 engine of the open shard.
func (f *Fixture) Engine() (*tsm1.Engine, error) {
	e, err := f.Shard.Engine()
	if err != nil {
		return nil, err
	}
	te, ok := e.(*tsm1.Engine)
	if !ok {
		return nil, fmt.Errorf("engine is %T", e)
	}
	return te, nil
}

// Snapshot writes the cache to a TSM file (Engine.WriteSnapshot), as the background snapshotter would.
func (f *Fixture) Snapshot() error {
	e, err := f.Engine()
	if err != nil {
		return err
	}
	return e.WriteSnapshot()
}

// Write calls Shard.WritePoints.
func (f *Fixture) Write(points []models.Point) error {
	return f.Shard.WritePoints(context.Background(), points)
}

// DropMeasurement calls Shard.DeleteMeasurement.
func (f *Fixture) DropMeasurement(name string) error {
	return f.Shard.DeleteMeasurement(context.Background(), []byte(name))
}

// Dropped classifies a WritePoints error: (n, true) for a PartialWriteError (value or pointer, possibly
// wrapped) with Dropped n.
func Dropped(err error) (int, bool) {
	var pv tsdb.PartialWriteError
	if errors.As(err, &pv) {
		return pv.Dropped, true
	}
	var pp *tsdb.PartialWriteError
	if errors.As(err, &pp) && pp != nil {
		return pp.Dropped, true
	}
	return 0, false
}

// ---------- points ----------

// FieldSpec is one field of a point: Type is one of float integer string boolean unsigned.
// Val is the numeric payload (string fields: a string of Len bytes, or strconv of Val when Len = 0).
type FieldSpec struct {
	Name string `json:"name"`
	Type string `json:"type"`
	Val  int64  `json:"val"`
	Len  int    `json:"len,omitempty"`
}

// PointSpec describes a point in JSON-serialisable form.
type PointSpec struct {
	M      string      `json:"m"`
	Tags   [][2]string `json:"tags,omitempty"`
	Fields []FieldSpec `json:"fields"`
	T      int64       `json:"t"`
}

// GoValue is the field value handed to models.NewPoint.
func (fs FieldSpec) GoValue() any {
	switch fs.Type {
	case "float":
		return float64(fs.Val)
	case "integer":
		return int64(fs.Val)
	case "unsigned":
		return uint64(fs.Val)
	case "boolean":
		return fs.Val != 0
	case "string":
		if fs.Len > 0 {
			return strings.Repeat(string(rune('a'+fs.Val%26)), fs.Len)
		}
		return fmt.Sprintf("s%d", fs.Val)
	}
	panic("shardkit: unknown field type " + fs.Type)
}

// Rendered is the canonical string a stored value of this field is rendered to by Render.
func (fs FieldSpec) Rendered() string { return RenderGo(fs.GoValue()) }

// RenderGo renders a Go value the way Render renders the stored one.
func RenderGo(v any) string {
	switch x := v.(type) {
	case float64:
		return fmt.Sprintf("float:%g", x)
	case int64:
		return fmt.Sprintf("integer:%d", x)
	case uint64:
		return fmt.Sprintf("unsigned:%d", x)
	case bool:
		return fmt.Sprintf("boolean:%v", x)
	case string:
		if len(x) > 40 {
			h := fnv.New64a()
			h.Write([]byte(x))
			return fmt.Sprintf("string:#%d:%x", len(x), h.Sum64())
		}
		return "string:" + x
	}
	return fmt.Sprintf("%T:%v", v, v)
}

// Point builds the models.Point.
func (p PointSpec) Point() (models.Point, error) {
	tags := models.Tags{}
	for _, kv := range p.Tags {
		tags = append(tags, models.NewTag([]byte(kv[0]), []byte(kv[1])))
	}
	sort.Sort(tags)
	fields := models.Fields{}
	for _, f := range p.Fields {
		fields[f.Name] = f.GoValue()
	}
	return models.NewPoint(p.M, tags, fields, time.Unix(0, p.T))
}

// SeriesKey is the series key of the point.
func (p PointSpec) SeriesKey() string {
	tags := models.Tags{}
	for _, kv := range p.Tags {
		tags = append(tags, models.NewTag([]byte(kv[0]), []byte(kv[1])))
	}
	sort.Sort(tags)
	return string(models.MakeKey([]byte(p.M), tags))
}

// CompositeKey is the storage key of a field of a series.
func CompositeKey(seriesKey, field string) string { return tsm1.SeriesFieldKey(seriesKey, field) }

// Points converts specs.
func Points(specs []PointSpec) ([]models.Point, error) {
	out := make([]models.Point, 0, len(specs))
	for _, s := range specs {
		p, err := s.Point()
		if err != nil {
			return nil, err
		}
		out = append(out, p)
	}
	return out, nil
}

// ---------- observations ----------

// Val is one stored value: timestamp + rendered typed value ("float:1", "integer:3", ...).
type Val struct {
	T int64  `json:"t"`
	V string `json:"v"`
}

// Render renders a tsm1 value.
func Render(v tsm1.Value) Val { return Val{v.UnixNano(), RenderGo(v.Value())} }

// SortVals orders by (T, V).
func SortVals(vs []Val) {
	sort.Slice(vs, func(i, j int) bool {
		if vs[i].T != vs[j].T {
			return vs[i].T < vs[j].T
		}
		return vs[i].V < vs[j].V
	})
}

// DumpRaw returns every stored (composite key → values) of the shard: the cache (hot + snapshot) and
// every TSM file with its tombstones applied. Values of a key found in several places are all listed
// (no newest-wins merge), sorted by (T, V). Keys without live values are omitted.
func (f *Fixture) DumpRaw() (map[string][]Val, error) {
	e, err := f.Engine()
	if err != nil {
		return nil, err
	}
	out := map[string][]Val{}
	for _, k := range e.Cache.Keys() {
		for _, v := range e.Cache.Values(k) {
			out[string(k)] = append(out[string(k)], Render(v))
		}
	}
	for _, tf := range e.FileStore.Files() {
		r, ok := tf.(*tsm1.TSMReader)
		if !ok {
			return nil, fmt.Errorf("TSM file is %T", tf)
		}
		n := r.KeyCount()
		for i := 0; i < n; i++ {
			k, _ := r.KeyAt(i)
			vs, err := r.ReadAll(k)
			if err != nil {
				return nil, fmt.Errorf("%s: %s: %w", filepath.Base(r.Path()), k, err)
			}
			for _, v := range vs {
				out[string(k)] = append(out[string(k)], Render(v))
			}
		}
	}
	for k := range out {
		if len(out[k]) == 0 {
			delete(out, k)
			continue
		}
		SortVals(out[k])
	}
	return out, nil
}

// ReadField reads one field of one series through the public read path (Shard.CreateCursorIterator →
// typed array cursor over the valid time range [models.MinNanoTime, models.MaxNanoTime], ascending;
// note: a seek time of exactly math.MinInt64 makes the TSM side of the cursor return nothing). ok=false: the shard knows no such field.
func (f *Fixture) ReadField(m string, tagPairs [][2]string, field string) (vals []Val, ok bool, err error) {
	ctx := context.Background()
	it, err := f.Shard.CreateCursorIterator(ctx)
	if err != nil {
		return nil, false, err
	}
	tags := models.Tags{}
	for _, kv := range tagPairs {
		tags = append(tags, models.NewTag([]byte(kv[0]), []byte(kv[1])))
	}
	sort.Sort(tags)
	cur, err := it.Next(ctx, &tsdb.CursorRequest{Name: []byte(m), Tags: tags, Field: field, Ascending: true,
		StartTime: models.MinNanoTime, EndTime: models.MaxNanoTime})
	if err != nil {
		return nil, false, err
	}
	if cur == nil {
		return nil, false, nil
	}
	defer cur.Close()
	switch c := cur.(type) {
	case tsdb.FloatArrayCursor:
		for a := c.Next(); a.Len() > 0; a = c.Next() {
			for i := range a.Timestamps {
				vals = append(vals, Val{a.Timestamps[i], RenderGo(a.Values[i])})
			}
		}
	case tsdb.IntegerArrayCursor:
		for a := c.Next(); a.Len() > 0; a = c.Next() {
			for i := range a.Timestamps {
				vals = append(vals, Val{a.Timestamps[i], RenderGo(a.Values[i])})
			}
		}
	case tsdb.UnsignedArrayCursor:
		for a := c.Next(); a.Len() > 0; a = c.Next() {
			for i := range a.Timestamps {
				vals = append(vals, Val{a.Timestamps[i], RenderGo(a.Values[i])})
			}
		}
	case tsdb.StringArrayCursor:
		for a := c.Next(); a.Len() > 0; a = c.Next() {
			for i := range a.Timestamps {
				vals = append(vals, Val{a.Timestamps[i], RenderGo(a.Values[i])})
			}
		}
	case tsdb.BooleanArrayCursor:
		for a := c.Next(); a.Len() > 0; a = c.Next() {
			for i := range a.Timestamps {
				vals = append(vals, Val{a.Timestamps[i], RenderGo(a.Values[i])})
			}
		}
	default:
		return nil, true, fmt.Errorf("cursor is %T", cur)
	}
	if cerr := cur.Err(); cerr != nil {
		return vals, true, cerr
	}
	return vals, true, nil
}

// TypeName maps an influxql data type to the names used by FieldSpec.
func TypeName(t influxql.DataType) string {
	switch t {
	case influxql.Float:
		return "float"
	case influxql.Integer:
		return "integer"
	case influxql.Unsigned:
		return "unsigned"
	case influxql.String:
		return "string"
	case influxql.Boolean:
		return "boolean"
	}
	return fmt.Sprintf("type%d", int(t))
}

// Schema returns measurement → field → type as recorded by the shard's MeasurementFieldSet
// (what Shard.MeasurementFields reports). Measurements without fields are listed with an empty map.
func (f *Fixture) Schema() (map[string]map[string]string, error) {
	e, err := f.Shard.Engine()
	if err != nil {
		return nil, err
	}
	out := map[string]map[string]string{}
	for _, m := range e.MeasurementFieldSet().MeasurementNames() {
		mf := f.Shard.MeasurementFields([]byte(m))
		fm := map[string]string{}
		if mf != nil {
			for k, t := range mf.FieldSet() {
				fm[k] = TypeName(t)
			}
		}
		out[m] = fm
	}
	return out, nil
}

// SchemaString renders a schema deterministically: "m{f:float,g:integer} m2{}"; measurements without
// fields are left out when skipEmpty is set.
func SchemaString(s map[string]map[string]string, skipEmpty bool) string {
	var ms []string
	for m := range s {
		if skipEmpty && len(s[m]) == 0 {
			continue
		}
		ms = append(ms, m)
	}
	sort.Strings(ms)
	var b strings.Builder
	for i, m := range ms {
		if i > 0 {
			b.WriteByte(' ')
		}
		var fs []string
		for f := range s[m] {
			fs = append(fs, f)
		}
		sort.Strings(fs)
		b.WriteString(m + "{")
		for j, f := range fs {
			if j > 0 {
				b.WriteByte(',')
			}
			b.WriteString(f + ":" + s[m][f])
		}
		b.WriteByte('}')
	}
	return b.String()
}

// RawString renders a raw dump deterministically.
func RawString(raw map[string][]Val) string {
	var ks []string
	for k := range raw {
		ks = append(ks, k)
	}
	sort.Strings(ks)
	var b strings.Builder
	for _, k := range ks {
		fmt.Fprintf(&b, "%q=[", k)
		for i, v := range raw[k] {
			if i > 0 {
				b.WriteByte(' ')
			}
			fmt.Fprintf(&b, "%d=%s", v.T, v.V)
		}
		b.WriteString("] ")
	}
	return strings.TrimSpace(b.String())
}
