// Self-test of the scheduler: toy programs with known schedule counts / outcome sets.
package zsched

import (
	"fmt"
	"testing"

	"github.com/influxdata/influxdb/v2/pkg/verifrt/vatomic"
	"github.com/influxdata/influxdb/v2/pkg/verifrt/vrt"
	"github.com/influxdata/influxdb/v2/pkg/verifrt/vsync"
)

func lostUpdate(nthreads, nops int) *vrt.Harness {
	return &vrt.Harness{Name: "lost-update", Body: func(x *vrt.Exec) {
		var v int64
		for i := 0; i < nthreads; i++ {
			x.Go(fmt.Sprintf("T%d", i), func() {
				for k := 0; k < nops; k++ {
					a := vatomic.LoadInt64(&v)
					vatomic.StoreInt64(&v, a+1)
				}
			})
		}
		x.Run()
		x.Outcome = fmt.Sprint(v)
	}}
}

func TestLostUpdate(t *testing.T) {
	for bound := 0; bound <= 3; bound++ {
		out := map[string]int{}
		st := vrt.Explore(t, lostUpdate(2, 1), bound, 0, 1, nil, func(r *vrt.Result) {
			if r.Diverged != "" {
				t.Fatal(r.Diverged)
			}
			out[r.Outcome]++
		})
		t.Logf("bound=%d execs=%d nodes=%d outcomes=%v", bound, st.Executions, st.Nodes, out)
		if bound == 0 && (len(out) != 1 || out["2"] == 0) {
			t.Fatalf("bound 0 must only see 2")
		}
		if bound >= 1 && out["1"] == 0 {
			t.Fatalf("lost update not found at bound %d", bound)
		}
	}
	// unbounded: 2 threads x (start + 2 ops)... count must be stable across shards
	total := int64(0)
	for sh := 0; sh < 4; sh++ {
		st := vrt.Explore(t, lostUpdate(3, 1), 99, sh, 4, nil, func(r *vrt.Result) {})
		total += st.Executions
	}
	st := vrt.Explore(t, lostUpdate(3, 1), 99, 0, 1, nil, func(r *vrt.Result) {})
	if total != st.Executions {
		t.Fatalf("sharded total %d != unsharded %d", total, st.Executions)
	}
	t.Logf("3 threads unbounded: %d executions", st.Executions)
}

func TestMutexAndDeadlock(t *testing.T) {
	// classic lock-order inversion: must find the deadlock with 1 preemption, and no deadlock with 0
	h := &vrt.Harness{Name: "abba", Body: func(x *vrt.Exec) {
		var a, b vsync.Mutex
		x.Go("T0", func() { a.Lock(); b.Lock(); b.Unlock(); a.Unlock() })
		x.Go("T1", func() { b.Lock(); a.Lock(); a.Unlock(); b.Unlock() })
		x.Run()
		if x.S.Deadlock {
			x.Outcome = "deadlock"
			// release: abort parked threads
		} else {
			x.Outcome = "ok"
		}
	}}
	for bound := 0; bound <= 2; bound++ {
		out := map[string]int{}
		vrt.Explore(t, h, bound, 0, 1, nil, func(r *vrt.Result) { out[r.Outcome]++ })
		t.Logf("bound=%d %v", bound, out)
		if bound == 0 && out["deadlock"] != 0 {
			t.Fatal("deadlock at bound 0")
		}
		if bound >= 1 && out["deadlock"] == 0 {
			t.Fatal("deadlock not found")
		}
	}
}

func TestReplayDeterminism(t *testing.T) {
	h := lostUpdate(3, 2)
	var recs []*vrt.Result
	vrt.Explore(t, h, 2, 0, 1, nil, func(r *vrt.Result) { recs = append(recs, r) })
	for i := 0; i < len(recs); i += 37 {
		r := recs[i]
		for k := 0; k < 2; k++ {
			r2 := vrt.RunOnce(t, h, r.Choices)
			if r2.Outcome != r.Outcome || fmt.Sprint(r2.Steps) != fmt.Sprint(r.Steps) {
				t.Fatalf("replay differs: %v vs %v", r2.Steps, r.Steps)
			}
		}
	}
	t.Logf("%d executions, replays identical", len(recs))
}

func TestFastGoid(t *testing.T) {
	if !vrt.FastGoid() {
		t.Log("fast goroutine-id path not available; using runtime.Stack")
	}
}

// Writer preference of RWMutex: a recursive RLock deadlocks iff a writer announces itself between the two
// acquisitions (1 preemption); plain reader/writer pairs never deadlock; TryRLock fails behind a pending writer.
func TestRWMutexWriterPreference(t *testing.T) {
	rec := &vrt.Harness{Name: "recursive-rlock", Body: func(x *vrt.Exec) {
		var m vsync.RWMutex
		x.Go("R", func() { m.RLock(); m.RLock(); m.RUnlock(); m.RUnlock() })
		x.Go("W", func() { m.Lock(); m.Unlock() })
		x.Run()
		x.Outcome = "ok"
		if x.S.Deadlock {
			x.Outcome = "deadlock"
		}
	}}
	for bound := 0; bound <= 2; bound++ {
		out := map[string]int{}
		vrt.Explore(t, rec, bound, 0, 1, nil, func(r *vrt.Result) { out[r.Outcome]++ })
		t.Logf("recursive bound=%d %v", bound, out)
		if bound == 0 && out["deadlock"] != 0 {
			t.Fatal("deadlock at bound 0")
		}
		if bound >= 1 && out["deadlock"] == 0 {
			t.Fatal("recursive read lock behind a pending writer not found")
		}
	}
	plain := &vrt.Harness{Name: "plain-rw", Body: func(x *vrt.Exec) {
		var m vsync.RWMutex
		n := 0
		try := "-"
		x.Go("R1", func() { m.RLock(); vrt.Hook("R1 in critical section"); _ = n; m.RUnlock() })
		x.Go("R2", func() {
			m.RLock()
			_ = n
			m.RUnlock()
			if m.TryRLock() {
				try = "got"
				m.RUnlock()
			} else {
				try = "refused"
			}
		})
		x.Go("W", func() { m.Lock(); n++; m.Unlock() })
		x.Run()
		x.Outcome = try
		if x.S.Deadlock {
			x.Outcome = "deadlock"
		}
	}}
	out := map[string]int{}
	st := vrt.Explore(t, plain, 99, 0, 1, nil, func(r *vrt.Result) { out[r.Outcome]++ })
	t.Logf("plain unbounded: %d executions %v", st.Executions, out)
	if out["deadlock"] != 0 || out["got"] == 0 || out["refused"] == 0 {
		t.Fatalf("unexpected outcomes %v", out)
	}
}
