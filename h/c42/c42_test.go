// C42: metadata queries list exactly the live names, sorted and authorized.
//
// Bounded-exhaustive enumeration on the `mini` fixture (real storage.Engine / tsdb.Store / tsi1 indexes / series file /
// InfluxQL statement rewriter + executor): for every dataset of a declared family (5 series of 3 measurements placed in
// two shard groups, optionally followed by a real bucket delete) every query of a declared family
//
//	API        ∈ Store.MeasurementNames, Store.TagKeys, Store.TagValues, SHOW MEASUREMENTS, SHOW TAG KEYS, SHOW TAG VALUES
//	authorizer ∈ nil, query.OpenAuthorizer, a fine-grained fake showing exactly one subset of the 5 series (all 32 subsets)
//	shards     ∈ {A}, {B}, {A,B}, {A,B,unknown id}                       (Store.TagKeys / Store.TagValues)
//	condition  = [_name filter] AND [_tagKey clause] AND [one tag comparison `k op lit` of the C15 grammar]
//	             (k ∈ keys carried by some and lacked by other series of a measurement; op lit: = / != with a value and
//	             with the empty literal, =~ / !~ with every regex of an alphabet holding regexes that match the empty string –
//	             /^x*$/, /.*/, /^$/ – and regexes that do not – /^x+$/, /x|z/)
//
// is executed and compared with a reference computed from the model of live series (series that still hold a point in
// the queried shards) and the authorizer's visible set.
//
// What the oracle demands:
//   - every listing is strictly ascending (sorted, each name once): measurement names; per measurement the tag keys;
//     per measurement the (key, value) pairs ordered by key then value; measurements (groups) ascending, each once;
//   - Store.TagKeys / TagValues (and SHOW TAG KEYS / VALUES): exactly the keys / (key,value) pairs carried by the live,
//     visible series of the measurement that satisfy the tag comparison (InfluxQL semantics, absent tag = "", as C15),
//     for the measurements selected by the _name filter and the keys selected by the _tagKey clause;
//   - Store.MeasurementNames / SHOW MEASUREMENTS: exactly the measurements with a live visible series, filtered by the
//     _name filter. With a TAG comparison the statement does not say when a *measurement* "matches"; three readings are
//     computed from live series only – (A) some live visible series satisfies the comparison (absent = ""), (B) the
//     index reading "has the key and some/no value matches" over the visible live series, (B') the same over all live
//     series – and a measurement must be listed when all readings say so and must not be listed when none does;
//   - never a name that is carried only by hidden series, nor only by deleted series.
//
// Many-values family: a second pool in which one measurement carries three values of one tag on three different
// series; measurement listings with tag comparisons that match one, two or all three values (regexes, !=, !~) under
// every subset of visible series (the index scans the matching values of a measurement in order and must go on to
// the next value when the series of one value are all hidden).
//
// A group (measurement) returned with an EMPTY key list by Store.TagKeys is treated as not listed (the executor and the
// storage service drop such groups).
package c42

import (
	"context"
	"encoding/json"
	"fmt"
	"regexp"
	"sort"
	"strings"
	"testing"
	"time"

	"github.com/influxdata/influxdb/v2/influxql/query"
	"github.com/influxdata/influxdb/v2/models"
	"github.com/influxdata/influxql"
	"verif/h/mini"
	"verif/h/vlib"
)

// ---------------------------------------------------------------------------------------------------------
// domain

const H = mini.Hour

var shardT = [2]int64{mini.Base + 10, mini.Base + H + 10} // one point per series and shard group

type seriesDef struct {
	M    string
	Tags map[string]string
}

// poolClassic is the series pool of the original families (Dataset.Pool == "").
var poolClassic = []seriesDef{
	{"m0", map[string]string{"a": "x"}},
	{"m0", map[string]string{"a": "y", "b": "z"}},
	{"m1", map[string]string{"a": "x", "b": "z"}},
	{"m1", map[string]string{"b": "w"}},
	{"m2", map[string]string{"a": "y"}},
}

// poolValues3 (Dataset.Pool == "values3") is the pool of the many-values family: measurement m0 carries THREE values
// of tag a on three different series (p < q < r), m1 two of them, m2 does not have the key; b=z occurs in m0 and m2.
// With every subset of the 6 series hidden and tag comparisons that match one, two or all three values, every
// combination of "the i-th matching value of the measurement is carried by hidden series only / by a visible series"
// occurs.
var poolValues3 = []seriesDef{
	{"m0", map[string]string{"a": "p"}},
	{"m0", map[string]string{"a": "q"}},
	{"m0", map[string]string{"a": "r", "b": "z"}},
	{"m1", map[string]string{"a": "q"}},
	{"m1", map[string]string{"a": "r"}},
	{"m2", map[string]string{"b": "z"}},
}

// pool / nSeries: the pool of the dataset being worked on (usePool); a worker handles one dataset at a time.
var (
	pool    = poolClassic
	nSeries = len(poolClassic)
)

const maxSeries = 6

func usePool(name string) {
	switch name {
	case "":
		pool = poolClassic
	case "values3":
		pool = poolValues3
	default:
		panic("unknown pool " + name)
	}
	nSeries = len(pool)
}

func seriesKey(s int) string {
	var ks []string
	for k := range pool[s].Tags {
		ks = append(ks, k)
	}
	sort.Strings(ks)
	out := pool[s].M
	for _, k := range ks {
		out += "," + k + "=" + pool[s].Tags[k]
	}
	return out
}

// Del is the bucket delete applied after the writes (through POST /api/v2/delete's engine entry point).
type Del struct {
	Range string `json:"range"` // all | A | B
	Pred  string `json:"pred"`  // DELETE API predicate text ("" = none)
}

// Dataset: Place[s] ∈ 0 absent, 1 shard A, 2 shard B, 3 both. Mode cache | tsm (snapshot before the delete).
type Dataset struct {
	Place []int  `json:"place"`
	Mode  string `json:"mode"`
	Del   *Del   `json:"delete,omitempty"`
	Pool  string `json:"pool,omitempty"` // "" = the classic pool, "values3" = the many-values pool
}

// delete predicates of the dataset family and their reference (which pool series match)
var delPreds = map[string]func(s int) bool{
	"":                            func(s int) bool { return true },
	`a="x"`:                       func(s int) bool { return pool[s].Tags["a"] == "x" },
	`_measurement="m0"`:           func(s int) bool { return pool[s].M == "m0" },
	`b="z"`:                       func(s int) bool { return pool[s].Tags["b"] == "z" },
	`_measurement="m1" AND b="w"`: func(s int) bool { return pool[s].M == "m1" && pool[s].Tags["b"] == "w" },
	`_measurement="m0" AND a="y"`: func(s int) bool { return pool[s].M == "m0" && pool[s].Tags["a"] == "y" },
	`a="q"`:                       func(s int) bool { return pool[s].Tags["a"] == "q" },
}

// model: live[s][sh] – series s still holds its point of shard group sh; ever[s] – s was written at all.
type model struct {
	live [maxSeries][2]bool
	ever [maxSeries]bool
}

func buildModel(ds Dataset) model {
	var md model
	for s, p := range ds.Place {
		md.live[s][0] = p&1 != 0
		md.live[s][1] = p&2 != 0
		md.ever[s] = p != 0
	}
	if ds.Del != nil {
		match := delPreds[ds.Del.Pred]
		for s := range pool {
			if !match(s) {
				continue
			}
			if ds.Del.Range == "all" || ds.Del.Range == "A" {
				md.live[s][0] = false
			}
			if ds.Del.Range == "all" || ds.Del.Range == "B" {
				md.live[s][1] = false
			}
		}
	}
	return md
}

// ---------------------------------------------------------------------------------------------------------
// queries

// Leaf is one tag comparison `key op literal` (C15 grammar, depth 1).
type Leaf struct {
	Key   string `json:"key"`
	Op    string `json:"op"` // = != =~ !~
	Lit   string `json:"lit"`
	Regex bool   `json:"regex,omitempty"`
}

func (l *Leaf) text() string {
	if l.Regex {
		return fmt.Sprintf("%s %s /%s/", l.Key, l.Op, l.Lit)
	}
	return fmt.Sprintf("%s %s '%s'", l.Key, l.Op, l.Lit)
}

var reCache = map[string]*regexp.Regexp{}

func re(s string) *regexp.Regexp {
	if r, ok := reCache[s]; ok {
		return r
	}
	r := regexp.MustCompile(s)
	reCache[s] = r
	return r
}

// positive: does value v match the positive form of the comparison (= / =~)?
func (l *Leaf) positive(v string) bool {
	if l.Regex {
		return re(l.Lit).MatchString(v)
	}
	return v == l.Lit
}

func (l *Leaf) negated() bool { return l.Op == "!=" || l.Op == "!~" }

// eval: InfluxQL semantics on a series, absent tag = "".
func (l *Leaf) eval(tags map[string]string) bool { return l.positive(tags[l.Key]) != l.negated() }

func (l *Leaf) kind() string {
	if l == nil {
		return "none"
	}
	k := "tag"
	if l.Key == "missing" {
		k = "nokey"
	}
	switch {
	case l.Regex && re(l.Lit).MatchString(""):
		return k + l.Op + "re-matching-empty"
	case l.Regex:
		return k + l.Op + "re"
	case l.Lit == "":
		return k + l.Op + "empty"
	}
	return k + l.Op + "value"
}

// NameF is a filter on the measurement name (`_name op lit`, FROM / WITH MEASUREMENT in InfluxQL).
type NameF struct {
	Op    string `json:"op"` // = != =~ !~
	Lit   string `json:"lit"`
	Regex bool   `json:"regex,omitempty"`
}

func (n *NameF) match(m string) bool {
	if n == nil {
		return true
	}
	var pos bool
	if n.Regex {
		pos = re(n.Lit).MatchString(m)
	} else {
		pos = m == n.Lit
	}
	return pos != (n.Op == "!=" || n.Op == "!~")
}

func (n *NameF) text() string {
	if n.Regex {
		return fmt.Sprintf("_name %s /%s/", n.Op, n.Lit)
	}
	return fmt.Sprintf("_name %s '%s'", n.Op, n.Lit)
}

// KeyF is the tag-key clause (`_tagKey ...`, WITH KEY in InfluxQL). Form: eq | ne | re | in.
type KeyF struct {
	Form string   `json:"form"`
	Vals []string `json:"vals"`
}

func (k *KeyF) match(key string) bool {
	if k == nil {
		return true
	}
	switch k.Form {
	case "eq":
		return key == k.Vals[0]
	case "ne":
		return key != k.Vals[0]
	case "re":
		return re(k.Vals[0]).MatchString(key)
	default:
		for _, v := range k.Vals {
			if v == key {
				return true
			}
		}
		return false
	}
}

func (k *KeyF) text() string {
	switch k.Form {
	case "eq":
		return fmt.Sprintf("_tagKey = '%s'", k.Vals[0])
	case "ne":
		return fmt.Sprintf("_tagKey != '%s'", k.Vals[0])
	case "re":
		return fmt.Sprintf("_tagKey =~ /%s/", k.Vals[0])
	default:
		var p []string
		for _, v := range k.Vals {
			p = append(p, fmt.Sprintf("_tagKey = '%s'", v))
		}
		return "(" + strings.Join(p, " OR ") + ")"
	}
}

// Query is one metadata request. Auth: -2 nil authorizer, -1 query.OpenAuthorizer, ≥0 bit mask of visible pool series.
type Query struct {
	API    string `json:"api"`
	Auth   int    `json:"auth"`
	Shards string `json:"shards,omitempty"` // A | B | AB | AB+unknown (Store.TagKeys / TagValues); "" = whole database
	Name   *NameF `json:"name,omitempty"`
	Key    *KeyF  `json:"key,omitempty"`
	Leaf   *Leaf  `json:"leaf,omitempty"`
}

func (q Query) cond() string {
	var parts []string
	if q.Name != nil {
		parts = append(parts, q.Name.text())
	}
	if q.Key != nil {
		parts = append(parts, q.Key.text())
	}
	if q.Leaf != nil {
		parts = append(parts, q.Leaf.text())
	}
	return strings.Join(parts, " AND ")
}

// statement renders the InfluxQL text of the SHOW variants.
func (q Query) statement() string {
	src := ""
	if q.Name != nil {
		if q.Name.Regex {
			src = "/" + q.Name.Lit + "/"
		} else {
			src = `"` + q.Name.Lit + `"`
		}
	}
	where := ""
	if q.Leaf != nil {
		where = " WHERE " + q.Leaf.text()
	}
	switch q.API {
	case "SHOW MEASUREMENTS":
		s := "SHOW MEASUREMENTS"
		if src != "" {
			s += " WITH MEASUREMENT " + q.Name.Op + " " + src
		}
		return s + where
	case "SHOW TAG KEYS":
		s := "SHOW TAG KEYS"
		if src != "" {
			s += " FROM " + src
		}
		return s + where
	default:
		s := "SHOW TAG VALUES"
		if src != "" {
			s += " FROM " + src
		}
		switch q.Key.Form {
		case "eq":
			s += ` WITH KEY = "` + q.Key.Vals[0] + `"`
		case "ne":
			s += ` WITH KEY != "` + q.Key.Vals[0] + `"`
		case "re":
			s += " WITH KEY =~ /" + q.Key.Vals[0] + "/"
		default:
			var p []string
			for _, v := range q.Key.Vals {
				p = append(p, `"`+v+`"`)
			}
			s += " WITH KEY IN (" + strings.Join(p, ", ") + ")"
		}
		return s + where
	}
}

func (q Query) String() string {
	a := fmt.Sprintf("auth=visible%v", visibleList(q.Auth))
	switch q.Auth {
	case -2:
		a = "auth=nil"
	case -1:
		a = "auth=OpenAuthorizer"
	}
	if strings.HasPrefix(q.API, "SHOW") {
		return fmt.Sprintf("%s [%s]", q.statement(), a)
	}
	sh := ""
	if q.Shards != "" {
		sh = " shards=" + q.Shards
	}
	c := q.cond()
	if c == "" {
		c = "<nil>"
	}
	return fmt.Sprintf("Store.%s(cond: %s)%s [%s]", q.API, c, sh, a)
}

func visibleList(mask int) []string {
	var out []string
	for s := 0; s < nSeries; s++ {
		if mask >= 0 && mask>>s&1 == 1 {
			out = append(out, seriesKey(s))
		}
	}
	return out
}

// fineAuth shows exactly the series of the mask.
type fineAuth struct{ mask int }

func (a fineAuth) AuthorizeDatabase(influxql.Privilege, string) bool { return true }
func (a fineAuth) AuthorizeQuery(string, *influxql.Query) error      { return nil }
func (a fineAuth) AuthorizeSeriesWrite(string, []byte, models.Tags) bool {
	return false
}
func (a fineAuth) AuthorizeSeriesRead(_ string, m []byte, tags models.Tags) bool {
	for s := 0; s < nSeries; s++ {
		if a.mask>>s&1 == 0 || pool[s].M != string(m) || len(tags) != len(pool[s].Tags) {
			continue
		}
		ok := true
		for _, t := range tags {
			if pool[s].Tags[string(t.Key)] != string(t.Value) {
				ok = false
			}
		}
		if ok {
			return true
		}
	}
	return false
}

func (q Query) authorizer() query.Authorizer {
	switch q.Auth {
	case -2:
		return nil
	case -1:
		return query.OpenAuthorizer
	}
	return fineAuth{q.Auth}
}

func (q Query) authKind() string {
	switch {
	case q.Auth == -2:
		return "nil"
	case q.Auth == -1:
		return "open"
	case q.Auth == 1<<nSeries-1:
		return "fine-all-visible"
	case q.Auth == 0:
		return "fine-none-visible"
	}
	return "fine-partial"
}

// ---------------------------------------------------------------------------------------------------------
// reference

type group struct {
	M     string
	Items []string // keys, or "key=value" pairs
}

// sets of series for a query: lv = live in the queried shards and visible; la = live in the queried shards.
func (q Query) seriesSets(md model) (lv, la []int) {
	for s := 0; s < nSeries; s++ {
		live := false
		switch q.Shards {
		case "A":
			live = md.live[s][0]
		case "B":
			live = md.live[s][1]
		default:
			live = md.live[s][0] || md.live[s][1]
		}
		if !live {
			continue
		}
		la = append(la, s)
		if q.Auth < 0 || q.Auth>>s&1 == 1 {
			lv = append(lv, s)
		}
	}
	return
}

var measurements = []string{"m0", "m1", "m2"}

func ofMeasurement(set []int, m string) []int {
	var out []int
	for _, s := range set {
		if pool[s].M == m {
			out = append(out, s)
		}
	}
	return out
}

// refNames: (must, may) for measurement listings.
func refNames(q Query, md model) (must, may map[string]bool) {
	must, may = map[string]bool{}, map[string]bool{}
	lv, la := q.seriesSets(md)
	for _, m := range measurements {
		if !q.Name.match(m) {
			continue
		}
		vis := ofMeasurement(lv, m)
		if len(vis) == 0 {
			continue // no live visible series: never listed
		}
		if q.Leaf == nil {
			must[m], may[m] = true, true
			continue
		}
		// reading A: some live visible series satisfies the comparison
		a := false
		for _, s := range vis {
			a = a || q.Leaf.eval(pool[s].Tags)
		}
		// readings B (index style) over the visible resp. all live series of the measurement
		b := func(set []int) bool {
			hasKey, anyPos, visPos := false, false, false
			for _, s := range set {
				v, ok := pool[s].Tags[q.Leaf.Key]
				if !ok {
					continue
				}
				hasKey = true
				if q.Leaf.positive(v) {
					anyPos = true
				}
			}
			for _, s := range vis {
				if v, ok := pool[s].Tags[q.Leaf.Key]; ok && q.Leaf.positive(v) {
					visPos = true
				}
			}
			if !hasKey {
				return false
			}
			if q.Leaf.negated() {
				return !anyPos
			}
			return visPos
		}
		bv, ba := b(vis), b(ofMeasurement(la, m))
		if a && bv && ba {
			must[m] = true
		}
		if a || bv || ba {
			may[m] = true
		}
	}
	return
}

// refGroups: exact expectation of TagKeys (values=false) / TagValues (values=true).
func refGroups(q Query, md model, values bool) []group {
	lv, _ := q.seriesSets(md)
	var out []group
	for _, m := range measurements {
		if !q.Name.match(m) {
			continue
		}
		set := map[string]bool{}
		for _, s := range ofMeasurement(lv, m) {
			if q.Leaf != nil && !q.Leaf.eval(pool[s].Tags) {
				continue
			}
			for k, v := range pool[s].Tags {
				if !q.Key.match(k) {
					continue
				}
				if values {
					set[k+"="+v] = true
				} else {
					set[k] = true
				}
			}
		}
		if len(set) == 0 {
			continue
		}
		g := group{M: m}
		for k := range set {
			g.Items = append(g.Items, k)
		}
		sort.Strings(g.Items) // "k=v" strings sort by key, then value ('=' precedes letters; keys are single letters)
		out = append(out, g)
	}
	return out
}

// ---------------------------------------------------------------------------------------------------------
// execution

type problem struct {
	clause string
	detail string
	// stale: the discrepancy concerns a tag key / value that a series DELETED from the queried shards carries (the
	// index keeps such entries): part of the class signature
	stale bool
}

func strictlyAscending(a []string) bool {
	for i := 1; i < len(a); i++ {
		if a[i] <= a[i-1] {
			return false
		}
	}
	return true
}

func sortedKeys(m map[string]bool) []string {
	var ks []string
	for k, v := range m {
		if v {
			ks = append(ks, k)
		}
	}
	sort.Strings(ks)
	return ks
}

// whyExtra classifies a name that should not have been returned.
// carried(s) tells whether pool series s carries the name (in the measurement concerned).
func whyExtra(q Query, md model, carried func(s int) bool) string {
	lv, la := q.seriesSets(md)
	in := func(set []int) bool {
		for _, s := range set {
			if carried(s) {
				return true
			}
		}
		return false
	}
	switch {
	case in(lv):
		return "nonmatching-name-returned"
	case in(la):
		return "hidden-name-returned"
	}
	for s := 0; s < nSeries; s++ {
		if md.ever[s] && carried(s) {
			return "name-of-deleted-series-returned" // written once, but no longer live in the queried shards
		}
	}
	return "unknown-name-returned"
}

func execNames(f *mini.Fixture, b mini.Bucket, q Query) ([]string, error) {
	if q.API == "SHOW MEASUREMENTS" {
		rs, err := f.InfluxQLAuth(b, q.statement(), q.authorizer())
		if err != nil {
			return nil, err
		}
		var out []string
		for _, r := range rs {
			if r.Err != "" {
				return nil, fmt.Errorf("%s", r.Err)
			}
			for _, row := range r.Rows {
				for _, v := range row.Values {
					out = append(out, fmt.Sprint(v[0]))
				}
			}
		}
		return out, nil
	}
	var cond influxql.Expr
	if c := q.cond(); c != "" {
		var err error
		if cond, err = influxql.ParseExpr(c); err != nil {
			return nil, fmt.Errorf("harness: cannot parse %q: %v", c, err)
		}
	}
	names, err := f.TSDB.MeasurementNames(context.Background(), q.authorizer(), b.DBName(), cond)
	if err != nil {
		return nil, err
	}
	var out []string
	for _, n := range names {
		out = append(out, string(n))
	}
	return out, nil
}

// shardIDs resolves a shard set name to the ids of the shards of group A / B (a group exists only if something was
// ever written into it) plus, for "unknown", an id no shard has.
func shardIDs(f *mini.Fixture, b mini.Bucket, which string) []uint64 {
	var out []uint64
	for g, name := range []string{"A", "B"} {
		if !strings.Contains(which, name) {
			continue
		}
		at := time.Unix(0, shardT[g])
		groups, err := f.Meta.ShardGroupsByTimeRange(b.DBName(), "autogen", at, at)
		if err != nil {
			continue
		}
		for _, sg := range groups {
			for _, sh := range sg.Shards {
				out = append(out, sh.ID)
			}
		}
	}
	if strings.Contains(which, "unknown") {
		out = append(out, 9999)
	}
	return out
}

func execGroups(f *mini.Fixture, b mini.Bucket, q Query, ids map[string][]uint64) ([]group, error) {
	if strings.HasPrefix(q.API, "SHOW") {
		rs, err := f.InfluxQLAuth(b, q.statement(), q.authorizer())
		if err != nil {
			return nil, err
		}
		var out []group
		for _, r := range rs {
			if r.Err != "" {
				return nil, fmt.Errorf("%s", r.Err)
			}
			for _, row := range r.Rows {
				g := group{M: row.Name}
				for _, v := range row.Values {
					if q.API == "SHOW TAG KEYS" {
						g.Items = append(g.Items, fmt.Sprint(v[0]))
					} else {
						g.Items = append(g.Items, fmt.Sprint(v[0])+"="+fmt.Sprint(v[1]))
					}
				}
				out = append(out, g)
			}
		}
		return out, nil
	}
	var cond influxql.Expr
	if c := q.cond(); c != "" {
		var err error
		if cond, err = influxql.ParseExpr(c); err != nil {
			return nil, fmt.Errorf("harness: cannot parse %q: %v", c, err)
		}
	}
	ctx := context.Background()
	var out []group
	if q.API == "TagKeys" {
		tks, err := f.TSDB.TagKeys(ctx, q.authorizer(), ids[q.Shards], cond)
		if err != nil {
			return nil, err
		}
		for _, tk := range tks {
			out = append(out, group{M: tk.Measurement, Items: append([]string{}, tk.Keys...)})
		}
		return out, nil
	}
	tvs, err := f.TSDB.TagValues(ctx, q.authorizer(), ids[q.Shards], cond)
	if err != nil {
		return nil, err
	}
	for _, tv := range tvs {
		g := group{M: tv.Measurement}
		for _, kv := range tv.Values {
			g.Items = append(g.Items, kv.Key+"="+kv.Value)
		}
		out = append(out, g)
	}
	return out, nil
}

type verdict struct {
	probs    []problem
	nResult  int
	emptyGrp bool
	raw      string
	panicked string
	err      error
}

func isNamesAPI(api string) bool { return api == "MeasurementNames" || api == "SHOW MEASUREMENTS" }

func run(f *mini.Fixture, b mini.Bucket, md model, q Query, ids map[string][]uint64) (v verdict) {
	add := func(clause, detail string) {
		v.probs = append(v.probs, problem{clause: clause, detail: detail, stale: clause == "name-of-deleted-series-returned"})
	}
	// staleFor: does a series that was deleted from the queried shards carry the compared tag key in measurement m?
	_, liveAll := q.seriesSets(md)
	staleFor := func(m string) bool {
		if q.Leaf == nil {
			return false
		}
		for s := 0; s < nSeries; s++ {
			if !md.ever[s] || pool[s].M != m {
				continue
			}
			live := false
			for _, l := range liveAll {
				live = live || l == s
			}
			if _, has := pool[s].Tags[q.Leaf.Key]; has && !live {
				return true
			}
		}
		return false
	}
	p, d := vlib.Guard(func() {
		if isNamesAPI(q.API) {
			got, err := execNames(f, b, q)
			if err != nil {
				v.err = err
				return
			}
			v.nResult, v.raw = len(got), fmt.Sprint(got)
			if !strictlyAscending(got) {
				add("not-sorted-or-duplicate", fmt.Sprintf("measurement names %v are not strictly ascending", got))
			}
			must, may := refNames(q, md)
			gs := map[string]bool{}
			for _, n := range got {
				gs[n] = true
				if !may[n] {
					why := whyExtra(q, md, func(s int) bool { return pool[s].M == n })
					add(why, fmt.Sprintf("returned %v; %q must not be listed (must list %v, may list %v)", got, n, sortedKeys(must), sortedKeys(may)))
					v.probs[len(v.probs)-1].stale = v.probs[len(v.probs)-1].stale || staleFor(n)
				}
			}
			for _, n := range sortedKeys(must) {
				if !gs[n] {
					add("matching-name-missing", fmt.Sprintf("returned %v; %q must be listed (must list %v)", got, n, sortedKeys(must)))
					v.probs[len(v.probs)-1].stale = staleFor(n)
				}
			}
			return
		}
		values := q.API == "TagValues" || q.API == "SHOW TAG VALUES"
		got, err := execGroups(f, b, q, ids)
		if err != nil {
			v.err = err
			return
		}
		want := refGroups(q, md, values)
		v.raw = fmt.Sprint(got)
		var ms []string
		wantOf, gotOf := map[string]map[string]bool{}, map[string]map[string]bool{}
		for _, g := range want {
			wantOf[g.M] = map[string]bool{}
			for _, it := range g.Items {
				wantOf[g.M][it] = true
			}
		}
		for _, g := range got {
			if len(g.Items) == 0 {
				v.emptyGrp = true
				continue // an empty group lists nothing
			}
			v.nResult += len(g.Items)
			ms = append(ms, g.M)
			if !strictlyAscending(g.Items) {
				add("not-sorted-or-duplicate", fmt.Sprintf("items of measurement %s %v are not strictly ascending", g.M, g.Items))
			}
			if gotOf[g.M] == nil {
				gotOf[g.M] = map[string]bool{}
			}
			for _, it := range g.Items {
				gotOf[g.M][it] = true
				if !wantOf[g.M][it] {
					m, item := g.M, it
					why := whyExtra(q, md, func(s int) bool {
						if pool[s].M != m {
							return false
						}
						if !values {
							_, ok := pool[s].Tags[item]
							return ok
						}
						kv := strings.SplitN(item, "=", 2)
						return pool[s].Tags[kv[0]] == kv[1]
					})
					add(why, fmt.Sprintf("returned %v; %s of %s must not be listed (expected %v)", got, it, g.M, want))
				}
			}
		}
		if !strictlyAscending(ms) {
			add("groups-not-sorted-or-duplicate", fmt.Sprintf("measurement groups %v are not strictly ascending", ms))
		}
		for _, g := range want {
			for _, it := range g.Items {
				if !gotOf[g.M][it] {
					add("matching-name-missing", fmt.Sprintf("returned %v; %s of %s must be listed (expected %v)", got, it, g.M, want))
				}
			}
		}
	})
	if p {
		v.panicked = d
	}
	return
}

// ---------------------------------------------------------------------------------------------------------
// families

// Regex alphabet of the tag comparisons: regexes that MATCH THE EMPTY STRING (a series lacking the key has value ""
// and is selected by `=~`, rejected by `!~`) next to regexes that do not. On the single-letter values of the pool
// /^x*$/ and /^x+$/ match exactly the value x, /x|z/ the values x and z, /.*/ every value, /^$/ none.
var (
	regexMatchingEmpty    = []string{"^x*$", ".*", "^$"}
	regexNotMatchingEmpty = []string{"^x+$", "x|z"}
)

// leaves: nil (no tag comparison) + key × (operator, literal): the equality forms = / != with 'x' and with the empty
// literal (the equality analogue of a regex matching the empty string), and EVERY (=~ | !~) × regex of the alphabet.
// Keys a, b (both carried by some series of m0 and m1 and lacked by others): the whole alphabet (14 comparisons each;
// thorough + = 'y', != 'z' and (=~ | !~) /y?/, a regex that matches the empty string AND a value). The key no series has:
// = 'x', != 'x', =~ /.*/, !~ /.*/ (thorough + = / != with the empty literal, =~ / !~ /^x+$/).
func leaves(thorough bool) []*Leaf {
	out := []*Leaf{nil}
	type ol struct {
		op, lit string
		re      bool
	}
	ops := []ol{{"=", "x", false}, {"!=", "x", false}, {"=", "", false}, {"!=", "", false}}
	res := append(append([]string(nil), regexMatchingEmpty...), regexNotMatchingEmpty...)
	if thorough {
		ops = append(ops, ol{"=", "y", false}, ol{"!=", "z", false})
		res = append(res, "y?")
	}
	for _, r := range res {
		ops = append(ops, ol{"=~", r, true}, ol{"!~", r, true})
	}
	for _, k := range []string{"a", "b"} {
		for _, o := range ops {
			out = append(out, &Leaf{Key: k, Op: o.op, Lit: o.lit, Regex: o.re})
		}
	}
	out = append(out, &Leaf{Key: "missing", Op: "=", Lit: "x"}, &Leaf{Key: "missing", Op: "!=", Lit: "x"},
		&Leaf{Key: "missing", Op: "=~", Lit: ".*", Regex: true}, &Leaf{Key: "missing", Op: "!~", Lit: ".*", Regex: true})
	if thorough {
		out = append(out, &Leaf{Key: "missing", Op: "=", Lit: ""}, &Leaf{Key: "missing", Op: "!=", Lit: ""},
			&Leaf{Key: "missing", Op: "=~", Lit: "^x+$", Regex: true}, &Leaf{Key: "missing", Op: "!~", Lit: "^x+$", Regex: true})
	}
	return out
}

func nameFilters(thorough bool) []*NameF {
	out := []*NameF{nil, {Op: "=", Lit: "m0"}, {Op: "!=", Lit: "m0"}, {Op: "=~", Lit: "m[01]", Regex: true}}
	if thorough {
		out = append(out, &NameF{Op: "!~", Lit: "0", Regex: true})
	}
	return out
}

func keyClauses(thorough bool) []*KeyF {
	out := []*KeyF{nil, {Form: "eq", Vals: []string{"a"}}, {Form: "in", Vals: []string{"a", "b"}}, {Form: "ne", Vals: []string{"a"}}}
	if thorough {
		out = append(out, &KeyF{Form: "re", Vals: []string{"a|b"}}, &KeyF{Form: "eq", Vals: []string{"nokey"}})
	}
	return out
}

func auths(thorough bool) []int {
	out := []int{-2, -1}
	for m := 0; m < 1<<nSeries; m++ {
		out = append(out, m)
	}
	return out
}

// queries: the complete product of the families, per API.
func queries(thorough bool) []Query {
	var out []Query
	ls, ns, ks, as := leaves(thorough), nameFilters(thorough), keyClauses(thorough), auths(thorough)
	shardSets := []string{"AB", "A", "B"}
	if thorough {
		shardSets = append(shardSets, "AB+unknown")
	}
	for _, a := range as {
		for _, n := range ns {
			for _, l := range ls {
				out = append(out, Query{API: "MeasurementNames", Auth: a, Name: n, Leaf: l})
				if n == nil || n.Op == "=" || n.Op == "=~" { // WITH MEASUREMENT / FROM only know = and =~
					out = append(out, Query{API: "SHOW MEASUREMENTS", Auth: a, Name: n, Leaf: l})
					out = append(out, Query{API: "SHOW TAG KEYS", Auth: a, Name: n, Leaf: l})
					for _, k := range ks {
						if k != nil {
							out = append(out, Query{API: "SHOW TAG VALUES", Auth: a, Name: n, Key: k, Leaf: l})
						}
					}
				}
				for _, sh := range shardSets {
					for _, k := range ks {
						out = append(out, Query{API: "TagKeys", Auth: a, Shards: sh, Name: n, Key: k, Leaf: l})
						if k != nil {
							out = append(out, Query{API: "TagValues", Auth: a, Shards: sh, Name: n, Key: k, Leaf: l})
						}
					}
				}
			}
		}
	}
	return out
}

// leaves3: tag comparisons of the many-values family. On key a (values p, q, r in m0; q, r in m1) the positive
// forms match one, two (every pair) or all three values, the negative forms exclude one, two or all of them.
func leaves3(thorough bool) []*Leaf {
	out := []*Leaf{
		{Key: "a", Op: "=~", Lit: "p|q", Regex: true}, {Key: "a", Op: "=~", Lit: "q|r", Regex: true}, {Key: "a", Op: "=~", Lit: "p|r", Regex: true},
		{Key: "a", Op: "=~", Lit: "[pqr]", Regex: true}, {Key: "a", Op: "=~", Lit: "q", Regex: true},
		{Key: "a", Op: "=", Lit: "q"}, {Key: "a", Op: "=", Lit: "r"},
		{Key: "a", Op: "!=", Lit: "p"}, {Key: "a", Op: "!=", Lit: "q"},
		{Key: "a", Op: "!~", Lit: "p|q", Regex: true}, {Key: "a", Op: "!~", Lit: "[pqr]", Regex: true},
		{Key: "b", Op: "=~", Lit: "z|w", Regex: true}, {Key: "b", Op: "!=", Lit: "z"},
	}
	if thorough {
		out = append(out,
			&Leaf{Key: "a", Op: "=", Lit: "p"}, &Leaf{Key: "a", Op: "!=", Lit: "r"}, &Leaf{Key: "a", Op: "!~", Lit: "q|r", Regex: true},
			&Leaf{Key: "a", Op: "!~", Lit: "r", Regex: true}, &Leaf{Key: "a", Op: "=~", Lit: ".*", Regex: true}, &Leaf{Key: "a", Op: "!=", Lit: ""},
			&Leaf{Key: "a", Op: "=", Lit: ""}, &Leaf{Key: "b", Op: "=", Lit: "z"}, &Leaf{Key: "b", Op: "!~", Lit: "z", Regex: true})
	}
	return out
}

// queries3: the many-values family – measurement listings only, every authorizer (nil, open, every subset of the 6
// series visible) × name filter × tag comparison.
func queries3(thorough bool) []Query {
	var out []Query
	ns := []*NameF{nil, {Op: "=", Lit: "m0"}}
	if thorough {
		ns = append(ns, &NameF{Op: "=~", Lit: "m[01]", Regex: true})
	}
	for _, a := range auths(thorough) {
		for _, n := range ns {
			for _, l := range leaves3(thorough) {
				out = append(out, Query{API: "MeasurementNames", Auth: a, Name: n, Leaf: l}, Query{API: "SHOW MEASUREMENTS", Auth: a, Name: n, Leaf: l})
			}
		}
	}
	return out
}

// datasets3: the datasets of the many-values family.
func datasets3(thorough bool) []Dataset {
	out := []Dataset{
		{Place: []int{3, 3, 3, 3, 3, 3}, Mode: "tsm", Pool: "values3"},
		{Place: []int{2, 1, 3, 1, 2, 3}, Mode: "cache", Pool: "values3"},
	}
	if thorough {
		out = append(out,
			Dataset{Place: []int{1, 2, 2, 3, 3, 1}, Mode: "tsm", Pool: "values3"},
			Dataset{Place: []int{3, 3, 3, 3, 3, 3}, Mode: "cache", Pool: "values3", Del: &Del{"all", `a="q"`}})
	}
	return out
}

func datasets(thorough bool) []Dataset {
	var out []Dataset
	places := [][]int{{3, 3, 3, 3, 3}, {1, 2, 3, 3, 1}, {3, 1, 2, 1, 2}}
	dels := []*Del{nil, {"all", `a="x"`}, {"A", ""}, {"all", `_measurement="m0" AND a="y"`}}
	if thorough {
		dels = append(dels, &Del{"all", `_measurement="m0"`}, &Del{"B", `b="z"`})
		places = append(places, []int{2, 3, 1, 3, 3}, []int{1, 1, 2, 2, 3}, []int{3, 0, 3, 3, 0}, []int{0, 3, 0, 3, 3}, []int{3, 3, 0, 0, 0}, []int{1, 0, 0, 2, 0})
		dels = append(dels, &Del{"all", `_measurement="m1" AND b="w"`}, &Del{"A", `a="x"`})
	}
	i := 0
	for _, p := range places {
		for _, d := range dels {
			mode := "cache"
			if i%2 == 1 {
				mode = "tsm"
			}
			i++
			out = append(out, Dataset{Place: p, Mode: mode, Del: d})
		}
	}
	// simplest first: datasets without a delete, then the others
	// the few datasets of the many-values family are not to be the ones a wall-budget cap cuts off: they go with the
	// other datasets without a delete
	out = append(datasets3(thorough), out...)
	sort.SliceStable(out, func(i, j int) bool { return (out[i].Del == nil) && (out[j].Del != nil) })
	return out
}

func load(ds Dataset) (*mini.Fixture, mini.Bucket, error) {
	f, err := mini.Open(mini.Options{})
	if err != nil {
		return nil, mini.Bucket{}, err
	}
	b, err := f.CreateBucket("db0", 0)
	if err != nil {
		f.Close()
		return nil, b, err
	}
	var pts []mini.Point
	for s, p := range ds.Place {
		for sh := 0; sh < 2; sh++ {
			if p>>sh&1 == 1 {
				var tags []mini.Tag
				for k, v := range pool[s].Tags {
					tags = append(tags, mini.Tag{K: k, V: v})
				}
				sort.Slice(tags, func(i, j int) bool { return tags[i].K < tags[j].K })
				pts = append(pts, mini.Point{M: pool[s].M, Tags: tags, Fields: map[string]any{"f0": float64(s*10 + sh)}, T: shardT[sh]})
			}
		}
	}
	if len(pts) > 0 {
		if err := f.Write(b, pts); err != nil {
			f.Close()
			return nil, b, fmt.Errorf("write: %w", err)
		}
	}
	if ds.Mode == "tsm" {
		if err := f.SnapshotAll(); err != nil {
			f.Close()
			return nil, b, fmt.Errorf("snapshot: %w", err)
		}
	}
	if ds.Del != nil {
		min, max := models.MinNanoTime, models.MaxNanoTime
		switch ds.Del.Range {
		case "A":
			min, max = mini.Base, mini.Base+H-1
		case "B":
			min, max = mini.Base+H, mini.Base+2*H-1
		}
		if err := f.Delete(b, min, max, ds.Del.Pred); err != nil {
			f.Close()
			return nil, b, fmt.Errorf("delete: %w", err)
		}
	}
	return f, b, nil
}

func shardSetsOf(f *mini.Fixture, b mini.Bucket) map[string][]uint64 {
	out := map[string][]uint64{}
	for _, w := range []string{"A", "B", "AB", "AB+unknown"} {
		out[w] = shardIDs(f, b, w)
	}
	return out
}

type Case struct {
	DS Dataset `json:"dataset"`
	Q  Query   `json:"query"`
	// Sig: the class signature the replay has to reproduce ("" = any problem)
	Sig string `json:"expect_signature,omitempty"`
}

// sigOf: discrepancies that involve an index entry of a deleted series are classified coarsely (API / clause /
// authorizer class); everything else carries the authorizer kind and the polarity of the tag comparison.
func sigOf(q Query, p problem) string {
	api := q.API
	if !strings.HasPrefix(api, "SHOW") {
		api = "Store." + api
	}
	auth := "auth=fine"
	if q.Auth < 0 {
		auth = "auth=open"
	}
	if p.stale {
		return vlib.JoinSig(api, p.clause, auth, "tag-of-deleted-series-involved")
	}
	where := "where=none"
	if q.Leaf != nil && q.Leaf.negated() {
		where = "where=negative"
	} else if q.Leaf != nil {
		where = "where=positive"
	}
	if q.Leaf != nil && q.Leaf.positive("") {
		where += "-literal-matches-empty" // = '' / != '' / a regex matching "": series LACKING the key are concerned
	}
	return vlib.JoinSig(api, p.clause, "auth="+q.authKind(), where)
}

func describe(ds Dataset) string {
	md := buildModel(ds)
	var parts []string
	for s := 0; s < nSeries; s++ {
		if !md.ever[s] {
			continue
		}
		st := ""
		for sh, n := range []string{"A", "B"} {
			if ds.Place[s]>>sh&1 == 1 {
				if md.live[s][sh] {
					st += n
				} else {
					st += "(" + n + " deleted)"
				}
			}
		}
		parts = append(parts, seriesKey(s)+":"+st)
	}
	d := "no delete"
	if ds.Del != nil {
		d = fmt.Sprintf("delete(range=%s, pred=%q)", ds.Del.Range, ds.Del.Pred)
	}
	return fmt.Sprintf("layout=%s %s → series{%s}", ds.Mode, d, strings.Join(parts, " "))
}

func TestCheck(t *testing.T) {
	vlib.Main(t, &vlib.Check{
		ID: "C42", Level: "exploration",
		Rule: "datasets × queries, complete product within the bounds. Series pool m0{a=x}, m0{a=y,b=z}, m1{a=x,b=z}, m1{b=w}, m2{a=y}; one point per series and shard group (two 1h groups A, B). " +
			"Datasets: placements of the 5 series (absent / A / B / both; quick 3 placements, thorough 9) × one bucket delete through storage.Engine.DeleteBucketRangePredicate (quick: none, all-time a=x, range A no predicate, all-time m0 AND a=y; thorough + all-time _measurement=m0, range B b=z, all-time m1 AND b=w, range A a=x), layouts cache / tsm alternating (quick 12, thorough 72 datasets). " +
			"Queries per dataset = APIs × authorizers × shard sets × conditions: authorizers nil, OpenAuthorizer and a fine-grained fake for EVERY subset of the 5 series (34); APIs Store.MeasurementNames, Store.TagKeys and Store.TagValues with shard id sets {A,B},{A},{B} (+{A,B,unknown id} thorough), SHOW MEASUREMENTS [WITH MEASUREMENT] [WHERE], SHOW TAG KEYS [FROM] [WHERE], SHOW TAG VALUES [FROM] WITH KEY =/!=/=~/IN [WHERE] through query.Executor → statement rewriter → StatementExecutor; condition = [_name filter: none, ='m0', !='m0', =~/m[01]/ (+ !~/0/ thorough)] AND [_tagKey clause: none, ='a', IN(a,b), !='a' (+ =~/a|b/, ='nokey' thorough)] AND [tag comparison: none or key × (operator, literal), EVERY combination of: = 'x', != 'x', = '', != '' and (=~ | !~) × regex alphabet {/^x*$/, /.*/, /^$/ – regexes that MATCH THE EMPTY STRING, so that series lacking the key are selected by =~ and rejected by !~ – and /^x+$/, /x|z/, which do not}; quick: keys a, b × these 14 + the key no series has × (= 'x', != 'x', =~ /.*/, !~ /.*/) = 32 comparisons; thorough: keys a, b × (the 14 + = 'y', != 'z' + (=~ | !~) /y?/, which matches the empty string and the value y) + the key no series has × (the 4 + = '', != '', =~ /^x+$/, !~ /^x+$/) = 44 comparisons. In the pool m0{a=x} lacks b, m1{b=w} lacks a (and is the only series carrying b=w), m2{a=y} lacks b; each combination is run under every authorizer, i.e. every subset of visible series]. " +
			"Many-values family (own datasets, visited first): pool m0{a=p}, m0{a=q}, m0{a=r,b=z}, m1{a=q}, m1{a=r}, m2{b=z} – three values of tag a on three different series of ONE measurement; datasets: all series in both groups (tsm), placement (B,A,AB,A,B,AB) (cache) (thorough + placement (A,B,B,AB,AB,A) tsm and all-in-both followed by delete all-time a=q); queries = measurement listings only: Store.MeasurementNames, SHOW MEASUREMENTS × authorizers nil, OpenAuthorizer and a fine-grained fake for EVERY subset of the 6 series (66) × _name filter none, ='m0' (+ =~/m[01]/ thorough) × tag comparison a =~ /p|q/, /q|r/, /p|r/, /[pqr]/, /q/, a = 'q', 'r', a != 'p', 'q', a !~ /p|q/, /[pqr]/, b =~ /z|w/, b != 'z' (thorough + a = 'p', '', a != 'r', '', a !~ /q|r/, /r/, a =~ /.*/, b = 'z', b !~ /z/): every combination of which matching values of a measurement are carried by hidden series only occurs. " +
			"Oracle: reference over the model of live (per queried shard set) and visible series – see the file header. non-trivial = queries whose reference lists ≥1 name (distinct by construction).",
		Assumptions: []string{
			"a series is live in a shard set iff it still holds a point in one of those shards (the delete semantics themselves are C17's business)",
			"tag comparisons in TagKeys/TagValues select SERIES with InfluxQL semantics (absent tag = empty string), as established by C15: a series lacking the key satisfies k = '', k =~ /re/ iff re matches the empty string, k != 'x', and k !~ /re/ iff re does NOT match the empty string; the reference is a brute force over the series list with exactly this rule",
			"for measurement listings restricted by a tag comparison three readings of 'the measurement matches' are accepted (see file header); a result is only judged where all readings agree",
			"a measurement group returned by Store.TagKeys with an empty key list is treated as not listed",
			"errors returned for these valid requests are reported as violations (class 'error')",
		},
		QuickBudgetS: 100, ThoroughBudgetS: 1300,
		Run: func(c *vlib.Ctx) {
			usePool("")
			qsClassic := queries(c.Thorough())
			usePool("values3")
			qs3 := queries3(c.Thorough())
			usePool("")
			dss := datasets(c.Thorough())
			c.Note("datasets_total", fmt.Sprint(len(dss)))
			c.Note("queries_per_dataset", fmt.Sprint(len(qsClassic)))
			c.Note("queries_per_dataset_of_the_many_values_family", fmt.Sprint(len(qs3)))
			done := 0
			for i, ds := range dss {
				if !c.Mine(int64(i)) {
					continue
				}
				if c.Expired() {
					c.Cap(fmt.Sprintf("wall budget: datasets are visited simplest-first; this shard completed %d of its datasets (all queries for each)", done))
					return
				}
				usePool(ds.Pool)
				qs := qsClassic
				if ds.Pool == "values3" {
					qs = qs3
				}
				md := buildModel(ds)
				f, b, err := load(ds)
				if err != nil {
					c.HarnessError(fmt.Sprintf("dataset %s: %v", describe(ds), err))
					continue
				}
				ids := shardSetsOf(f, b)
				for _, q := range qs {
					v := run(f, b, md, q, ids)
					c.Eval(1)
					if v.nResult > 0 {
						c.NontrivialN(1)
					}
					c.Outcome(fmt.Sprintf("%s/auth=%s/results=%d/empty-group=%v", q.API, q.authKind(), capN(v.nResult, 4), v.emptyGrp))
					if q.Leaf != nil && q.Leaf.positive("") {
						// the dimension "literal matches the empty string": count the queries and those in which a live visible
						// series of a selected measurement LACKS the compared key (its value is "" for the comparison)
						c.Extra("tag_comparison_literal_matches_empty/"+q.Leaf.Op, 1)
						if lacksKey(q, md) {
							c.Extra("tag_comparison_literal_matches_empty_and_visible_series_lacks_key/"+q.Leaf.Op, 1)
						}
					}
					cs := Case{DS: ds, Q: q}
					switch {
					case v.panicked != "":
						fr := v.panicked[strings.LastIndex(v.panicked, "@ ")+2:]
						cs.Sig = sigOf(q, problem{clause: "panic/" + fr})
						c.Violation(cs.Sig, fmt.Sprintf("%s on %s: %s", q, describe(ds), v.panicked), cs)
					case v.err != nil:
						cs.Sig = sigOf(q, problem{clause: "error"})
						c.Violation(cs.Sig, fmt.Sprintf("%s on %s returned error: %v", q, describe(ds), v.err), cs)
					default:
						seen := map[string]bool{}
						for _, p := range v.probs {
							sg := sigOf(q, p)
							if seen[sg] {
								continue
							}
							seen[sg] = true
							cs.Sig = sg
							c.Violation(cs.Sig, fmt.Sprintf("%s on %s: %s", q, describe(ds), p.detail), cs)
						}
					}
					if c.WantSample() && v.nResult >= 2 && q.Auth > 0 && q.Leaf != nil && ds.Del != nil {
						c.Sample(map[string]any{"case": cs, "returned": v.raw})
					}
				}
				f.Close()
				done++
			}
		},
		Replay: func(c *vlib.Ctx, raw json.RawMessage) (bool, string) {
			var cs Case
			if err := json.Unmarshal(raw, &cs); err != nil {
				return false, err.Error()
			}
			usePool(cs.DS.Pool)
			md := buildModel(cs.DS)
			f, b, err := load(cs.DS)
			if err != nil {
				return false, "fixture: " + err.Error()
			}
			defer f.Close()
			v := run(f, b, md, cs.Q, shardSetsOf(f, b))
			var sb strings.Builder
			fmt.Fprintf(&sb, "query: %s\ndataset: %s\n", cs.Q, describe(cs.DS))
			bad := false
			hit := func(p problem) string {
				if cs.Sig == "" || sigOf(cs.Q, p) == cs.Sig {
					bad = true
					return "VIOLATED"
				}
				return "(other class)"
			}
			switch {
			case v.panicked != "":
				fr := v.panicked[strings.LastIndex(v.panicked, "@ ")+2:]
				fmt.Fprintf(&sb, "%s PANIC: %s\n", hit(problem{clause: "panic/" + fr}), v.panicked)
			case v.err != nil:
				fmt.Fprintf(&sb, "%s ERROR: %v\n", hit(problem{clause: "error"}), v.err)
			default:
				fmt.Fprintf(&sb, "returned: %s\n", v.raw)
				for _, p := range v.probs {
					fmt.Fprintf(&sb, "%s %s: %s\n", hit(p), p.clause, p.detail)
				}
			}
			return bad, sb.String()
		},
	})
}

// lacksKey: does some live visible series of a measurement selected by the _name filter lack the compared tag key?
func lacksKey(q Query, md model) bool {
	lv, _ := q.seriesSets(md)
	for _, s := range lv {
		if _, has := pool[s].Tags[q.Leaf.Key]; !has && q.Name.match(pool[s].M) {
			return true
		}
	}
	return false
}

func capN(n, c int) int {
	if n > c {
		return c
	}
	return n
}
