// C40: partial writes store exactly the accepted points.
// Engine: enum (odometer over batches of point kinds) on a real tsdb.Shard (verif/h/shardkit).
// Oracle: the statement transcribed — every point is either always-invalid (time tag, only a `time` field,
// string value > 1 MiB, invalid UTF-8 key with ValidateKeys) or carries field f with one type; the points
// whose f type equals the winning type are accepted, all others are rejected. The winning type is the
// pre-existing type of f, or — when f is new — the f type of ANY typed point of the batch (the statement
// does not say which of two mutually conflicting new points wins, so every choice is allowed). For an
// allowed outcome: Dropped == #rejected, stored data == pre-existing + all non-`time` fields of the
// accepted points, observed twice (raw cache/TSM dump, and the public cursor read path).
package c40

import (
	"encoding/json"
	"fmt"
	"os"
	"sort"
	"strings"
	"testing"

	"verif/h/shardkit"
	"verif/h/vlib"
)

const longLen = 1048576 + 1 // tsdb.MaxFieldValueLength + 1

// kind of a point of the batch. ftype "" = always invalid.
type kindDef struct {
	name   string
	ftype  string // type of field f carried by the point ("" = the point is invalid whatever the schema)
	reason string // why an always-invalid point is invalid
	build  func(m string, pos int) shardkit.PointSpec
}

func val(pos int) int64 { return int64(pos + 1) }
func ts(pos int) int64  { return int64(10 + pos) }

func kinds() []kindDef {
	f := func(t string, pos int) shardkit.FieldSpec {
		return shardkit.FieldSpec{Name: "f", Type: t, Val: val(pos)}
	}
	return []kindDef{
		{"F", "float", "", func(m string, p int) shardkit.PointSpec {
			return shardkit.PointSpec{M: m, Fields: []shardkit.FieldSpec{f("float", p)}, T: ts(p)}
		}},
		{"I", "integer", "", func(m string, p int) shardkit.PointSpec {
			return shardkit.PointSpec{M: m, Fields: []shardkit.FieldSpec{f("integer", p)}, T: ts(p)}
		}},
		// a second, always-float field that sorts before f: a rejected point would create it first
		{"AF", "float", "", func(m string, p int) shardkit.PointSpec {
			return shardkit.PointSpec{M: m, Fields: []shardkit.FieldSpec{{Name: "a", Type: "float", Val: val(p) + 50}, f("float", p)}, T: ts(p)}
		}},
		{"AI", "integer", "", func(m string, p int) shardkit.PointSpec {
			return shardkit.PointSpec{M: m, Fields: []shardkit.FieldSpec{{Name: "a", Type: "float", Val: val(p) + 50}, f("integer", p)}, T: ts(p)}
		}},
		{"TT", "", "time-tag", func(m string, p int) shardkit.PointSpec {
			return shardkit.PointSpec{M: m, Tags: [][2]string{{"time", "x"}}, Fields: []shardkit.FieldSpec{f("float", p)}, T: ts(p)}
		}},
		{"TO", "", "time-field-only", func(m string, p int) shardkit.PointSpec {
			return shardkit.PointSpec{M: m, Fields: []shardkit.FieldSpec{{Name: "time", Type: "float", Val: val(p) + 70}}, T: ts(p)}
		}},
		{"TF", "float", "", func(m string, p int) shardkit.PointSpec {
			return shardkit.PointSpec{M: m, Fields: []shardkit.FieldSpec{f("float", p), {Name: "time", Type: "float", Val: val(p) + 70}}, T: ts(p)}
		}},
		{"TI", "integer", "", func(m string, p int) shardkit.PointSpec {
			return shardkit.PointSpec{M: m, Fields: []shardkit.FieldSpec{f("integer", p), {Name: "time", Type: "float", Val: val(p) + 70}}, T: ts(p)}
		}},
		{"L", "", "too-long", func(m string, p int) shardkit.PointSpec {
			return shardkit.PointSpec{M: m, Fields: []shardkit.FieldSpec{{Name: "s", Type: "string", Val: val(p), Len: longLen}}, T: ts(p)}
		}},
		{"U", "", "invalid-utf8", func(m string, p int) shardkit.PointSpec {
			return shardkit.PointSpec{M: m, Tags: [][2]string{{"t", "\xff"}}, Fields: []shardkit.FieldSpec{f("float", p)}, T: ts(p)}
		}},
		// thorough only
		{"S", "string", "", func(m string, p int) shardkit.PointSpec {
			return shardkit.PointSpec{M: m, Fields: []shardkit.FieldSpec{f("string", p)}, T: ts(p)}
		}},
		{"B", "boolean", "", func(m string, p int) shardkit.PointSpec {
			return shardkit.PointSpec{M: m, Fields: []shardkit.FieldSpec{f("boolean", p)}, T: ts(p)}
		}},
	}
}

var kindByName = func() map[string]kindDef {
	m := map[string]kindDef{}
	for _, k := range kinds() {
		m[k.name] = k
	}
	return m
}()

// Case is one enumerated input.
type Case struct {
	Schema string   `json:"schema"` // "" (empty shard) or the type f already has
	Batch  []string `json:"batch"`  // point kinds, in batch order
}

func (cs Case) String() string {
	s := cs.Schema
	if s == "" {
		s = "empty"
	}
	return "schema=" + s + " batch=[" + strings.Join(cs.Batch, " ") + "]"
}

func prePoint(m, schema string) shardkit.PointSpec {
	p := shardkit.PointSpec{M: m, T: 1}
	p.Fields = []shardkit.FieldSpec{{Name: "f", Type: schema, Val: 7}}
	return p
}

// outcome allowed by the statement.
type outcome struct {
	winner   string // winning type of f ("" when no typed point and empty schema)
	accepted []bool
	rejected int
	store    map[string][]shardkit.Val // composite key → values
}

func allowed(m string, cs Case) []outcome {
	var cands []string
	if cs.Schema != "" {
		cands = []string{cs.Schema}
	} else {
		seen := map[string]bool{}
		for _, k := range cs.Batch { // batch order: the first candidate is "first point wins"
			if t := kindByName[k].ftype; t != "" && !seen[t] {
				seen[t] = true
				cands = append(cands, t)
			}
		}
		if len(cands) == 0 {
			cands = []string{""}
		}
	}
	var out []outcome
	for _, w := range cands {
		o := outcome{winner: w, accepted: make([]bool, len(cs.Batch)), store: map[string][]shardkit.Val{}}
		add := func(p shardkit.PointSpec) {
			for _, f := range p.Fields {
				if f.Name == "time" {
					continue
				}
				k := shardkit.CompositeKey(p.SeriesKey(), f.Name)
				o.store[k] = append(o.store[k], shardkit.Val{T: p.T, V: f.Rendered()})
			}
		}
		if cs.Schema != "" {
			add(prePoint(m, cs.Schema))
		}
		for i, k := range cs.Batch {
			kd := kindByName[k]
			if kd.ftype != "" && kd.ftype == w {
				o.accepted[i] = true
				add(kd.build(m, i))
			} else {
				o.rejected++
			}
		}
		for k := range o.store {
			shardkit.SortVals(o.store[k])
		}
		out = append(out, o)
	}
	return out
}

// observation of the real shard.
type observed struct {
	err     string
	isPWE   bool
	dropped int
	raw     map[string][]shardkit.Val
	reads   map[string][]shardkit.Val // composite key → values through the cursor API
	harness string                    // fixture problem (not a verdict)
}

var universeSeries = [][][2]string{nil, {{"time", "x"}}, {{"t", "\xff"}}}
var universeFields = []string{"a", "f", "s", "time"}

// runFresh executes the case on a fresh shard, measurement "m".
func runFresh(cs Case) (ob observed) {
	dir := vlib.Scratch("c40-")
	defer os.RemoveAll(dir)
	fx, err := shardkit.Open(dir, shardkit.Options{ValidateKeys: true})
	if err != nil {
		ob.harness = "open: " + err.Error()
		return
	}
	defer fx.Close()
	return runOn(fx, "m", cs)
}

// runOn executes the case on measurement m of an open shard (m must be unused so far: the schema and the
// data of a measurement are independent of every other measurement's).
func runOn(fx *shardkit.Fixture, m string, cs Case) (ob observed) {
	if cs.Schema != "" {
		pts, err := shardkit.Points([]shardkit.PointSpec{prePoint(m, cs.Schema)})
		if err != nil {
			ob.harness = "pre point: " + err.Error()
			return
		}
		if err := fx.Write(pts); err != nil {
			ob.harness = "pre write: " + err.Error()
			return
		}
	}
	var specs []shardkit.PointSpec
	for i, k := range cs.Batch {
		specs = append(specs, kindByName[k].build(m, i))
	}
	pts, err := shardkit.Points(specs)
	if err != nil {
		ob.harness = "points: " + err.Error()
		return
	}
	werr := fx.Write(pts)
	if werr != nil {
		ob.err = werr.Error()
		if len(ob.err) > 200 {
			ob.err = ob.err[:200] + "…"
		}
		ob.dropped, ob.isPWE = shardkit.Dropped(werr)
	}
	all, err := fx.DumpRaw()
	if err != nil {
		ob.harness = "dump: " + err.Error()
		return
	}
	ob.raw = map[string][]shardkit.Val{}
	for k, v := range all {
		if strings.HasPrefix(k, m+",") || strings.HasPrefix(k, m+"#!~#") {
			ob.raw[k] = v
		}
	}
	ob.reads = map[string][]shardkit.Val{}
	for _, tags := range universeSeries {
		for _, fld := range universeFields {
			vs, _, err := fx.ReadField(m, tags, fld)
			if err != nil {
				ob.harness = "read: " + err.Error()
				return
			}
			if len(vs) > 0 {
				sk := shardkit.PointSpec{M: m, Tags: tags}.SeriesKey()
				ob.reads[shardkit.CompositeKey(sk, fld)] = vs
			}
		}
	}
	return
}

// mismatch is one disagreement with an allowed outcome.
type mismatch struct{ sig, msg string }

func keyField(k string) string {
	if i := strings.LastIndex(k, "#!~#"); i >= 0 {
		return k[i+4:]
	}
	return k
}

func diffStore(cs Case, o outcome, got map[string][]shardkit.Val, via string) []mismatch {
	var out []mismatch
	keys := map[string]bool{}
	for k := range o.store {
		keys[k] = true
	}
	for k := range got {
		keys[k] = true
	}
	var ks []string
	for k := range keys {
		ks = append(ks, k)
	}
	sort.Strings(ks)
	owner := func(t int64) (string, bool, bool) { // kind, accepted, isBatchPoint
		i := int(t - 10)
		if i >= 0 && i < len(cs.Batch) {
			return cs.Batch[i], o.accepted[i], true
		}
		return "pre-existing", true, false
	}
	for _, k := range ks {
		want := map[shardkit.Val]int{}
		for _, v := range o.store[k] {
			want[v]++
		}
		for _, v := range got[k] {
			if want[v] > 0 {
				want[v]--
				continue
			}
			kind, acc, inBatch := owner(v.T)
			switch {
			case inBatch && !acc:
				out = append(out, mismatch{vlib.JoinSig("rejected-point-stored", via, "reason="+reasonOf(kind)), fmt.Sprintf("%s: %q holds %d=%s of rejected point #%d (%s)", via, k, v.T, v.V, v.T-10, kind)})
			case inBatch && keyField(k) == "time":
				out = append(out, mismatch{vlib.JoinSig("time-field-stored", via), fmt.Sprintf("%s: %q holds %d=%s: the `time` field of accepted point #%d (%s) was not stripped", via, k, v.T, v.V, v.T-10, kind)})
			default:
				out = append(out, mismatch{vlib.JoinSig("unexpected-value", via), fmt.Sprintf("%s: %q holds unexpected %d=%s", via, k, v.T, v.V)})
			}
		}
		for v, n := range want {
			if n > 0 {
				kind, _, _ := owner(v.T)
				out = append(out, mismatch{vlib.JoinSig("accepted-point-missing", via), fmt.Sprintf("%s: %q lacks %d=%s of accepted point (%s)", via, k, v.T, v.V, kind)})
			}
		}
	}
	sort.Slice(out, func(i, j int) bool { return out[i].sig+out[i].msg < out[j].sig+out[j].msg })
	return out
}

func reasonOf(kind string) string {
	if r := kindByName[kind].reason; r != "" {
		return r
	}
	return "type-conflict"
}

func reasons(cs Case, o outcome) string {
	set := map[string]bool{}
	for i, k := range cs.Batch {
		if !o.accepted[i] {
			r := kindByName[k].reason
			if r == "" {
				r = "type-conflict"
			}
			set[r] = true
		}
	}
	var l []string
	for r := range set {
		l = append(l, r)
	}
	sort.Strings(l)
	return strings.Join(l, "+")
}

func judgeOutcome(cs Case, o outcome, ob observed) []mismatch {
	var out []mismatch
	switch {
	case ob.err == "":
		if o.rejected != 0 {
			out = append(out, mismatch{vlib.JoinSig("dropped-count", "no-error"), fmt.Sprintf("WritePoints returned nil but %d point(s) must be rejected", o.rejected)})
		}
	case !ob.isPWE:
		out = append(out, mismatch{vlib.JoinSig("unexpected-error"), "WritePoints returned a non-partial-write error: " + ob.err})
	case ob.dropped != o.rejected:
		dir := "under"
		if ob.dropped > o.rejected {
			dir = "over"
		}
		out = append(out, mismatch{vlib.JoinSig("dropped-count", dir), fmt.Sprintf("PartialWriteError.Dropped=%d but %d point(s) are rejected (%s)", ob.dropped, o.rejected, reasons(cs, o))})
	}
	out = append(out, diffStore(cs, o, ob.raw, "raw")...)
	out = append(out, diffStore(cs, o, ob.reads, "cursor")...)
	return out
}

// judge returns the mismatches against the best allowed outcome (none = the case passes) and the index
// of the outcome that matched (or 0).
func judge(m string, cs Case, ob observed) ([]mismatch, int) {
	outs := allowed(m, cs)
	var first []mismatch
	for i, o := range outs {
		mm := judgeOutcome(cs, o, ob)
		if len(mm) == 0 {
			return nil, i
		}
		if i == 0 {
			first = mm
		}
	}
	return first, 0
}

func obsString(cs Case, ob observed) string {
	return fmt.Sprintf("%s → err=%q dropped=%d raw={%s} cursor={%s}", cs, ob.err, ob.dropped, shardkit.RawString(ob.raw), shardkit.RawString(ob.reads))
}

func batches(ks []string, maxLen int, fn func([]string)) {
	for n := 1; n <= maxLen; n++ {
		idx := make([]int, n)
		for {
			b := make([]string, n)
			for i, x := range idx {
				b[i] = ks[x]
			}
			fn(b)
			i := n - 1
			for ; i >= 0; i-- {
				idx[i]++
				if idx[i] < len(ks) {
					break
				}
				idx[i] = 0
			}
			if i < 0 {
				break
			}
		}
	}
}

func TestCheck(t *testing.T) {
	vlib.Main(t, &vlib.Check{
		ID: "C40", Level: "exploration",
		Rule: "every batch of 1..3 points, in every order, over the point kinds {F: f float; I: f integer; AF/AI: extra new float field a + f float/integer; TT: tag named time; TO: only a field named time; TF/TI: field time + f float/integer; L: string field s of 1 MiB+1; U: invalid UTF-8 tag value (ValidateKeys on)} [thorough: + S: f string, B: f boolean] × pre-existing schema of measurement m ∈ {empty, f:float, f:integer} [thorough: + f:string], each on a fresh real tsdb.Shard (tsm1+tsi1+series file, WAL on); one Shard.WritePoints per case; observed: returned error/PartialWriteError.Dropped, raw dump of all stored keys/values, cursor reads of every (series, field) of the universe. non-trivial = batches with at least one rejected and one accepted point under the first-point-wins outcome (distinct by construction)",
		Assumptions: []string{
			"when two points of one batch give a NEW field different types the statement does not say which is rejected: any single winning type is accepted",
			"a `time` field of an otherwise valid point is not part of the accepted point (error text: 'has been stripped from point'); a nil error or a PartialWriteError with Dropped=0 are both accepted for such a batch",
			"field schema side effects of rejected points (a new field registered by a point that is then dropped) are not judged: only stored data",
		},
		QuickBudgetS: 60, ThoroughBudgetS: 800,
		Run: func(c *vlib.Ctx) {
			ks := []string{"F", "I", "AF", "AI", "TT", "TO", "TF", "TI", "L", "U"}
			schemas := []string{"", "float", "integer"}
			if c.Thorough() {
				ks = append(ks, "S", "B")
				schemas = append(schemas, "string")
			}
			// One shard serves up to `recycle` cases, each on its own fresh measurement; a case that fails there
			// is re-executed on a fresh shard and only that verdict is reported.
			const recycle = 150
			var fx *shardkit.Fixture
			var fxDir string
			used := 0
			confirmed := map[string]bool{}
			closeFx := func() {
				if fx != nil {
					fx.Close()
					os.RemoveAll(fxDir)
					fx = nil
				}
			}
			defer closeFx()
			var idx int64
			batches(ks, 3, func(b []string) {
				for _, sch := range schemas {
					idx++
					if !c.Mine(idx) {
						continue
					}
					if c.Expired() {
						c.Cap("budget expired; batches are enumerated shortest first")
						return
					}
					cs := Case{Schema: sch, Batch: append([]string(nil), b...)}
					if fx == nil || used >= recycle {
						closeFx()
						fxDir = vlib.Scratch("c40-")
						var err error
						if fx, err = shardkit.Open(fxDir, shardkit.Options{ValidateKeys: true}); err != nil {
							os.RemoveAll(fxDir)
							fx = nil
							c.HarnessError("open: " + err.Error())
							return
						}
						used = 0
					}
					used++
					m := fmt.Sprintf("m%d", idx)
					var ob observed
					panicked, pdesc := vlib.Guard(func() { ob = runOn(fx, m, cs) })
					var mm []mismatch
					which := 0
					if !panicked && ob.harness == "" {
						mm, which = judge(m, cs, ob)
					}
					needFresh := panicked || ob.harness != ""
					for _, x := range mm {
						if !confirmed[x.sig] {
							needFresh = true
						}
					}
					if needFresh {
						// confirm on a fresh shard (once per violation class; later cases of a confirmed class
						// are reported from the shared shard)
						closeFx()
						m = "m"
						panicked, pdesc = vlib.Guard(func() { ob = runFresh(cs) })
						if panicked {
							c.Eval(1)
							c.Outcome("panic")
							c.Violation(vlib.JoinSig("panic", strings.TrimSpace(pdesc[strings.LastIndex(pdesc, "@")+1:])), cs.String()+": "+pdesc, cs)
							continue
						}
						if ob.harness != "" {
							c.HarnessError(cs.String() + ": " + ob.harness)
							continue
						}
						mm, which = judge(m, cs, ob)
						if len(mm) == 0 {
							c.HarnessError(cs.String() + ": failed on the shared shard but passes on a fresh one")
						}
						for _, x := range mm {
							confirmed[x.sig] = true
						}
					}
					c.Eval(1)
					o0 := allowed(m, cs)[0]
					if o0.rejected > 0 && o0.rejected < len(cs.Batch) {
						c.NontrivialN(1)
					}
					oc := fmt.Sprintf("accepted=%d,rejected=%d", len(cs.Batch)-ob.dropped, ob.dropped)
					switch {
					case ob.err == "":
						oc += ",err=nil"
					case ob.isPWE:
						oc += ",err=partial-write"
					default:
						oc += ",err=other"
					}
					if len(mm) == 0 && which > 0 {
						oc += ",later-point-won"
					}
					c.Outcome(oc)
					for _, x := range mm {
						c.Violation(x.sig, cs.String()+": "+x.msg+" | "+obsString(cs, ob), cs)
					}
					if c.WantSample() && o0.rejected > 0 && o0.rejected < len(cs.Batch) {
						c.Sample(map[string]any{"case": cs, "dropped": ob.dropped, "error": ob.err, "stored": shardkit.RawString(ob.raw)})
					}
				}
			})
		},
		Replay: func(c *vlib.Ctx, raw json.RawMessage) (bool, string) {
			var cs Case
			if err := json.Unmarshal(raw, &cs); err != nil {
				return false, err.Error()
			}
			var ob observed
			if p, d := vlib.Guard(func() { ob = runFresh(cs) }); p {
				return true, d
			}
			if ob.harness != "" {
				return false, "harness: " + ob.harness
			}
			mm, _ := judge("m", cs, ob)
			var msgs []string
			for _, m := range mm {
				msgs = append(msgs, m.sig+": "+m.msg)
			}
			return len(mm) > 0, obsString(cs, ob) + "\n" + strings.Join(msgs, "\n")
		},
	})
}
