// C40: partial writes store exactly the accepted points.
// Engine: enum (odometer over batches of point kinds) on a real tsdb.Shard (verif/h/shardkit).
// Oracle: the statement transcribed — every point is either always-invalid (time tag, only a `time` field,
// string value > 1 MiB, invalid UTF-8 key with ValidateKeys) or carries field f with one type; the points
// whose f type equals the winning type are accepted, all others are rejected. The winning type is the
// pre-existing type of f, or — when f is new — the f type of ANY typed point of the batch (the statement
// does not say which of two mutually conflicting new points wins, so every choice is allowed). For an
// allowed outcome: Dropped == #rejected, stored data == pre-existing + all non-`time` fields of the
// accepted points, observed twice (raw cache/TSM dump, and the public cursor read path).
//
// Second family ("combo"): every point kind combines TWO components in ONE point — tag `time`, field `time`, a
// typed subject field, a string field > 1 MiB, a never-conflicting new float field — with the other field's name
// sorting before AND after "time" (fields are validated in key order, so which defect is met first differs):
// subject f < time < value, long l < time < z, new g < time < u. The same statement is transcribed for points with
// several fields (allowedCombo): a point is rejected iff it has a `time` tag, no field but `time`, a too-long
// string, or a subject field whose type differs from the winning type of that field name.
package c40

import (
	"encoding/json"
	"fmt"
	"os"
	"sort"
	"strings"
	"testing"
	"time"

	"github.com/influxdata/influxdb/v2/models"
	"verif/h/shardkit"
	"verif/h/vlib"
)

const longLen = 1048576 + 1 // tsdb.MaxFieldValueLength + 1

// kind of a point of the batch. ftype "" = always invalid.
type kindDef struct {
	name   string
	ftype  string // type of field f carried by the point ("" = the point is invalid whatever the schema)
	reason string // why an always-invalid point is invalid
	build  func(m string, pos int) shardkit.PointSpec
}

func val(pos int) int64 { return int64(pos + 1) }
func ts(pos int) int64  { return int64(10 + pos) }

func kinds() []kindDef {
	f := func(t string, pos int) shardkit.FieldSpec {
		return shardkit.FieldSpec{Name: "f", Type: t, Val: val(pos)}
	}
	return []kindDef{
		{"F", "float", "", func(m string, p int) shardkit.PointSpec {
			return shardkit.PointSpec{M: m, Fields: []shardkit.FieldSpec{f("float", p)}, T: ts(p)}
		}},
		{"I", "integer", "", func(m string, p int) shardkit.PointSpec {
			return shardkit.PointSpec{M: m, Fields: []shardkit.FieldSpec{f("integer", p)}, T: ts(p)}
		}},
		// a second, always-float field that sorts before f: a rejected point would create it first
		{"AF", "float", "", func(m string, p int) shardkit.PointSpec {
			return shardkit.PointSpec{M: m, Fields: []shardkit.FieldSpec{{Name: "a", Type: "float", Val: val(p) + 50}, f("float", p)}, T: ts(p)}
		}},
		{"AI", "integer", "", func(m string, p int) shardkit.PointSpec {
			return shardkit.PointSpec{M: m, Fields: []shardkit.FieldSpec{{Name: "a", Type: "float", Val: val(p) + 50}, f("integer", p)}, T: ts(p)}
		}},
		{"TT", "", "time-tag", func(m string, p int) shardkit.PointSpec {
			return shardkit.PointSpec{M: m, Tags: [][2]string{{"time", "x"}}, Fields: []shardkit.FieldSpec{f("float", p)}, T: ts(p)}
		}},
		{"TO", "", "time-field-only", func(m string, p int) shardkit.PointSpec {
			return shardkit.PointSpec{M: m, Fields: []shardkit.FieldSpec{{Name: "time", Type: "float", Val: val(p) + 70}}, T: ts(p)}
		}},
		{"TF", "float", "", func(m string, p int) shardkit.PointSpec {
			return shardkit.PointSpec{M: m, Fields: []shardkit.FieldSpec{f("float", p), {Name: "time", Type: "float", Val: val(p) + 70}}, T: ts(p)}
		}},
		{"TI", "integer", "", func(m string, p int) shardkit.PointSpec {
			return shardkit.PointSpec{M: m, Fields: []shardkit.FieldSpec{f("integer", p), {Name: "time", Type: "float", Val: val(p) + 70}}, T: ts(p)}
		}},
		{"L", "", "too-long", func(m string, p int) shardkit.PointSpec {
			return shardkit.PointSpec{M: m, Fields: []shardkit.FieldSpec{{Name: "s", Type: "string", Val: val(p), Len: longLen}}, T: ts(p)}
		}},
		{"U", "", "invalid-utf8", func(m string, p int) shardkit.PointSpec {
			return shardkit.PointSpec{M: m, Tags: [][2]string{{"t", "\xff"}}, Fields: []shardkit.FieldSpec{f("float", p)}, T: ts(p)}
		}},
		// thorough only
		{"S", "string", "", func(m string, p int) shardkit.PointSpec {
			return shardkit.PointSpec{M: m, Fields: []shardkit.FieldSpec{f("string", p)}, T: ts(p)}
		}},
		{"B", "boolean", "", func(m string, p int) shardkit.PointSpec {
			return shardkit.PointSpec{M: m, Fields: []shardkit.FieldSpec{f("boolean", p)}, T: ts(p)}
		}},
	}
}

var kindByName = func() map[string]kindDef {
	m := map[string]kindDef{}
	for _, k := range kinds() {
		m[k.name] = k
	}
	return m
}()

// Case is one enumerated input.
type Case struct {
	Fam    string   `json:"fam,omitempty"` // "" = single-defect kinds (kinds()), "combo" = two components per point (combos())
	Schema string   `json:"schema"`        // "" (empty shard) or the type f (combo: f and value) already has
	Batch  []string `json:"batch"`         // point kinds, in batch order
}

const famCombo = "combo"

func (cs Case) String() string {
	s := cs.Schema
	if s == "" {
		s = "empty"
	}
	if cs.Fam != "" {
		s += " family=" + cs.Fam
	}
	return "schema=" + s + " batch=[" + strings.Join(cs.Batch, " ") + "]"
}

func prePoint(m, schema string) shardkit.PointSpec {
	p := shardkit.PointSpec{M: m, T: 1}
	p.Fields = []shardkit.FieldSpec{{Name: "f", Type: schema, Val: 7}}
	return p
}

// ---------- combo family ----------

// comboDef is a point made of components. Field names: subject f < "time" < value, long l < "time" < z,
// new g < "time" < u.
type comboDef struct {
	name      string
	timeTag   bool   // tag time=x
	timeField bool   // field named time (float)
	subj      string // subject field name ("" = none), pre-existing with the schema type when the schema is not empty
	subjType  string
	long      string // name of a string field of 1 MiB + 1 ("" = none)
	newf      string // name of a float field no other kind gives another type ("" = none)
}

func (d comboDef) build(m string, p int) shardkit.PointSpec {
	ps := shardkit.PointSpec{M: m, T: ts(p)}
	if d.timeTag {
		ps.Tags = [][2]string{{"time", "x"}}
	}
	if d.subj != "" {
		ps.Fields = append(ps.Fields, shardkit.FieldSpec{Name: d.subj, Type: d.subjType, Val: val(p)})
	}
	if d.newf != "" {
		ps.Fields = append(ps.Fields, shardkit.FieldSpec{Name: d.newf, Type: "float", Val: val(p) + 50})
	}
	if d.long != "" {
		ps.Fields = append(ps.Fields, shardkit.FieldSpec{Name: d.long, Type: "string", Val: val(p), Len: longLen})
	}
	if d.timeField {
		ps.Fields = append(ps.Fields, shardkit.FieldSpec{Name: "time", Type: "float", Val: val(p) + 70})
	}
	return ps
}

var (
	subjNames = []string{"f", "value"}
	longNames = []string{"l", "z"}
	newNames  = []string{"g", "u"}
)

// combos lists the combo kinds: the plain typed points X(..) and every pairing of two components. extra adds the
// pairings without a defect of their own (subject + new field, long + new field), triples around the time field,
// and — with moreTypes — string / boolean subject fields.
func combos(extra, moreTypes bool) []comboDef {
	all := combosAll(extra, moreTypes)
	if extra {
		return all
	}
	// base list: the points with a 1 MiB string are by far the most expensive, so of the kinds that differ only in
	// an aspect that cannot matter for them one representative is kept: subject + too-long only with the integer
	// subject (it conflicts with schema float, not with integer / empty), and tag time + too-long only with z (a
	// point with a time tag is dropped before its fields are looked at). The extended list has them all.
	var out []comboDef
	for _, d := range all {
		if d.long != "" && ((d.subj != "" && d.subjType != "integer") || (d.timeTag && d.long != "z")) {
			continue
		}
		out = append(out, d)
	}
	return out
}

func combosAll(extra, moreTypes bool) []comboDef {
	types := []string{"float", "integer"}
	if moreTypes {
		types = append(types, "string", "boolean")
	}
	var subjects []comboDef
	for _, n := range subjNames {
		for _, t := range types {
			subjects = append(subjects, comboDef{name: "X(" + n + ":" + t + ")", subj: n, subjType: t})
		}
	}
	out := append([]comboDef{}, subjects...)
	with := func(d comboDef, prefix string, f func(*comboDef)) comboDef {
		f(&d)
		if d.name == "" {
			d.name = prefix
		} else {
			d.name = prefix + "+" + d.name
		}
		return d
	}
	var longs, news []comboDef
	for _, n := range longNames {
		longs = append(longs, comboDef{name: "L(" + n + ")", long: n})
	}
	for _, n := range newNames {
		news = append(news, comboDef{name: "N(" + n + ")", newf: n})
	}
	var second []comboDef // everything a time field / time tag is paired with
	second = append(second, subjects...)
	second = append(second, longs...)
	second = append(second, news...)
	tf := func(d *comboDef) { d.timeField = true }
	tt := func(d *comboDef) { d.timeTag = true }
	for _, d := range second { // time field + {conflicting-or-valid subject, too-long, new valid field}
		out = append(out, with(d, "TF", tf))
	}
	for _, x := range subjects { // type conflict + too-long
		for _, l := range longNames {
			d := x
			d.long, d.name = l, x.name+"+L("+l+")"
			out = append(out, d)
		}
	}
	out = append(out, with(comboDef{}, "TT+TF", func(d *comboDef) { d.timeTag, d.timeField = true, true })) // time tag + anything
	for _, d := range second {
		out = append(out, with(d, "TT", tt))
	}
	if extra {
		for _, x := range subjects {
			for _, n := range newNames {
				d := x
				d.newf, d.name = n, x.name+"+N("+n+")"
				out = append(out, d)
			}
		}
		for _, l := range longNames {
			for _, n := range newNames {
				out = append(out, comboDef{name: "L(" + l + ")+N(" + n + ")", long: l, newf: n})
			}
		}
		for _, x := range subjects {
			for _, l := range longNames {
				d := x
				d.long, d.name = l, x.name+"+L("+l+")"
				out = append(out, with(d, "TF", tf))
			}
		}
	}
	return out
}

var comboByName = func() map[string]comboDef {
	m := map[string]comboDef{}
	for _, d := range combosAll(true, true) {
		if _, dup := m[d.name]; dup {
			panic("duplicate combo kind " + d.name)
		}
		m[d.name] = d
	}
	return m
}()

func comboNames(ds []comboDef) []string {
	var l []string
	for _, d := range ds {
		l = append(l, d.name)
	}
	return l
}

func prePointCombo(m, schema string) shardkit.PointSpec {
	p := shardkit.PointSpec{M: m, T: 1}
	for i, n := range subjNames {
		p.Fields = append(p.Fields, shardkit.FieldSpec{Name: n, Type: schema, Val: int64(7 + i)})
	}
	return p
}

// allowedCombo transcribes the statement for points with several fields. A point is rejected iff it has a tag
// named time, no field besides `time`, a string field > 1 MiB, or a subject field whose type is not the winning
// type of that field name. The winning type of a subject name is its pre-existing type or — when the name is new —
// the type ANY point of the batch without a time tag gives it (the statement does not say which of two mutually
// conflicting points wins, nor whether a point rejected for another defect may already have fixed the type of a
// new field: every choice is allowed). The first outcome is "first point wins" for every name.
func allowedCombo(m string, cs Case) []outcome {
	cands := make([][]string, len(subjNames))
	for ni, n := range subjNames {
		if cs.Schema != "" {
			cands[ni] = []string{cs.Schema}
			continue
		}
		seen := map[string]bool{}
		for _, k := range cs.Batch {
			d := comboByName[k]
			if d.subj == n && !d.timeTag && !seen[d.subjType] {
				seen[d.subjType] = true
				cands[ni] = append(cands[ni], d.subjType)
			}
		}
		if len(cands[ni]) == 0 {
			cands[ni] = []string{""}
		}
	}
	var out []outcome
	for _, w0 := range cands[0] {
		for _, w1 := range cands[1] {
			win := map[string]string{subjNames[0]: w0, subjNames[1]: w1}
			o := outcome{winner: subjNames[0] + "=" + w0 + "," + subjNames[1] + "=" + w1, accepted: make([]bool, len(cs.Batch)), why: make([]string, len(cs.Batch)), store: map[string][]shardkit.Val{}}
			add := func(p shardkit.PointSpec) {
				for _, f := range p.Fields {
					if f.Name == "time" {
						continue
					}
					k := shardkit.CompositeKey(p.SeriesKey(), f.Name)
					o.store[k] = append(o.store[k], shardkit.Val{T: p.T, V: f.Rendered()})
				}
			}
			if cs.Schema != "" {
				add(prePointCombo(m, cs.Schema))
			}
			for i, k := range cs.Batch {
				d := comboByName[k]
				var why []string
				rejected := false
				if d.timeTag {
					why, rejected = append(why, "time-tag"), true
				}
				if d.timeField {
					if d.subj == "" && d.long == "" && d.newf == "" {
						why, rejected = append(why, "time-field-only"), true
					} else {
						why = append(why, "time-field")
					}
				}
				if d.long != "" {
					why, rejected = append(why, "too-long"), true
				}
				if d.subj != "" && d.subjType != win[d.subj] {
					why, rejected = append(why, "type-conflict"), true
				}
				if rejected {
					o.rejected++
					o.why[i] = strings.Join(why, "+")
				} else {
					o.accepted[i] = true
					add(d.build(m, i))
				}
			}
			for k := range o.store {
				shardkit.SortVals(o.store[k])
			}
			out = append(out, o)
		}
	}
	return out
}

// buildPoint / prePointOf / universe select the family's definitions.
func buildPoint(cs Case, i int, m string) shardkit.PointSpec {
	if cs.Fam == famCombo {
		return comboByName[cs.Batch[i]].build(m, i)
	}
	return kindByName[cs.Batch[i]].build(m, i)
}

func prePointOf(m string, cs Case) shardkit.PointSpec {
	if cs.Fam == famCombo {
		return prePointCombo(m, cs.Schema)
	}
	return prePoint(m, cs.Schema)
}

func universe(cs Case) ([][][2]string, []string) {
	if cs.Fam == famCombo {
		return universeSeriesCombo, universeFieldsCombo
	}
	return universeSeries, universeFields
}

func knownKinds(cs Case) error {
	for _, k := range cs.Batch {
		_, ok := kindByName[k]
		if cs.Fam == famCombo {
			_, ok = comboByName[k]
		}
		if !ok {
			return fmt.Errorf("unknown point kind %q of family %q", k, cs.Fam)
		}
	}
	return nil
}

// outcome allowed by the statement.
type outcome struct {
	winner   string // winning type of f ("" when no typed point and empty schema)
	accepted []bool
	rejected int
	why      []string                  // combo family: per rejected point, the reasons ("" = accepted); nil for the first family
	store    map[string][]shardkit.Val // composite key → values
}

func allowed(m string, cs Case) []outcome {
	if cs.Fam == famCombo {
		return allowedCombo(m, cs)
	}
	var cands []string
	if cs.Schema != "" {
		cands = []string{cs.Schema}
	} else {
		seen := map[string]bool{}
		for _, k := range cs.Batch { // batch order: the first candidate is "first point wins"
			if t := kindByName[k].ftype; t != "" && !seen[t] {
				seen[t] = true
				cands = append(cands, t)
			}
		}
		if len(cands) == 0 {
			cands = []string{""}
		}
	}
	var out []outcome
	for _, w := range cands {
		o := outcome{winner: w, accepted: make([]bool, len(cs.Batch)), store: map[string][]shardkit.Val{}}
		add := func(p shardkit.PointSpec) {
			for _, f := range p.Fields {
				if f.Name == "time" {
					continue
				}
				k := shardkit.CompositeKey(p.SeriesKey(), f.Name)
				o.store[k] = append(o.store[k], shardkit.Val{T: p.T, V: f.Rendered()})
			}
		}
		if cs.Schema != "" {
			add(prePoint(m, cs.Schema))
		}
		for i, k := range cs.Batch {
			kd := kindByName[k]
			if kd.ftype != "" && kd.ftype == w {
				o.accepted[i] = true
				add(kd.build(m, i))
			} else {
				o.rejected++
			}
		}
		for k := range o.store {
			shardkit.SortVals(o.store[k])
		}
		out = append(out, o)
	}
	return out
}

// buildPoints is shardkit.Points with the 1 MiB strings taken from a cache (same values as FieldSpec.GoValue:
// building them anew for every point dominated the run time).
var longStrings = map[[2]int64]string{}

func buildPoints(specs []shardkit.PointSpec) ([]models.Point, error) {
	out := make([]models.Point, 0, len(specs))
	for _, p := range specs {
		tags := models.Tags{}
		for _, kv := range p.Tags {
			tags = append(tags, models.NewTag([]byte(kv[0]), []byte(kv[1])))
		}
		sort.Sort(tags)
		fields := models.Fields{}
		for _, f := range p.Fields {
			if f.Type == "string" && f.Len > 0 {
				key := [2]int64{f.Val % 26, int64(f.Len)}
				v, ok := longStrings[key]
				if !ok {
					v = f.GoValue().(string)
					longStrings[key] = v
				}
				fields[f.Name] = v
				continue
			}
			fields[f.Name] = f.GoValue()
		}
		pt, err := models.NewPoint(p.M, tags, fields, time.Unix(0, p.T))
		if err != nil {
			return nil, err
		}
		out = append(out, pt)
	}
	return out, nil
}

// observation of the real shard.
type observed struct {
	err     string
	isPWE   bool
	dropped int
	raw     map[string][]shardkit.Val
	reads   map[string][]shardkit.Val // composite key → values through the cursor API
	harness string                    // fixture problem (not a verdict)
}

var universeSeries = [][][2]string{nil, {{"time", "x"}}, {{"t", "\xff"}}}
var universeFields = []string{"a", "f", "s", "time"}
var universeSeriesCombo = [][][2]string{nil, {{"time", "x"}}}
var universeFieldsCombo = []string{"f", "g", "l", "time", "u", "value", "z"}

// runFresh executes the case on a fresh shard, measurement "m".
func runFresh(cs Case) (ob observed) {
	dir := vlib.Scratch("c40-")
	defer os.RemoveAll(dir)
	fx, err := shardkit.Open(dir, shardkit.Options{ValidateKeys: true})
	if err != nil {
		ob.harness = "open: " + err.Error()
		return
	}
	defer fx.Close()
	return runOn(fx, "m", cs)
}

// runOn executes the case on measurement m of an open shard (m must be unused so far: the schema and the
// data of a measurement are independent of every other measurement's).
func runOn(fx *shardkit.Fixture, m string, cs Case) (ob observed) {
	if err := knownKinds(cs); err != nil {
		ob.harness = err.Error()
		return
	}
	if cs.Schema != "" {
		pts, err := shardkit.Points([]shardkit.PointSpec{prePointOf(m, cs)})
		if err != nil {
			ob.harness = "pre point: " + err.Error()
			return
		}
		if err := fx.Write(pts); err != nil {
			ob.harness = "pre write: " + err.Error()
			return
		}
	}
	var specs []shardkit.PointSpec
	for i := range cs.Batch {
		specs = append(specs, buildPoint(cs, i, m))
	}
	pts, err := buildPoints(specs)
	if err != nil {
		ob.harness = "points: " + err.Error()
		return
	}
	werr := fx.Write(pts)
	if werr != nil {
		ob.err = werr.Error()
		if len(ob.err) > 200 {
			ob.err = ob.err[:200] + "…"
		}
		ob.dropped, ob.isPWE = shardkit.Dropped(werr)
	}
	all, err := fx.DumpRaw()
	if err != nil {
		ob.harness = "dump: " + err.Error()
		return
	}
	ob.raw = map[string][]shardkit.Val{}
	for k, v := range all {
		if strings.HasPrefix(k, m+",") || strings.HasPrefix(k, m+"#!~#") {
			ob.raw[k] = v
		}
	}
	ob.reads = map[string][]shardkit.Val{}
	uSeries, uFields := universe(cs)
	for _, tags := range uSeries {
		for _, fld := range uFields {
			vs, _, err := fx.ReadField(m, tags, fld)
			if err != nil {
				ob.harness = "read: " + err.Error()
				return
			}
			if len(vs) > 0 {
				sk := shardkit.PointSpec{M: m, Tags: tags}.SeriesKey()
				ob.reads[shardkit.CompositeKey(sk, fld)] = vs
			}
		}
	}
	return
}

// mismatch is one disagreement with an allowed outcome.
type mismatch struct{ sig, msg string }

func keyField(k string) string {
	if i := strings.LastIndex(k, "#!~#"); i >= 0 {
		return k[i+4:]
	}
	return k
}

func diffStore(cs Case, o outcome, got map[string][]shardkit.Val, via string) []mismatch {
	var out []mismatch
	keys := map[string]bool{}
	for k := range o.store {
		keys[k] = true
	}
	for k := range got {
		keys[k] = true
	}
	var ks []string
	for k := range keys {
		ks = append(ks, k)
	}
	sort.Strings(ks)
	owner := func(t int64) (string, bool, bool) { // kind, accepted, isBatchPoint
		i := int(t - 10)
		if i >= 0 && i < len(cs.Batch) {
			return cs.Batch[i], o.accepted[i], true
		}
		return "pre-existing", true, false
	}
	for _, k := range ks {
		want := map[shardkit.Val]int{}
		for _, v := range o.store[k] {
			want[v]++
		}
		for _, v := range got[k] {
			if want[v] > 0 {
				want[v]--
				continue
			}
			kind, acc, inBatch := owner(v.T)
			switch {
			case inBatch && !acc:
				out = append(out, mismatch{vlib.JoinSig("rejected-point-stored", via, "reason="+rejReason(cs, o, int(v.T-10))), fmt.Sprintf("%s: %q holds %d=%s of rejected point #%d (%s)", via, k, v.T, v.V, v.T-10, kind)})
			case inBatch && keyField(k) == "time":
				out = append(out, mismatch{vlib.JoinSig("time-field-stored", via), fmt.Sprintf("%s: %q holds %d=%s: the `time` field of accepted point #%d (%s) was not stripped", via, k, v.T, v.V, v.T-10, kind)})
			default:
				out = append(out, mismatch{vlib.JoinSig("unexpected-value", via), fmt.Sprintf("%s: %q holds unexpected %d=%s", via, k, v.T, v.V)})
			}
		}
		for v, n := range want {
			if n > 0 {
				kind, _, _ := owner(v.T)
				out = append(out, mismatch{vlib.JoinSig("accepted-point-missing", via), fmt.Sprintf("%s: %q lacks %d=%s of accepted point (%s)", via, k, v.T, v.V, kind)})
			}
		}
	}
	sort.Slice(out, func(i, j int) bool { return out[i].sig+out[i].msg < out[j].sig+out[j].msg })
	return out
}

// rejReason is why point i of the batch is rejected under outcome o.
func rejReason(cs Case, o outcome, i int) string {
	if o.why != nil {
		return o.why[i]
	}
	return reasonOf(cs.Batch[i])
}

func reasonOf(kind string) string {
	if r := kindByName[kind].reason; r != "" {
		return r
	}
	return "type-conflict"
}

func reasons(cs Case, o outcome) string {
	set := map[string]bool{}
	for i := range cs.Batch {
		if !o.accepted[i] {
			set[rejReason(cs, o, i)] = true
		}
	}
	var l []string
	for r := range set {
		l = append(l, r)
	}
	sort.Strings(l)
	return strings.Join(l, "+")
}

func judgeOutcome(cs Case, o outcome, ob observed) []mismatch {
	var out []mismatch
	switch {
	case ob.err == "":
		if o.rejected != 0 {
			out = append(out, mismatch{vlib.JoinSig("dropped-count", "no-error"), fmt.Sprintf("WritePoints returned nil but %d point(s) must be rejected", o.rejected)})
		}
	case !ob.isPWE:
		out = append(out, mismatch{vlib.JoinSig("unexpected-error"), "WritePoints returned a non-partial-write error: " + ob.err})
	case ob.dropped != o.rejected:
		dir := "under"
		if ob.dropped > o.rejected {
			dir = "over"
		}
		out = append(out, mismatch{vlib.JoinSig("dropped-count", dir), fmt.Sprintf("PartialWriteError.Dropped=%d but %d point(s) are rejected (%s)", ob.dropped, o.rejected, reasons(cs, o))})
	}
	out = append(out, diffStore(cs, o, ob.raw, "raw")...)
	out = append(out, diffStore(cs, o, ob.reads, "cursor")...)
	return out
}

// judge returns the mismatches against the best allowed outcome (none = the case passes) and the index
// of the outcome that matched (or 0).
func judge(m string, cs Case, ob observed) ([]mismatch, int) {
	outs := allowed(m, cs)
	var first []mismatch
	for i, o := range outs {
		mm := judgeOutcome(cs, o, ob)
		if len(mm) == 0 {
			return nil, i
		}
		if i == 0 {
			first = mm
		}
	}
	return first, 0
}

func obsString(cs Case, ob observed) string {
	return fmt.Sprintf("%s → err=%q dropped=%d raw={%s} cursor={%s}", cs, ob.err, ob.dropped, shardkit.RawString(ob.raw), shardkit.RawString(ob.reads))
}

func batches(ks []string, maxLen int, fn func([]string)) {
	for n := 1; n <= maxLen; n++ {
		batchesN(ks, n, fn)
	}
}

// batchesN: every batch of exactly n kinds, odometer order.
func batchesN(ks []string, n int, fn func([]string)) {
	{
		idx := make([]int, n)
		for {
			b := make([]string, n)
			for i, x := range idx {
				b[i] = ks[x]
			}
			fn(b)
			i := n - 1
			for ; i >= 0; i-- {
				idx[i]++
				if idx[i] < len(ks) {
					break
				}
				idx[i] = 0
			}
			if i < 0 {
				break
			}
		}
	}
}

func TestCheck(t *testing.T) {
	vlib.Main(t, &vlib.Check{
		ID: "C40", Level: "exploration",
		Rule: "every batch of 1..3 points, in every order, over the point kinds {F: f float; I: f integer; AF/AI: extra new float field a + f float/integer; TT: tag named time; TO: only a field named time; TF/TI: field time + f float/integer; L: string field s of 1 MiB+1; U: invalid UTF-8 tag value (ValidateKeys on)} [thorough: + S: f string, B: f boolean] × pre-existing schema of measurement m ∈ {empty, f:float, f:integer} [thorough: + f:string], each on a fresh real tsdb.Shard (tsm1+tsi1+series file, WAL on); one Shard.WritePoints per case; observed: returned error/PartialWriteError.Dropped, raw dump of all stored keys/values, cursor reads of every (series, field) of the universe. " +
			"Second family (combo: two components in ONE point, the second field's name sorting before and after \"time\" because fields are validated in key order; subject field f < time < value of type float/integer, string of 1 MiB+1 named l < time < z, new float field g < time < u): " +
			"every batch of 1..2 points, in every order, over the 24 kinds {X(n:t): plain subject field (4); TF+X: field time + subject field (4); TF+L: field time + too-long string (2); TF+N: field time + new valid field (2); " +
			"X+L: integer subject field + too-long string (4: f/value x l/z); TT+TF, TT+X (4), TT+L(z), TT+N (2): tag time + each of these (8)} × pre-existing schema {empty, float, integer} given to BOTH subject fields " +
			"[thorough: batches of 1..3 over these kinds, and batches of 1..2 over the extended list of 85 kinds (+ string/boolean subject types, every subject type in X+L, TT+L(l), X+N, L+N, TF+X+L), × the 4 schemas]; same oracle, a point being rejected iff it has a time tag, no field but time, " +
			"a too-long string or a subject field whose type is not the winning type of that name. The two families alternate per batch length (shortest first). non-trivial = batches with at least one rejected and one accepted point under the first-point-wins outcome (distinct by construction)",
		Assumptions: []string{
			"when two points of one batch give a NEW field different types the statement does not say which is rejected: any single winning type is accepted",
			"a `time` field of an otherwise valid point is not part of the accepted point (error text: 'has been stripped from point'); a nil error or a PartialWriteError with Dropped=0 are both accepted for such a batch",
			"field schema side effects of rejected points (a new field registered by a point that is then dropped) are not judged: only stored data",
			"combo family: when a field name is new, the type given to it by ANY point of the batch without a time tag may win, also that of a point rejected for another defect (a too-long point registers the fields sorting before the long one)",
		},
		QuickBudgetS: 60, ThoroughBudgetS: 800,
		Run: func(c *vlib.Ctx) {
			ks := []string{"F", "I", "AF", "AI", "TT", "TO", "TF", "TI", "L", "U"}
			schemas := []string{"", "float", "integer"}
			if c.Thorough() {
				ks = append(ks, "S", "B")
				schemas = append(schemas, "string")
			}
			// One shard serves up to `recycle` cases, each on its own fresh measurement; a case that fails there
			// is re-executed on a fresh shard and only that verdict is reported.
			const recycle = 150
			var fx *shardkit.Fixture
			var fxDir string
			used := 0
			confirmed := map[string]bool{}
			closeFx := func() {
				if fx != nil {
					fx.Close()
					os.RemoveAll(fxDir)
					fx = nil
				}
			}
			defer closeFx()
			var idx int64
			// combo family: batches of 1..2 (thorough: 1..3 over the base combo kinds, 1..2 over the extended ones)
			cks, cksWide := comboNames(combos(false, false)), []string(nil)
			comboMax := 2
			if c.Thorough() {
				cksWide, comboMax = comboNames(combos(true, true)), 3
			}
			stopped := false
			visit := func(fam string, b []string) {
				for _, sch := range schemas {
					if stopped {
						return
					}
					idx++
					if !c.Mine(idx) {
						continue
					}
					if c.Expired() {
						c.Cap("budget expired; batches are enumerated shortest first, the two families alternating per batch length")
						stopped = true
						return
					}
					cs := Case{Fam: fam, Schema: sch, Batch: append([]string(nil), b...)}
					if fx == nil || used >= recycle {
						closeFx()
						fxDir = vlib.Scratch("c40-")
						var err error
						if fx, err = shardkit.Open(fxDir, shardkit.Options{ValidateKeys: true}); err != nil {
							os.RemoveAll(fxDir)
							fx = nil
							c.HarnessError("open: " + err.Error())
							return
						}
						used = 0
					}
					used++
					m := fmt.Sprintf("m%d", idx)
					var ob observed
					panicked, pdesc := vlib.Guard(func() { ob = runOn(fx, m, cs) })
					var mm []mismatch
					which := 0
					if !panicked && ob.harness == "" {
						mm, which = judge(m, cs, ob)
					}
					needFresh := panicked || ob.harness != ""
					for _, x := range mm {
						if !confirmed[x.sig] {
							needFresh = true
						}
					}
					if needFresh {
						// confirm on a fresh shard (once per violation class; later cases of a confirmed class
						// are reported from the shared shard)
						closeFx()
						m = "m"
						panicked, pdesc = vlib.Guard(func() { ob = runFresh(cs) })
						if panicked {
							c.Eval(1)
							c.Outcome("panic")
							c.Violation(vlib.JoinSig("panic", strings.TrimSpace(pdesc[strings.LastIndex(pdesc, "@")+1:])), cs.String()+": "+pdesc, cs)
							continue
						}
						if ob.harness != "" {
							c.HarnessError(cs.String() + ": " + ob.harness)
							continue
						}
						mm, which = judge(m, cs, ob)
						if len(mm) == 0 {
							c.HarnessError(cs.String() + ": failed on the shared shard but passes on a fresh one")
						}
						for _, x := range mm {
							confirmed[x.sig] = true
						}
					}
					c.Eval(1)
					o0 := allowed(m, cs)[0]
					if o0.rejected > 0 && o0.rejected < len(cs.Batch) {
						c.NontrivialN(1)
					}
					oc := fmt.Sprintf("accepted=%d,rejected=%d", len(cs.Batch)-ob.dropped, ob.dropped)
					if fam != "" {
						oc = fam + ":" + oc
					}
					switch {
					case ob.err == "":
						oc += ",err=nil"
					case ob.isPWE:
						oc += ",err=partial-write"
					default:
						oc += ",err=other"
					}
					if len(mm) == 0 && which > 0 {
						oc += ",later-point-won"
					}
					c.Outcome(oc)
					for _, x := range mm {
						c.Violation(x.sig, cs.String()+": "+x.msg+" | "+obsString(cs, ob), cs)
					}
					if c.WantSample() && o0.rejected > 0 && o0.rejected < len(cs.Batch) {
						c.Sample(map[string]any{"case": cs, "dropped": ob.dropped, "error": ob.err, "stored": shardkit.RawString(ob.raw)})
					}
				}
			}
			for n := 1; n <= 3 && !stopped; n++ {
				batchesN(ks, n, func(b []string) { visit("", b) })
				if n > comboMax {
					continue
				}
				if n <= 2 && cksWide != nil { // thorough, lengths 1..2: the extended kind list (a superset of the base list)
					batchesN(cksWide, n, func(b []string) { visit(famCombo, b) })
				} else {
					batchesN(cks, n, func(b []string) { visit(famCombo, b) })
				}
			}
		},
		Replay: func(c *vlib.Ctx, raw json.RawMessage) (bool, string) {
			var cs Case
			if err := json.Unmarshal(raw, &cs); err != nil {
				return false, err.Error()
			}
			var ob observed
			if p, d := vlib.Guard(func() { ob = runFresh(cs) }); p {
				return true, d
			}
			if ob.harness != "" {
				return false, "harness: " + ob.harness
			}
			mm, _ := judge("m", cs, ob)
			var msgs []string
			for _, m := range mm {
				msgs = append(msgs, m.sig+": "+m.msg)
			}
			return len(mm) > 0, obsString(cs, ob) + "\n" + strings.Join(msgs, "\n")
		},
	})
}
