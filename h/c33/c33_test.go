// C33: /ready and /health report the true aggregate state, also under concurrent registration, signalling and requests.
//
// One oracle serves all parts: every signal source (gate, health check, freshness wrapper, startup logger) is a
// register whose value changes are recorded with an [invoked, returned] interval on a logical clock; every
// registration likewise; every request likewise. A response is accepted iff there is a registered set that existed at
// some instant of the request interval and, per registered entry, a value that entry's source held inside the interval,
// which together render to exactly that response (status code, listed gates / first failing message). Sequentially all
// intervals are points and the oracle is exact.
//
// Part A: all op sequences up to depth d through the real HealthReadyHandler (exact).
// Part B: kit/check (check.go, helpers.go, freshness.go) and cmd/influxd/run/startup_logger.go compiled against the
//         modelled sync / sync/atomic; 2-3 threads {request, signaller, registrar}; every interleaving up to a
//         preemption bound (vsched).
// Part C: freshness staleness and scheduler-pulse thresholds at -1/0/+1 on the fake clock of a synctest bubble.
package c33

import (
	"context"
	"encoding/json"
	"errors"
	"fmt"
	"net/http/httptest"
	"sort"
	"strings"
	"testing"
	"testing/synctest"
	"time"

	"github.com/influxdata/influxdb/v2/cmd/influxd/run"
	ihttp "github.com/influxdata/influxdb/v2/http"
	"github.com/influxdata/influxdb/v2/kit/check"
	"github.com/influxdata/influxdb/v2/pkg/verifrt/vatomic"
	"github.com/influxdata/influxdb/v2/pkg/verifrt/vrt"
	"go.uber.org/zap"
	"verif/h/vlib"
)

// ---------------------------------------------------------------------------------------------
// recorded world
// ---------------------------------------------------------------------------------------------

type value struct {
	Pass   bool
	Msg    string
	AnyMsg bool // the failure message is not fixed by the statement or HEALTH_READY.md: accept any
}

type write struct {
	inv, ret int
	v        value
	any      bool // out-of-contract history (e.g. Finish(nil) and Finish(err) both called): accept pass and fail
}

type comp struct{ writes []write }

type entry struct {
	inv, ret int
	comp     string
	name     string
}

type reqObs struct {
	Kind     string // GR | GH
	inv, ret int
	Code     int
	Listed   []string // names in body.checks (for /ready: the failing list), sorted
	Msg      string   // body.message (/health)
	Body     string
}

var gateNames = []string{"m-gate", "b-gate", "x-gate"}

type toggleChecker struct{ down *vatomic.Bool }

func (t toggleChecker) Check(context.Context) check.Response {
	if t.down.Load() {
		return check.Fail("tog-down")
	}
	return check.Pass()
}

// probeChecker mirrors bolt.KVStore: Check returns the live *FreshnessResponse.
type probeChecker struct{ f *check.FreshnessResponse }

func (p probeChecker) CheckName() string                     { return p.f.Name() }
func (p probeChecker) Check(context.Context) check.Response { return p.f }

type world struct {
	tick   int
	h      *ihttp.HealthReadyHandler
	gates  []*check.ReadyGate
	tog    *vatomic.Bool
	fresh  *check.FreshnessResponse
	lg     *run.StartupProgressLogger
	lgErrs []string
	lgFin  string // "", "nil", "err", "both"
	comps  map[string]*comp
	ready  []entry
	health []entry
	reqs   []reqObs
	nreq   int
}

func newWorld() *world {
	w := &world{h: ihttp.NewHealthReadyHandler(nil), tog: &vatomic.Bool{}, comps: map[string]*comp{}}
	for _, n := range gateNames {
		w.gates = append(w.gates, check.NewReadyGate(n))
	}
	w.fresh = check.NewFreshnessResponse("fresh", time.Hour)
	w.lg = run.NewStartupProgressLogger("shards", zap.NewNop())
	initial := func(c string, v value) { w.comps[c] = &comp{writes: []write{{inv: -1, ret: -1, v: v}}} }
	for i := range gateNames {
		initial(fmt.Sprintf("g%d", i), value{Pass: false, Msg: "not ready"})
	}
	initial("tog", value{Pass: true})
	initial("fresh", value{Pass: false, AnyMsg: true})
	initial("lgR", value{Pass: false, AnyMsg: true})
	initial("lgH", value{Pass: true})
	for _, c := range []struct {
		n string
		v value
	}{{"hp", value{Pass: true}}, {"hz", value{Msg: "mz"}}, {"ha", value{Msg: "ma"}}, {"hn", value{Msg: "anon"}}, {"hx", value{Msg: ""}}, {"he", value{Pass: true}}} {
		initial(c.n, c.v)
	}
	return w
}

func (w *world) now() int { w.tick++; return w.tick }

func (w *world) write(c string, v value, anyv bool, f func()) {
	inv := w.now()
	f()
	ret := w.now()
	w.comps[c].writes = append(w.comps[c].writes, write{inv, ret, v, anyv})
}

func (w *world) register(health bool, c, name string, f func()) {
	inv := w.now()
	f()
	ret := w.now()
	e := entry{inv, ret, c, name}
	if health {
		w.health = append(w.health, e)
	} else {
		w.ready = append(w.ready, e)
	}
}

type bodyJSON struct {
	Status  string `json:"status"`
	Message string `json:"message"`
	Checks  []struct {
		Name    string `json:"name"`
		Status  string `json:"status"`
		Message string `json:"message"`
	} `json:"checks"`
}

func (w *world) get(kind string) {
	path := "/ready"
	if kind == "GH" {
		path = "/health"
	}
	if (w.nreq/2+w.nreq)%2 == 1 { // alternate the trailing-slash form per endpoint
		path += "/"
	}
	w.nreq++
	rec := httptest.NewRecorder()
	req := httptest.NewRequest("GET", path, nil)
	inv := w.now()
	w.h.ServeHTTP(rec, req)
	ret := w.now()
	o := reqObs{Kind: kind, inv: inv, ret: ret, Code: rec.Code}
	var b bodyJSON
	raw := rec.Body.Bytes()
	if err := json.Unmarshal(raw, &b); err != nil {
		o.Body = "unparsable body: " + string(raw)
	} else {
		for _, c := range b.Checks {
			if kind == "GR" || c.Status == "fail" {
				o.Listed = append(o.Listed, c.Name)
			}
		}
		sort.Strings(o.Listed)
		o.Msg = b.Message
	}
	w.reqs = append(w.reqs, o)
}

// apply executes one op on the real objects and records it.
func (w *world) apply(op string) {
	idx := func() int { return int(op[1] - '0') }
	switch {
	case op == "GR" || op == "GH":
		w.get(op)
	case op[0] == 'R':
		i := idx()
		w.register(false, fmt.Sprintf("g%d", i), gateNames[i], func() { w.h.AddNamedReadyCheck(w.gates[i]) })
	case op[0] == 'S':
		i := idx()
		w.write(fmt.Sprintf("g%d", i), value{Pass: true}, false, w.gates[i].Ready)
	case op[0] == 'U':
		i := idx()
		w.write(fmt.Sprintf("g%d", i), value{Pass: false, Msg: "not ready"}, false, w.gates[i].Unready)
	case op == "HP":
		w.register(true, "hp", "hp", func() {
			w.h.AddNamedHealthCheck(check.NamedFunc("hp", func(context.Context) check.Response { return check.Pass() }))
		})
	case op == "HZ":
		w.register(true, "hz", "z-fail", func() {
			w.h.AddNamedHealthCheck(check.NamedFunc("z-fail", func(context.Context) check.Response { return check.Fail("mz") }))
		})
	case op == "HA":
		w.register(true, "ha", "a-fail", func() {
			w.h.AddNamedHealthCheck(check.Named("a-fail", check.ErrCheck(func() error { return errors.New("ma") })))
		})
	case op == "HN":
		w.register(true, "hn", "", func() {
			w.h.AddHealthCheck(check.CheckerFunc(func(context.Context) check.Response { return check.Fail("anon") }))
		})
	case op == "HX":
		w.register(true, "hx", "x-empty", func() {
			w.h.AddNamedHealthCheck(check.NamedFunc("x-empty", func(context.Context) check.Response { return check.Fail("") }))
		})
	case op == "HE":
		w.register(true, "he", "", func() { w.h.AddHealthCheck(check.ErrCheck(func() error { return nil })) })
	case op == "HT":
		w.register(true, "tog", "t", func() { w.h.AddHealthCheck(check.Named("t", toggleChecker{w.tog})) })
	case op == "T1":
		w.write("tog", value{Msg: "tog-down"}, false, func() { w.tog.Store(true) })
	case op == "T0":
		w.write("tog", value{Pass: true}, false, func() { w.tog.Store(false) })
	case op == "HR":
		w.register(true, "fresh", "fresh", func() { w.h.AddNamedHealthCheck(probeChecker{w.fresh}) })
	case op == "F1":
		w.write("fresh", value{Msg: "down"}, false, func() { w.fresh.Update(check.Fail("down")) })
	case op == "F0":
		w.write("fresh", value{Pass: true}, false, func() { w.fresh.Update(check.Pass()) })
	case op == "LR":
		w.register(false, "lgR", "shards", func() { w.h.AddNamedReadyCheck(w.lg.ReadyChecker()) })
	case op == "LH":
		w.register(true, "lgH", "shards", func() { w.h.AddNamedHealthCheck(w.lg.HealthChecker()) })
	case op == "LA":
		w.lg.AddShard()
	case op == "LC":
		w.lg.CompletedShard()
	case op == "LF":
		id := 7 + len(w.lgErrs)
		e := fmt.Sprintf("boom%d", id)
		w.lgErrs = append(w.lgErrs, fmt.Sprintf("shard %d: %s", id, e))
		// HEALTH_READY.md: "<n> shard(s) failed to load: shard <id>: <err>; shard <id>: <err>; ..."
		msg := fmt.Sprintf("%d shard(s) failed to load: %s", len(w.lgErrs), strings.Join(w.lgErrs, "; "))
		w.write("lgH", value{Msg: msg}, false, func() { w.lg.ShardLoadFailed(uint64(id), errors.New(e)) })
	case op == "LN":
		anyv := w.lgFin == "err" || w.lgFin == "both"
		if anyv {
			w.lgFin = "both"
		} else {
			w.lgFin = "nil"
		}
		w.write("lgR", value{Pass: true}, anyv, func() { w.lg.Finish(nil) })
	case op == "LE":
		anyv := w.lgFin == "nil" || w.lgFin == "both"
		if anyv {
			w.lgFin = "both"
		} else {
			w.lgFin = "err"
		}
		w.write("lgR", value{Pass: false, AnyMsg: true}, anyv, func() { w.lg.Finish(errors.New("open failed")) })
	default:
		panic("unknown op " + op)
	}
}

// ---------------------------------------------------------------------------------------------
// oracle
// ---------------------------------------------------------------------------------------------

type poss struct {
	canPass, canFail bool
	failVals         []value
}

func (c *comp) possible(t0, t1 int) (p poss) {
	for i, w := range c.writes {
		if w.inv >= t1 {
			break // not even invoked when the request returned
		}
		if i+1 < len(c.writes) && c.writes[i+1].ret < t0 {
			continue // overwritten before the request began
		}
		switch {
		case w.any:
			p.canPass, p.canFail = true, true
			p.failVals = append(p.failVals, value{AnyMsg: true})
		case w.v.Pass:
			p.canPass = true
		default:
			p.canFail = true
			p.failVals = append(p.failVals, w.v)
		}
	}
	return
}

// options: the registered sets that existed at some instant of [t0,t1].
func options(list []entry, t0, t1 int) [][]entry {
	var base, opt []entry
	for _, e := range list {
		switch {
		case e.ret < t0:
			base = append(base, e)
		case e.inv < t1:
			opt = append(opt, e)
		}
	}
	var out [][]entry
	for k := 0; k <= len(opt); k++ {
		out = append(out, append(append([]entry{}, base...), opt[:k]...))
	}
	return out
}

// judgeReady returns "" or the violated clause.
func (w *world) judgeReady(q reqObs) (kind, detail string) {
	if q.Body != "" {
		return "ready/unparsable-body", q.Body
	}
	if q.Code != 200 && q.Code != 503 {
		return "ready/unexpected-status", fmt.Sprint(q.Code)
	}
	if q.Code == 200 && len(q.Listed) > 0 {
		return "ready/200-with-failing-gates-listed", strings.Join(q.Listed, ",")
	}
	if q.Code == 503 && len(q.Listed) == 0 {
		return "ready/503-without-any-gate-listed", ""
	}
	listed := map[string]int{}
	for _, n := range q.Listed {
		listed[n]++
	}
	var why string
	var whyKind string
	for _, R := range options(w.ready, q.inv, q.ret) {
		lo, hi := map[string]int{}, map[string]int{}
		for _, e := range R {
			p := w.comps[e.comp].possible(q.inv, q.ret)
			if p.canFail {
				hi[e.name]++
				if !p.canPass {
					lo[e.name]++
				}
			}
		}
		ok := true
		for n, c := range listed {
			if c > hi[n] {
				ok = false
				if whyKind == "" || whyKind == "ready/not-ready-gate-missing" {
					whyKind, why = "ready/lists-gate-that-is-ready-or-unregistered", n
				}
			}
		}
		for n, c := range lo {
			if listed[n] < c {
				ok = false
				if whyKind == "" {
					whyKind, why = "ready/not-ready-gate-missing", n
				}
			}
		}
		if ok {
			return "", ""
		}
	}
	if whyKind == "ready/not-ready-gate-missing" && q.Code == 200 {
		whyKind = "ready/200-while-gate-not-ready"
	}
	return whyKind, why
}

func (w *world) judgeHealth(q reqObs) (kind, detail string) {
	if q.Body != "" {
		return "health/unparsable-body", q.Body
	}
	if q.Code != 200 && q.Code != 503 {
		return "health/unexpected-status", fmt.Sprint(q.Code)
	}
	anyFailPossible := false
	for _, R := range options(w.health, q.inv, q.ret) {
		ps := make([]poss, len(R))
		for i, e := range R {
			ps[i] = w.comps[e.comp].possible(q.inv, q.ret)
		}
		if q.Code == 200 {
			ok := true
			for _, p := range ps {
				ok = ok && p.canPass
			}
			if ok {
				return "", ""
			}
			continue
		}
		// 503: some entry f fails with a value whose message is the response's, and nothing that sorts before f fails
		for i, f := range R {
			if !ps[i].canFail {
				continue
			}
			anyFailPossible = true
			first := true
			for j, e := range R {
				if j != i && e.name < f.name && !ps[j].canPass {
					first = false
				}
			}
			if !first {
				continue
			}
			for _, v := range ps[i].failVals {
				switch {
				case v.AnyMsg, v.Msg != "" && v.Msg == q.Msg:
					return "", ""
				case v.Msg == "":
					// a failing check without a message: HEALTH_READY.md documents the fallback "fail"; the statement's
					// reading is the empty message; a later failing check's message is also tolerated
					if q.Msg == "" || q.Msg == "fail" {
						return "", ""
					}
					for j := range R {
						for _, v2 := range ps[j].failVals {
							if j != i && v2.Msg == q.Msg {
								return "", ""
							}
						}
					}
				}
			}
		}
	}
	switch {
	case q.Code == 200:
		return "health/200-while-check-failing", ""
	case !anyFailPossible:
		return "health/503-while-every-check-passes", "message " + fmt.Sprintf("%q", q.Msg)
	}
	return "health/503-message-is-not-the-first-failing-check's", fmt.Sprintf("message %q", q.Msg)
}

func (w *world) judge() (kind, detail string, q reqObs) {
	for _, q := range w.reqs {
		var k, d string
		if q.Kind == "GR" {
			k, d = w.judgeReady(q)
		} else {
			k, d = w.judgeHealth(q)
		}
		if k != "" {
			return k, d, q
		}
	}
	return "", "", reqObs{}
}

func (w *world) outcome() string {
	var parts []string
	for _, q := range w.reqs {
		s := fmt.Sprintf("%s=%d", q.Kind, q.Code)
		if q.Kind == "GR" && q.Code != 200 {
			s += fmt.Sprintf("[%d]", len(q.Listed))
		}
		if q.Kind == "GH" && q.Code != 200 {
			m := q.Msg
			if len(m) > 12 {
				m = m[:12]
			}
			s += "[" + m + "]"
		}
		parts = append(parts, s)
	}
	return strings.Join(parts, ",")
}

func (w *world) describe() string {
	var sb strings.Builder
	for _, q := range w.reqs {
		fmt.Fprintf(&sb, "%s@[%d,%d] -> %d listed=%v message=%q; ", q.Kind, q.inv, q.ret, q.Code, q.Listed, q.Msg)
	}
	names := make([]string, 0, len(w.comps))
	for n := range w.comps {
		names = append(names, n)
	}
	sort.Strings(names)
	for _, n := range names {
		c := w.comps[n]
		if len(c.writes) < 2 {
			continue
		}
		fmt.Fprintf(&sb, "%s:", n)
		for _, wr := range c.writes[1:] {
			fmt.Fprintf(&sb, " [%d,%d]pass=%v", wr.inv, wr.ret, wr.v.Pass)
		}
		sb.WriteString("; ")
	}
	for _, e := range w.ready {
		fmt.Fprintf(&sb, "ready-reg %s[%d,%d]; ", e.name, e.inv, e.ret)
	}
	for _, e := range w.health {
		fmt.Fprintf(&sb, "health-reg %q[%d,%d]; ", e.name, e.inv, e.ret)
	}
	return sb.String()
}

// ---------------------------------------------------------------------------------------------
// Part A: sequential op sequences
// ---------------------------------------------------------------------------------------------

type SeqCase struct {
	Init     []string `json:"init,omitempty"`
	Ops      []string `json:"ops"`
	GetEvery bool     `json:"get_after_every_op"`
}

func runSeq(sc SeqCase) (kind, detail, outcome string, w *world) {
	w = newWorld()
	if p, d := vlib.Guard(func() {
		for _, op := range sc.Init {
			w.apply(op)
		}
		for i, op := range sc.Ops {
			w.apply(op)
			if sc.GetEvery || i == len(sc.Ops)-1 {
				w.get("GR")
				w.get("GH")
			}
		}
	}); p {
		return "seq/panic", d, "panic", w
	}
	k, d, q := w.judge()
	if k != "" {
		return "seq/" + k, fmt.Sprintf("after init %v ops %v: GET %s answered %d listed=%v message=%q: %s %s", sc.Init, sc.Ops, map[string]string{"GR": "/ready", "GH": "/health"}[q.Kind], q.Code, q.Listed, q.Msg, k, d), "violation", w
	}
	last := w.reqs[len(w.reqs)-2:]
	return "", "", fmt.Sprintf("ready=%d[%d],health=%d", last[0].Code, len(last[0].Listed), last[1].Code), w
}

func enumSeqs(alpha []string, maxLen int, f func(ops []string, full bool)) {
	for l := 1; l <= maxLen; l++ {
		cur := make([]string, l)
		var rec func(i int)
		rec = func(i int) {
			if i == l {
				f(append([]string{}, cur...), l == maxLen)
				return
			}
			for _, a := range alpha {
				cur[i] = a
				rec(i + 1)
			}
		}
		rec(0)
	}
}

// ---------------------------------------------------------------------------------------------
// Part B: schedules
// ---------------------------------------------------------------------------------------------

type Scenario struct {
	Init    []string   `json:"init"`
	Threads [][]string `json:"threads"`
}

func role(prog []string) string {
	r := map[string]bool{}
	for _, op := range prog {
		switch {
		case op[0] == 'G':
			r["request"] = true
		case op[0] == 'R' || (op[0] == 'H') || op == "LR" || op == "LH":
			r["register"] = true
		default:
			r["signal"] = true
		}
	}
	var l []string
	for k := range r {
		l = append(l, k)
	}
	sort.Strings(l)
	return strings.Join(l, "+")
}

func (s Scenario) shape() string {
	var rs []string
	kinds := map[string]bool{}
	for _, p := range s.Threads {
		rs = append(rs, role(p))
		for _, op := range p {
			switch op[0] {
			case 'S', 'U', 'R':
				kinds["gate"] = true
			case 'T':
				kinds["toggle"] = true
			case 'F':
				kinds["freshness"] = true
			case 'L':
				kinds["startup-logger"] = true
			}
		}
	}
	sort.Strings(rs)
	var ks []string
	for k := range kinds {
		ks = append(ks, k)
	}
	sort.Strings(ks)
	return strings.Join(rs, "||") + "/" + strings.Join(ks, "+")
}

// kinds: the kinds of signal sources the scenario's threads touch (part of a violation's class signature).
func (s Scenario) kinds() string {
	sh := s.shape()
	if k := sh[strings.Index(sh, "/")+1:]; k != "" {
		return k
	}
	return "static-checks"
}

// msgClass classifies a /health 503 message that no failing check explains.
func (w *world) msgClass(q reqObs) string {
	switch q.Msg {
	case "starting":
		return "starting-fallback(no-failing-check-left)"
	case "fail":
		return "fail-fallback(empty-message)"
	case "":
		return "empty"
	}
	for _, e := range w.health {
		for _, wr := range w.comps[e.comp].writes {
			if !wr.v.Pass && wr.v.Msg == q.Msg {
				return "another-check's"
			}
		}
	}
	return "unknown-text"
}

func (s Scenario) String() string {
	var ts []string
	for _, p := range s.Threads {
		ts = append(ts, strings.Join(p, " "))
	}
	return fmt.Sprintf("init[%s] threads{%s}", strings.Join(s.Init, " "), strings.Join(ts, " || "))
}

// validate: a source is written by at most one thread and each list is appended to by at most one thread, so that the
// recorded per-source histories are sequences.
func (s Scenario) validate() error {
	writer, reg := map[string]int{}, map[bool]int{}
	src := func(op string) string {
		switch {
		case op[0] == 'S' || op[0] == 'U':
			return "g" + op[1:]
		case op[0] == 'T':
			return "tog"
		case op[0] == 'F':
			return "fresh"
		case op == "LN" || op == "LE":
			return "lgR"
		case op == "LF":
			return "lgH"
		}
		return ""
	}
	for ti, p := range s.Threads {
		for _, op := range p {
			if c := src(op); c != "" {
				if o, ok := writer[c]; ok && o != ti {
					return fmt.Errorf("%s written by two threads", c)
				}
				writer[c] = ti
			}
			if op[0] == 'R' || op[0] == 'H' || op == "LR" || op == "LH" {
				h := op[0] == 'H' || op == "LH"
				if o, ok := reg[h]; ok && o != ti {
					return fmt.Errorf("two registrar threads for one list")
				}
				reg[h] = ti
			}
		}
	}
	return nil
}

func harness(sc Scenario, out **world) *vrt.Harness {
	return &vrt.Harness{Name: sc.String(), Body: func(x *vrt.Exec) {
		w := newWorld()
		*out = w
		for _, op := range sc.Init {
			w.apply(op)
		}
		for i, prog := range sc.Threads {
			x.Go(fmt.Sprintf("T%d:%s", i, role(prog)), func() {
				for _, op := range prog {
					w.apply(op)
				}
			})
		}
		x.S.MaxSteps = 5000
		x.Run()
		x.S.Drain()
	}}
}

func judgeSched(sc Scenario, r *vrt.Result, w *world) (sig, msg string) {
	if r.Deadlock {
		return "conc/deadlock/" + sc.shape(), "deadlock: " + strings.Join(r.Blocked, "; ")
	}
	if r.StepCap {
		return "conc/livelock/" + sc.shape(), "step cap reached"
	}
	want := 0
	for _, p := range sc.Threads {
		for _, op := range p {
			if op[0] == 'G' {
				want++
			}
		}
	}
	if len(w.reqs) != want {
		return "conc/harness", "request count mismatch"
	}
	if k, d, q := w.judge(); k != "" {
		sig := "conc/" + k + "/" + sc.kinds()
		if strings.Contains(k, "503-message") {
			sig += "/message=" + w.msgClass(q)
		}
		return sig, fmt.Sprintf("%s: GET %s over [%d,%d] answered %d listed=%v message=%q, which no registered set / source values inside the request interval explain (%s %s). history: %s",
			sc, map[string]string{"GR": "/ready", "GH": "/health"}[q.Kind], q.inv, q.ret, q.Code, q.Listed, q.Msg, k, d, w.describe())
	}
	return "", ""
}

func scenarios(thorough bool) []Scenario {
	var out []Scenario
	add := func(init string, threads ...string) {
		s := Scenario{Init: strings.Fields(init)}
		for _, t := range threads {
			s.Threads = append(s.Threads, strings.Fields(t))
		}
		if err := s.validate(); err != nil {
			panic(s.String() + ": " + err.Error())
		}
		out = append(out, s)
	}
	inits := []string{"R0", "R0 S0", "R0 R1 S0 S1", "R0 R1 S0"}
	sigs := []string{"S0", "U0", "S0 U0", "U0 S0", "S0 S1", "S1 S0", "U0 U1", "U1 S0"}
	reqs := []string{"GR", "GR GR"}
	// request || signaller
	for _, in := range inits {
		for _, rq := range reqs {
			for _, sg := range sigs {
				add(in, rq, sg)
			}
		}
	}
	// request || registrar (new gates, one pre-signalled)
	for _, in := range append([]string{"", "S2"}, inits...) {
		for _, rq := range reqs {
			for _, rg := range []string{"R2", "R1 R2"} {
				add(in, rq, rg)
			}
		}
	}
	// /health: toggle, registration, first-failing order ("t" sorts before "z-fail", after "a-fail")
	for _, in := range []string{"HP HT", "HP HT T1", "HZ HT", "HZ HT T1", "HT HA"} {
		for _, rq := range []string{"GH", "GH GH"} {
			for _, sg := range []string{"T1", "T0", "T1 T0", "T0 T1"} {
				add(in, rq, sg)
			}
		}
	}
	for _, in := range []string{"", "HP", "HZ", "HP HT T1"} {
		for _, rg := range []string{"HA", "HZ HA", "HP HN", "HX"} {
			add(in, "GH", rg)
		}
	}
	// freshness wrapper (the bolt health check's shape): live stateful Response
	for _, in := range []string{"HR", "HR F0", "HR F1", "HZ HR F1", "HZ HR F0", "HA HR F0"} {
		for _, sg := range []string{"F0", "F1", "F1 F0", "F0 F1"} {
			add(in, "GH", sg)
		}
	}
	// startup progress logger behind /ready ("shards" gate) and /health
	for _, in := range []string{"LR LA", "R0 S0 LR LA", "R0 LR LA"} {
		for _, rq := range reqs {
			for _, sg := range []string{"LE", "LN", "LC LN", "LC LE"} {
				add(in, rq, sg)
			}
		}
	}
	for _, in := range []string{"LH", "HZ LH", "HA LH"} {
		for _, sg := range []string{"LF", "LF LF"} {
			add(in, "GH", sg)
			add(in, "GH GH", sg)
		}
	}
	// both endpoints in one request thread
	add("R0 HT", "GR GH", "S0 T1")
	add("R0 S0 HT T1", "GH GR", "U0 T0")
	// three threads: request || signaller || registrar
	for _, in := range inits {
		for _, sg := range sigs {
			for _, rg := range []string{"R2", "R1 R2"} {
				if !thorough && (len(strings.Fields(sg)) > 1 && rg != "R2") {
					continue
				}
				add(in, "GR", sg, rg)
			}
		}
	}
	for _, in := range []string{"HP HT", "HZ HT T1"} {
		for _, sg := range []string{"T1 T0", "T0 T1"} {
			add(in, "GH", sg, "HA")
		}
	}
	add("R0 LR LA", "GR", "LC LN", "S0")
	add("R0 LR LA", "GR", "LE", "R1")
	if thorough {
		for _, in := range inits {
			for _, sg := range sigs {
				add(in, "GR GR", sg, "R2")
			}
		}
		add("HR F1 HZ", "GH GH", "F0 F1", "HA")
	}
	return out
}

// ---------------------------------------------------------------------------------------------
// Part C: thresholds on the fake clock
// ---------------------------------------------------------------------------------------------

type TimeCase struct {
	Kind  string `json:"kind"` // pulse | fresh
	LagNs int64  `json:"lag_ns"`
	Zero  bool   `json:"zero_when,omitempty"`
	Fail  bool   `json:"probe_failed,omitempty"`
}

type stubSched struct{ w time.Time }

func (s stubSched) When() time.Time { return s.w }

const pulseThreshold = 30 * time.Second // HEALTH_READY.md: "in the past by > 30s" fails
const freshBudget = 5 * time.Second     // HEALTH_READY.md: staleness budget 5 seconds

func runTime(t *testing.T, tc TimeCase) (kind, detail, outcome string) {
	var code int
	var body bodyJSON
	var raw string
	synctest.Test(t, func(t *testing.T) {
		h := ihttp.NewHealthReadyHandler(nil)
		base := time.Now().Add(time.Hour)
		switch tc.Kind {
		case "pulse":
			w := base
			if tc.Zero {
				w = time.Time{}
			}
			h.AddNamedHealthCheck(check.Named("task-scheduler", run.NewSchedulerPulseCheck(stubSched{w}, run.DefaultSchedulerPulseThreshold)))
			time.Sleep(time.Hour + time.Duration(tc.LagNs))
		case "fresh":
			f := check.NewFreshnessResponse("bolt", freshBudget)
			h.AddNamedHealthCheck(probeChecker{f})
			time.Sleep(time.Hour)
			if tc.Fail {
				f.Update(check.Fail("down"))
			} else {
				f.Update(check.Pass())
			}
			time.Sleep(time.Duration(tc.LagNs))
		}
		rec := httptest.NewRecorder()
		h.ServeHTTP(rec, httptest.NewRequest("GET", "/health", nil))
		code = rec.Code
		raw = rec.Body.String()
		json.Unmarshal(rec.Body.Bytes(), &body)
	})
	wantFail := false
	switch tc.Kind {
	case "pulse":
		wantFail = !tc.Zero && time.Duration(tc.LagNs) > pulseThreshold
	case "fresh":
		wantFail = tc.Fail || time.Duration(tc.LagNs) > freshBudget
	}
	outcome = fmt.Sprintf("time:%s=%d", tc.Kind, code)
	switch {
	case wantFail && code != 503:
		return "time/" + tc.Kind + "/200-while-check-failing", fmt.Sprintf("%+v: /health answered %d, body %s", tc, code, raw), outcome
	case !wantFail && code != 200:
		return "time/" + tc.Kind + "/503-while-every-check-passes", fmt.Sprintf("%+v: /health answered %d, body %s", tc, code, raw), outcome
	case wantFail:
		// the top-level message is the failing check's own message as listed in the body
		own := ""
		for _, c := range body.Checks {
			if c.Status == "fail" {
				own = c.Message
				break
			}
		}
		if own == "" || body.Message != own {
			return "time/" + tc.Kind + "/503-message-is-not-the-first-failing-check's", fmt.Sprintf("%+v: message %q, failing check lists %q", tc, body.Message, own), outcome
		}
		if tc.Kind == "fresh" && tc.Fail && time.Duration(tc.LagNs) <= freshBudget && own != "down" {
			return "time/fresh/503-message-is-not-the-first-failing-check's", fmt.Sprintf("%+v: message %q, probe said \"down\"", tc, own), outcome
		}
	}
	return "", "", outcome
}

func timeCases() []TimeCase {
	var out []TimeCase
	out = append(out, TimeCase{Kind: "pulse", Zero: true, LagNs: int64(time.Hour)})
	for _, lag := range []time.Duration{-time.Second, -1, 0, 1, pulseThreshold - 1, pulseThreshold, pulseThreshold + 1, pulseThreshold + time.Second, time.Hour} {
		out = append(out, TimeCase{Kind: "pulse", LagNs: int64(lag)})
	}
	for _, lag := range []time.Duration{0, 1, freshBudget - 1, freshBudget, freshBudget + 1, 2 * freshBudget} {
		out = append(out, TimeCase{Kind: "fresh", LagNs: int64(lag)}, TimeCase{Kind: "fresh", LagNs: int64(lag), Fail: true})
	}
	return out
}

// ---------------------------------------------------------------------------------------------

type Case struct {
	Part    string    `json:"part"` // seq | conc | time
	Seq     *SeqCase  `json:"seq,omitempty"`
	Sched   *Scenario `json:"scenario,omitempty"`
	Choices []int     `json:"schedule,omitempty"`
	Trace   []string  `json:"trace,omitempty"`
	Time    *TimeCase `json:"time,omitempty"`
}

var alphaMain = strings.Fields("R0 R1 S0 S1 U0 U1 HP HZ HA HN HX HE HT T1 T0 HR F1 F0")
var alphaGates3 = strings.Fields("R0 R1 R2 S0 S1 S2 U0 U1 U2")
var alphaLogger = strings.Fields("LA LC LF LN LE S0 U0")

func TestCheck(t *testing.T) {
	vlib.Main(t, &vlib.Check{
		ID: "C33", Level: "model_checking",
		Rule: "(A) every op sequence of length <=4 (thorough <=5) over {register gate 0/1, Ready/Unready gate 0/1, add health check: named pass, named fail 'z-fail', named fail 'a-fail', anonymous fail, named fail with empty message, anonymous pass, togglable 't' + toggle down/up, live FreshnessResponse + Update(fail)/Update(pass)} on the real HealthReadyHandler, GET /ready and GET /health (alternating trailing slash) after the last op (after every op for maximal-length sequences); plus 3 gates x {register, Ready, Unready} to length 5 (thorough 6), plus StartupProgressLogger behind both endpoints over {AddShard, CompletedShard, ShardLoadFailed, Finish(nil), Finish(err), Ready/Unready gate 0} to length 4 (thorough 6). " +
			"(B) kit/check/{check,helpers,freshness}.go and cmd/influxd/run/startup_logger.go compiled against the modelled sync / sync/atomic: ~250 scenarios of 2-3 threads {request (1-2 GETs through the handler), signaller (1-2 Ready/Unready/toggle/Update/Finish/ShardLoadFailed), registrar (1-2 registrations)} from 4-6 initial states each; every interleaving with <=3 preemptions at mutex/atomic granularity. " +
			"(C) scheduler-pulse lag in {-1s,-1ns,0,1ns,30s-1ns,30s,30s+1ns,31s,1h, idle} and freshness age in {0,1ns,5s-1ns,5s,5s+1ns,10s} x probe {pass,fail} on fake time. " +
			"Oracle: a response must be rendered by a registered set that existed at some instant of the request interval and, per entry, a value its source held inside the interval (200 iff all of them pass; /ready 503 lists exactly the failing entries' names; /health 503 carries the message of a failing entry before which, in name order, nothing fails); exact when sequential. states = decision nodes of the schedule trees, transitions = scheduling steps, traces = executions; non-trivial = sequences/executions with at least one 503",
		Assumptions: []string{
			"'first failing check' is read as first in the handler's documented order (failing first, then by name); ties between equally named checks accept either",
			"a failing check with an empty message may surface as \"\" or as the documented fallback \"fail\"",
			"strict linearizability of the multi-gate conjunction is not demanded (each entry may be read at a different instant of the request)",
			"messages of sources whose text the statement/HEALTH_READY.md do not fix (freshness 'no probe yet', shards progress) are not compared",
			"Finish(nil) and Finish(err) both called on one StartupProgressLogger is out of contract: either answer accepted",
			"sequentially consistent interleavings at sync/atomic granularity; <=3 threads, <=2 ops per thread",
		},
		QuickBudgetS: 60, ThoroughBudgetS: 800, WorkerEnv: []string{"GOMAXPROCS=1"},
		Run: func(c *vlib.Ctx) {
			var idx int64
			// ---- part A
			doSeq := func(sc SeqCase) {
				idx++
				if !c.Mine(idx) {
					return
				}
				kind, detail, out, w := runSeq(sc)
				c.Eval(1)
				n503 := false
				for _, q := range w.reqs {
					n503 = n503 || q.Code == 503
				}
				if n503 {
					c.NontrivialN(1)
				}
				c.Outcome("seq:" + out)
				if kind != "" {
					c.Violation(kind, detail, Case{Part: "seq", Seq: &sc})
				}
				if c.WantSample() && len(sc.Ops) >= 4 && n503 && idx%977 == 0 {
					c.Sample(map[string]any{"ops": sc.Ops, "responses": w.outcome()})
				}
			}
			type fam struct {
				init  []string
				alpha []string
				q, th int
			}
			for _, f := range []fam{{nil, alphaMain, 4, 5}, {nil, alphaGates3, 5, 6}, {strings.Fields("LR LH R0"), alphaLogger, 4, 6}} {
				d := f.q
				if c.Thorough() {
					d = f.th
				}
				stop := false
				enumSeqs(f.alpha, d, func(ops []string, full bool) {
					if stop {
						return
					}
					if idx%4096 == 0 && c.Expired() {
						c.Cap("budget expired in the sequential part")
						stop = true
						return
					}
					doSeq(SeqCase{Init: f.init, Ops: ops, GetEvery: full})
				})
				if stop {
					return
				}
			}
			// ---- part C
			for _, tc := range timeCases() {
				idx++
				if !c.Mine(idx) {
					continue
				}
				kind, detail, out := runTime(t, tc)
				c.Eval(1)
				c.NontrivialN(1)
				c.Outcome(out)
				if kind != "" {
					c.Violation(kind, detail, Case{Part: "time", Time: &tc})
				}
			}
			// ---- part B
			scs := scenarios(c.Thorough())
			bound := 3
			for si, sc := range scs {
				if !c.Mine(int64(si)) {
					continue
				}
				if c.Expired() {
					c.Cap("budget expired in the schedule part")
					break
				}
				var w *world
				h := harness(sc, &w)
				st := vrt.Explore(t, h, bound, 0, 1, c.Expired, func(r *vrt.Result) {
					c.Eval(1)
					if r.Diverged != "" {
						c.HarnessError(sc.String() + ": " + r.Diverged)
						return
					}
					sig, msg := judgeSched(sc, r, w)
					if sig == "conc/harness" {
						c.HarnessError(sc.String() + ": " + msg)
						return
					}
					n503 := false
					for _, q := range w.reqs {
						n503 = n503 || q.Code == 503
					}
					if n503 {
						c.NontrivialN(1)
					}
					if sig != "" {
						cs := Case{Part: "conc", Sched: &sc, Choices: r.Choices}
						for _, s := range r.Steps {
							cs.Trace = append(cs.Trace, fmt.Sprintf("T%d %s", s.Thread, s.Label))
						}
						c.Violation(sig, msg, cs)
						c.Outcome("conc:violation")
						return
					}
					c.Outcome("conc:" + w.outcome())
					if c.WantSample() && r.Preempts == bound {
						c.Sample(map[string]any{"scenario": sc.String(), "schedule": r.Choices, "responses": w.outcome()})
					}
				})
				c.StateN(st.Nodes)
				c.Transition(st.Transitions)
				c.Trace(st.Executions)
				if !st.Complete {
					c.Cap("budget expired inside a schedule tree")
					break
				}
			}
			if c.Shard == 0 {
				c.Extra("schedule_scenarios", int64(len(scs)))
				c.Extra("preemption_bound", int64(bound))
			}
		},
		Replay: func(c *vlib.Ctx, raw json.RawMessage) (bool, string) {
			var cs Case
			if err := json.Unmarshal(raw, &cs); err != nil {
				return false, err.Error()
			}
			switch cs.Part {
			case "seq":
				kind, detail, out, _ := runSeq(*cs.Seq)
				if kind != "" {
					return true, detail
				}
				return false, out
			case "time":
				kind, detail, out := runTime(t, *cs.Time)
				if kind != "" {
					return true, detail
				}
				return false, out
			case "conc":
				var w *world
				r := vrt.RunOnce(t, harness(*cs.Sched, &w), cs.Choices)
				if r.Diverged != "" {
					return false, "diverged: " + r.Diverged
				}
				if sig, msg := judgeSched(*cs.Sched, r, w); sig != "" {
					return true, msg
				}
				return false, w.describe()
			}
			return false, "unknown part"
		},
	})
}
