// C03: deleted points never reappear.
// Engine: vsched on a REAL tsm1.Engine (tsi1 index, series file, WAL, on /dev/shm): a range delete runs
// concurrently with a cache snapshot (and optionally a writer); every interleaving with ≤ B preemptions
// at the sync operations of engine.go and cache.go is executed; afterwards the data is read, then
// snapshotted + reopened and read again, and compared with the statement's model.
package c03

import (
	"encoding/json"
	"fmt"
	"math"
	"os"
	"sort"
	"strings"
	"testing"

	"github.com/influxdata/influxdb/v2/pkg/verifrt/vrt"
	"verif/h/engkit"
	"verif/h/vlib"
)

const (
	s1 = "cpu,host=a"
	s2 = "cpu,host=b"
)

type Scenario struct {
	Layout string `json:"layout"` // cache | tsm+cache | 2tsm+cache
	Min    int64  `json:"del_min"`
	Max    int64  `json:"del_max"`
	Other  string `json:"other"`  // snapshot
	Writer string `json:"writer"` // "" | in-range | out-of-range
}

func (s Scenario) String() string {
	r := fmt.Sprintf("[%d,%d]", s.Min, s.Max)
	if s.Min == math.MinInt64 {
		r = "[all]"
	}
	w := ""
	if s.Writer != "" {
		w = " || write(" + s.Writer + ")"
	}
	return fmt.Sprintf("layout=%s: delete(s1,%s) || %s%s", s.Layout, r, s.Other, w)
}

type Case struct {
	Scenario Scenario `json:"scenario"`
	Choices  []int    `json:"schedule"`
	Trace    []string `json:"trace,omitempty"`
}

type obs struct {
	when string
	s1   []engkit.Pt
	s2   []engkit.Pt
	err  string
}

type result struct {
	verdicts []string // "sig|msg"
	outcome  string
}

func buildLayout(e *engkit.Eng, layout string) error {
	w := func(series string, pts ...engkit.Pt) error { return e.Write(series, "v", pts...) }
	switch layout {
	case "cache":
		if err := w(s1, engkit.Pt{T: 1, V: 1}, engkit.Pt{T: 2, V: 2}, engkit.Pt{T: 3, V: 3}); err != nil {
			return err
		}
		return w(s2, engkit.Pt{T: 1, V: 1}, engkit.Pt{T: 2, V: 2})
	case "tsm+cache":
		if err := w(s1, engkit.Pt{T: 1, V: 1}, engkit.Pt{T: 2, V: 2}); err != nil {
			return err
		}
		if err := w(s2, engkit.Pt{T: 1, V: 1}); err != nil {
			return err
		}
		if err := e.E.WriteSnapshot(); err != nil {
			return err
		}
		if err := w(s1, engkit.Pt{T: 3, V: 3}); err != nil {
			return err
		}
		return w(s2, engkit.Pt{T: 2, V: 2})
	case "1tsm-2blocks":
		if err := w(s1, engkit.Pt{T: 1, V: 1}, engkit.Pt{T: 2, V: 2}, engkit.Pt{T: 3, V: 3}); err != nil {
			return err
		}
		if err := w(s2, engkit.Pt{T: 1, V: 1}, engkit.Pt{T: 2, V: 2}); err != nil {
			return err
		}
		return e.E.WriteSnapshot()
	case "2tsm+cache":
		if err := w(s1, engkit.Pt{T: 1, V: 1}); err != nil {
			return err
		}
		if err := w(s2, engkit.Pt{T: 1, V: 1}); err != nil {
			return err
		}
		if err := e.E.WriteSnapshot(); err != nil {
			return err
		}
		if err := w(s1, engkit.Pt{T: 2, V: 2}); err != nil {
			return err
		}
		if err := e.E.WriteSnapshot(); err != nil {
			return err
		}
		if err := w(s1, engkit.Pt{T: 3, V: 3}); err != nil {
			return err
		}
		return w(s2, engkit.Pt{T: 2, V: 2})
	}
	return fmt.Errorf("unknown layout")
}

func fmtPts(ps []engkit.Pt) string {
	var b strings.Builder
	for _, p := range ps {
		fmt.Fprintf(&b, "%d=%g ", p.T, p.V)
	}
	return strings.TrimSpace(b.String())
}

// judge compares one read with the statement: s1 points in [min,max] written before the delete began
// must be absent; s1 points outside and all s2 points must be present with their values; the writer's
// point (t=2 v=99 in range / t=4 v=4 out of range) is constrained by its real-time order w.r.t. the delete.
func judge(sc Scenario, o obs, wBeforeDel, wAfterDel bool, add func(sig, msg string)) {
	if o.err != "" {
		add("read-error/"+o.when, o.err)
		return
	}
	in := func(t int64) bool { return t >= sc.Min && t <= sc.Max }
	got := map[int64]float64{}
	for _, p := range o.s1 {
		if _, dup := got[p.T]; dup {
			add("duplicate-timestamp/"+o.when, fmt.Sprintf("s1 read returned t=%d twice: %s", p.T, fmtPts(o.s1)))
		}
		got[p.T] = p.V
	}
	for _, t := range []int64{1, 2, 3} {
		v, present := got[t]
		orig := float64(t)
		if in(t) {
			// written before the delete began -> must never be returned again. A concurrent in-range write
			// (v=99) is a different point version: allowed unless it returned before the delete began.
			if present && v == orig {
				res := "[tsm-resident]"
				if sc.Layout == "cache" || t == 3 {
					res = "[cache-resident]"
				}
				add("deleted-point-returned/"+o.when, fmt.Sprintf("s1 t=%d %s (deleted range, written before the delete began) is returned %s: s1=[%s]", t, res, o.when, fmtPts(o.s1)))
			}
			if present && v == 99 && wBeforeDel {
				add("deleted-point-returned/"+o.when+"/writer-finished-before-delete", fmt.Sprintf("s1 t=%d v=99 [cache-resident] written before the delete began is returned %s", t, o.when))
			}
			if !present && sc.Writer == "in-range" && t == 2 && wAfterDel {
				add("write-after-delete-lost/"+o.when, fmt.Sprintf("s1 t=2 v=99 written after the delete returned is missing %s: s1=[%s]", o.when, fmtPts(o.s1)))
			}
		} else if !present || (v != orig && !(sc.Writer == "in-range" && t == 2)) {
			add("undeleted-point-missing/"+o.when, fmt.Sprintf("s1 t=%d (outside the deleted range) missing or changed %s: s1=[%s]", t, o.when, fmtPts(o.s1)))
		}
	}
	if sc.Writer == "out-of-range" && !in(4) {
		if v, ok := got[4]; !ok || v != 4 {
			add("undeleted-point-missing/"+o.when, fmt.Sprintf("s1 t=4 (written by the concurrent writer, outside the deleted range) missing %s: s1=[%s]", o.when, fmtPts(o.s1)))
		}
	}
	if fmtPts(o.s2) != "1=1 2=2" {
		add("other-series-affected/"+o.when, fmt.Sprintf("s2 = [%s], want [1=1 2=2] %s", fmtPts(o.s2), o.when))
	}
}

func runScenario(t *testing.T, sc Scenario, prefix []int) (*vrt.Result, result) {
	var res result
	add := func(sig, msg string) { res.verdicts = append(res.verdicts, sig+"|"+msg) }
	h := &vrt.Harness{Name: sc.String(), Filter: branchHere, DeviationCost: true, Body: func(x *vrt.Exec) {
		dir := vlib.Scratch("c03-")
		defer os.RemoveAll(dir)
		e, err := engkit.Open(dir)
		if err != nil {
			add("harness", "open: "+err.Error())
			return
		}
		if err := buildLayout(e, sc.Layout); err != nil {
			add("harness", "layout: "+err.Error())
			e.Close()
			return
		}
		ev := 0
		var delCall, delRet, wCall, wRet int
		var delErr, snapErr, wErr error
		x.Go("delete", func() {
			vrt.Hook("call:delete")
			ev++
			delCall = ev
			delErr = e.Delete(sc.Min, sc.Max, s1)
			ev++
			delRet = ev
		})
		x.Go(sc.Other, func() {
			vrt.Hook("call:" + sc.Other)
			snapErr = e.E.WriteSnapshot()
		})
		if sc.Writer != "" {
			x.Go("write", func() {
				vrt.Hook("call:write")
				ev++
				wCall = ev
				if sc.Writer == "in-range" {
					wErr = e.Write(s1, "v", engkit.Pt{T: 2, V: 99})
				} else {
					wErr = e.Write(s1, "v", engkit.Pt{T: 4, V: 4})
				}
				ev++
				wRet = ev
			})
		}
		x.S.MaxSteps = 20000
		x.Run()
		dead := x.S.Deadlock
		blocked := strings.Join(x.S.Blocked, "; ")
		capHit := x.S.StepCap
		x.S.Drain()
		if dead {
			add("deadlock", blocked)
		}
		if capHit {
			add("harness", "step cap")
		}
		if dead || capHit {
			e.Close()
			return
		}
		if delErr != nil {
			add("delete-error", delErr.Error())
		}
		if snapErr != nil && !strings.Contains(snapErr.Error(), "snapshot in progress") {
			add("snapshot-error", snapErr.Error())
		}
		if wErr != nil {
			add("write-error", wErr.Error())
		}
		wBefore := sc.Writer != "" && wRet < delCall
		wAfter := sc.Writer != "" && wCall > delRet
		read := func(when string) obs {
			o := obs{when: when}
			var err error
			if o.s1, err = e.Read(s1, "v"); err != nil {
				o.err = err.Error()
			}
			if o.s2, err = e.Read(s2, "v"); err != nil {
				o.err = err.Error()
			}
			return o
		}
		o1 := read("right-after")
		judge(sc, o1, wBefore, wAfter, add)
		if err := e.E.WriteSnapshot(); err != nil {
			add("snapshot-error/later", err.Error())
		}
		o2 := read("after-later-snapshot")
		judge(sc, o2, wBefore, wAfter, add)
		if err := e.Reopen(); err != nil {
			add("reopen-error", err.Error())
			return
		}
		o3 := read("after-restart")
		judge(sc, o3, wBefore, wAfter, add)
		e.Close()
		res.outcome = fmt.Sprintf("s1:[%s]->[%s]->[%s]", fmtPts(o1.s1), fmtPts(o2.s1), fmtPts(o3.s1))
		x.Outcome = res.outcome
	}}
	r := vrt.RunOnce(t, h, prefix)
	return r, res
}

// branchHere selects the points at which schedules branch: the sync operations of Engine and Cache
// (and the harness steps). All other tsm1 locks are modelled too (a contended one disables the thread)
// but are passed silently when free.
func branchHere(kind vrt.OpKind, label string) bool {
	return kind == vrt.OpHook || strings.Contains(label, "(*Engine)") || strings.Contains(label, "(*Cache)") ||
		strings.Contains(label, "(*entry)") || strings.Contains(label, "(*compactionStrategy)")
}

// ---------- sequential histories: delete ranges (sharing bounds), snapshots, overwrites, restarts ----------

type HOp struct {
	Kind string `json:"kind"` // del snap reopen write
	Min  int64  `json:"min,omitempty"`
	Max  int64  `json:"max,omitempty"`
	T    int64  `json:"t,omitempty"`
}

func (o HOp) String() string {
	switch o.Kind {
	case "del":
		return fmt.Sprintf("delete(s1,[%d,%d])", o.Min, o.Max)
	case "write":
		return fmt.Sprintf("write(s1,t=%d)", o.T)
	}
	return o.Kind
}

type HCase struct {
	Layout string `json:"layout"`
	Ops    []HOp  `json:"ops"`
}

func hAlphabet(thorough bool) []HOp {
	a := []HOp{{Kind: "snap"}, {Kind: "reopen"}, {Kind: "compact"}, {Kind: "write", T: 2},
		{Kind: "del", Min: 1, Max: 3}, {Kind: "del", Min: 1, Max: 2}, {Kind: "del", Min: 1, Max: 1}, {Kind: "del", Min: 2, Max: 3}, {Kind: "del", Min: 2, Max: 2}, {Kind: "del", Min: 3, Max: 3}}
	if thorough {
		a = append(a, HOp{Kind: "write", T: 1}, HOp{Kind: "del", Min: 0, Max: 9})
	}
	return a
}

// runHistory executes the op list on a fresh real engine and compares every read with a map model.
func runHistory(hc HCase) (verdicts []string, outcome string) {
	add := func(sig, msg string) { verdicts = append(verdicts, sig+"|"+msg) }
	dir := vlib.Scratch("c03h-")
	defer os.RemoveAll(dir)
	e, err := engkit.Open(dir)
	if err != nil {
		return []string{"harness|open: " + err.Error()}, ""
	}
	defer func() { e.Close() }()
	if err := buildLayout(e, hc.Layout); err != nil {
		return []string{"harness|layout: " + err.Error()}, ""
	}
	m1 := map[int64]float64{1: 1, 2: 2, 3: 3}
	wn := 0
	check := func(step int, after string) bool {
		p1, err1 := e.Read(s1, "v")
		p2, err2 := e.Read(s2, "v")
		if err1 != nil || err2 != nil {
			add("history/read-error", fmt.Sprintf("after step %d (%s): %v %v", step, after, err1, err2))
			return false
		}
		var want []engkit.Pt
		for _, t := range []int64{1, 2, 3} {
			if v, ok := m1[t]; ok {
				want = append(want, engkit.Pt{T: t, V: v})
			}
		}
		if fmtPts(p1) != fmtPts(want) {
			kind := "undeleted-point-missing-or-changed"
			got := map[int64]bool{}
			for _, p := range p1 {
				got[p.T] = true
				if _, ok := m1[p.T]; !ok {
					kind = "deleted-point-returned"
				}
			}
			add("history/"+kind+"/after="+strings.SplitN(after, "(", 2)[0], fmt.Sprintf("after step %d (%s): s1=[%s], model [%s]", step, after, fmtPts(p1), fmtPts(want)))
			return false
		}
		if fmtPts(p2) != "1=1 2=2" {
			add("history/other-series-affected/after="+strings.SplitN(after, "(", 2)[0], fmt.Sprintf("after step %d (%s): s2=[%s]", step, after, fmtPts(p2)))
			return false
		}
		return true
	}
	for i, op := range hc.Ops {
		switch op.Kind {
		case "snap":
			err = e.E.WriteSnapshot()
		case "reopen":
			err = e.Reopen()
		case "compact":
			// the engine's own full-compaction strategy on all current TSM files (a no-op with < 1 file)
			var group []string
			for _, f := range e.E.FileStore.Files() {
				group = append(group, f.Path())
			}
			sort.Strings(group)
			if len(group) > 0 {
				e.E.VerifApplyFullCompaction(group)
			}
		case "write":
			wn++
			v := float64(100*wn) + float64(op.T)
			if err = e.Write(s1, "v", engkit.Pt{T: op.T, V: v}); err == nil {
				m1[op.T] = v
			}
		case "del":
			if err = e.Delete(op.Min, op.Max, s1); err == nil {
				for t := range m1 {
					if t >= op.Min && t <= op.Max {
						delete(m1, t)
					}
				}
			}
		}
		if err != nil {
			add("history/op-error/"+op.Kind, fmt.Sprintf("step %d %s: %v", i, op, err))
			return verdicts, "error"
		}
		if !check(i, op.String()) {
			return verdicts, "violation"
		}
	}
	// a final restart must not bring anything back
	if err := e.Reopen(); err != nil {
		add("history/op-error/reopen", err.Error())
		return verdicts, "error"
	}
	check(len(hc.Ops), "final reopen")
	return verdicts, fmt.Sprintf("left=%d", len(m1))
}

func histories(thorough bool) []HCase {
	depth := 3
	if thorough {
		depth = 4
	}
	al := hAlphabet(thorough)
	var out []HCase
	for _, lay := range []string{"cache", "tsm+cache", "2tsm+cache", "1tsm-2blocks"} {
		var rec func(cur []HOp)
		rec = func(cur []HOp) {
			if len(cur) > 0 {
				// keep histories that contain at least one delete
				has := false
				for _, o := range cur {
					has = has || o.Kind == "del"
				}
				if has {
					out = append(out, HCase{Layout: lay, Ops: append([]HOp{}, cur...)})
				}
			}
			if len(cur) == depth {
				return
			}
			for _, o := range al {
				if len(cur) > 0 && cur[len(cur)-1].Kind == o.Kind && (o.Kind == "snap" || o.Kind == "reopen" || o.Kind == "compact") {
					continue
				}
				rec(append(cur, o))
			}
		}
		rec(nil)
	}
	return out
}

func scenarios(thorough bool) []Scenario {
	var out []Scenario
	for _, lay := range []string{"cache", "tsm+cache", "2tsm+cache"} {
		for _, rg := range [][2]int64{{2, 2}, {math.MinInt64, math.MaxInt64}, {1, 2}} {
			for _, w := range []string{"", "in-range", "out-of-range"} {
				if w != "" && !thorough && lay == "2tsm+cache" {
					continue
				}
				out = append(out, Scenario{Layout: lay, Min: rg[0], Max: rg[1], Other: "snapshot", Writer: w})
			}
		}
	}
	return out
}

func explore(t *testing.T, sc Scenario, bound int, stop func() bool, visit func(*vrt.Result, result)) vrt.Stats {
	st := vrt.Stats{Bound: bound, Complete: true}
	var rec func(prefix []int)
	rec = func(prefix []int) {
		if stop() {
			st.Complete = false
			return
		}
		x, res := runScenario(t, sc, prefix)
		st.Executions++
		st.Transitions += int64(len(x.Steps))
		visit(x, res)
		if x.Diverged != "" {
			return
		}
		pre := 0
		for i := 0; i < len(x.Steps); i++ {
			sp := x.Steps[i]
			if i >= len(prefix) {
				if len(sp.Enabled) > 1 {
					st.Nodes++
				}
				for alt := 1; alt < len(sp.Enabled); alt++ {
					if pre+sp.Costs[alt] > bound {
						continue
					}
					rec(append(append([]int{}, x.Choices[:i]...), alt))
				}
			}
			if sp.Preempt {
				pre++
			}
		}
	}
	rec(nil)
	return st
}

func TestCheck(t *testing.T) {
	vlib.Main(t, &vlib.Check{
		ID: "C03", Level: "model_checking",
		Rule: "(1) sequential histories: every sequence of ≤3 (thorough ≤4) ops over {snapshot, reopen, overwrite s1 t=2, delete s1 over [1,3],[1,2],[1,1],[2,3],[2,2] (ranges sharing a bound)} containing a delete (plus full compaction of all TSM files as an op), from 4 layouts incl. one TSM file holding the series in two blocks (the build uses DefaultMaxPointsPerBlock=2 so that multi-block keys are reachable with 3 points), on a real engine; after EVERY step and after a final restart both series are read and compared with a map model. (2) scenarios = 3 initial layouts (cache only; 1 TSM file + cache; 2 TSM files + cache) × delete ranges {[2,2],[all],[1,2]} of series s1 (points t=1,2,3; control series s2) × {no writer, concurrent writer of s1 t=2 (in range), concurrent writer of s1 t=4 (out of range)} with the delete (Engine.DeleteSeriesRange) running concurrently with Engine.WriteSnapshot on a real tsm1.Engine (tsi1, series file, WAL); every interleaving with ≤ B preemptions (B=1 quick, 2 thorough) at the sync/atomic operations of engine.go and cache.go; after the threads finish the series are read, then a later snapshot is written and the data read again, then the engine is reopened and read again. states = decision nodes, transitions = scheduling steps, traces = executions; non-trivial = executions with ≥1 preemption",
		Assumptions: []string{"sequentially consistent interleavings at the granularity of Engine/Cache mutex and atomic operations; goroutines inside FileStore/Compactor/WAL run unscheduled between those points",
			"level/full compactions concurrent with the delete are not yet part of this check (the engine aborts them before deleting)"},
		QuickBudgetS: 100, ThoroughBudgetS: 1200, WorkerEnv: []string{"GOMAXPROCS=1"},
		Run: func(c *vlib.Ctx) {
			bound := 1
			if c.Thorough() {
				bound = 2
			}
			scs := scenarios(c.Thorough())
			for si, sc := range scs {
				if !c.Mine(int64(si)) {
					continue
				}
				if c.Expired() {
					c.Cap("budget expired before all scenarios of this shard were explored")
					break
				}
				st := explore(t, sc, bound, c.Expired, func(r *vrt.Result, res result) {
					c.Eval(1)
					if r.Preempts > 0 {
						c.NontrivialN(1)
					}
					if r.Diverged != "" {
						c.HarnessError(sc.String() + ": " + r.Diverged)
						return
					}
					c.Outcome(res.outcome)
					for _, v := range res.verdicts {
						p := strings.SplitN(v, "|", 2)
						if p[0] == "harness" {
							c.HarnessError(sc.String() + ": " + p[1])
							continue
						}
						cs := Case{Scenario: sc, Choices: r.Choices}
						for _, s := range r.Steps {
							cs.Trace = append(cs.Trace, fmt.Sprintf("T%d %s", s.Thread, s.Label))
						}
						sig := p[0]
						if strings.HasPrefix(sig, "deleted-point-returned/") {
							// attribute: was the returned point part of a cache snapshot taken before the delete reached the cache?
							snapAt, delAt := -1, -1
							for i, s := range r.Steps {
								if snapAt < 0 && strings.Contains(s.Label, "(*Cache).Snapshot:Lock") {
									snapAt = i
								}
								if delAt < 0 && strings.Contains(s.Label, "(*Cache).DeleteRange:Lock") {
									delAt = i
								}
							}
							if snapAt >= 0 && (delAt < 0 || snapAt < delAt) && strings.Contains(p[1], "[cache-resident]") {
								sig = "deleted-point-returned/point-in-cache-snapshot-taken-before-Cache.DeleteRange"
							}
						}
						if !strings.HasPrefix(sig, "deleted-point-returned/point-in-cache-snapshot") {
							sig += "/delete||" + sc.Other
							if sc.Writer != "" {
								sig += "||write-" + sc.Writer
							}
						}
						if !strings.HasPrefix(sig, "deleted-point-returned/point-in-cache-snapshot") {
							sig += "/layout=" + sc.Layout
						}
						c.Violation(sig, sc.String()+": "+p[1], cs)
					}
					if c.WantSample() && r.Preempts > 0 {
						c.Sample(map[string]any{"scenario": sc.String(), "schedule": r.Choices, "outcome": res.outcome})
					}
				})
				if !st.Complete {
					c.Cap("budget expired inside scenario " + sc.String())
				}
				c.StateN(st.Nodes)
				c.Transition(st.Transitions)
				c.Trace(st.Executions)
			}
			hs := histories(c.Thorough())
			if c.Shard == 0 {
				c.Extra("sequential_histories", int64(len(hs)))
			}
			for hi, hc := range hs {
				if !c.Mine(int64(hi)) {
					continue
				}
				if c.Expired() {
					c.Cap("budget expired during the sequential histories")
					break
				}
				vs, out := runHistory(hc)
				c.Eval(1)
				c.NontrivialN(1)
				c.StateN(int64(len(hc.Ops)))
				c.Transition(int64(len(hc.Ops)))
				c.Trace(1)
				c.Outcome("history:" + out)
				for _, v := range vs {
					p := strings.SplitN(v, "|", 2)
					if p[0] == "harness" {
						c.HarnessError(p[1])
						continue
					}
					c.Violation(p[0]+"/layout="+hc.Layout, fmt.Sprintf("history layout=%s %v: %s", hc.Layout, hc.Ops, p[1]), map[string]any{"history": hc})
				}
			}
		},
		Replay: func(c *vlib.Ctx, raw json.RawMessage) (bool, string) {
			var hw struct {
				History *HCase `json:"history"`
			}
			if json.Unmarshal(raw, &hw) == nil && hw.History != nil {
				vs, out := runHistory(*hw.History)
				return len(vs) > 0, strings.Join(vs, " ;; ") + " outcome=" + out
			}
			var cs Case
			if err := json.Unmarshal(raw, &cs); err != nil {
				return false, err.Error()
			}
			r, res := runScenario(t, cs.Scenario, cs.Choices)
			if r.Diverged != "" {
				return false, "diverged: " + r.Diverged
			}
			var v []string
			for _, x := range res.verdicts {
				if !strings.HasPrefix(x, "harness|") {
					v = append(v, x)
				}
			}
			return len(v) > 0, strings.Join(v, " ;; ") + " outcome=" + res.outcome
		},
	})
}
