// C20: windowed aggregate pushdown equals aggregating the raw data.
//
// The real storage-layer path (reads.NewWindowAggregateResultSet -> createCursor -> multi-shard array cursor ->
// newWindowAggregateArrayCursor -> *Window{Count,Sum,Min,Max,First,Last,Mean}ArrayCursor.Next) is driven over a mock
// array cursor for every dataset / chunking / window / aggregate of the declared families and compared with a
// reference that buckets the raw points by its own window arithmetic and aggregates them.
//
// Build note: /verif/h/c20/shim.json turns the constant reads.MaxPointsPerBlock into a package variable (same initial
// value 1000). The exhaustive families run with a small block size so that every carry-over (tmp) path is reachable
// with <= 8 points; the structured families run with the shipped value 1000.
package c20

import (
	"context"
	"encoding/json"
	"fmt"
	"math"
	"math/bits"
	"runtime"
	"runtime/debug"
	"sort"
	"testing"
	"time"

	"github.com/influxdata/flux/interval"
	"github.com/influxdata/flux/values"
	"github.com/influxdata/influxdb/v2/storage/reads"
	"github.com/influxdata/influxdb/v2/storage/reads/datatypes"
	"github.com/influxdata/influxdb/v2/tsdb/cursors"
	"verif/h/vlib"
)

// periodMismatchIsViolation: the storage request (datatypes.Window / WindowEvery) carries no period and
// windowAggregateResultSet.createCursor always builds period = every (aggregate_resultset.go), and the planner refuses
// the pushdown when every != period (query/stdlib/influxdata/influxdb/rules.go). A window with period != every can
// therefore only be handed to the cursors by calling the unexported constructor directly; that family is evaluated
// and reported as outcome classes but is not a violation of the statement about "the storage layer's windowed
// aggregate".
const periodMismatchIsViolation = false

// ---------------------------------------------------------------------------------------------------------------
// case description

const (
	aggCount = iota
	aggSum
	aggMin
	aggMax
	aggFirst
	aggLast
	aggMean
	nAggs
)

var aggNames = [nAggs]string{"count", "sum", "min", "max", "first", "last", "mean"}
var aggPB = [nAggs]datatypes.Aggregate_AggregateType{
	datatypes.Aggregate_AggregateTypeCount, datatypes.Aggregate_AggregateTypeSum, datatypes.Aggregate_AggregateTypeMin,
	datatypes.Aggregate_AggregateTypeMax, datatypes.Aggregate_AggregateTypeFirst, datatypes.Aggregate_AggregateTypeLast,
	datatypes.Aggregate_AggregateTypeMean,
}

func aggIndex(name string) int {
	for i, n := range aggNames {
		if n == name {
			return i
		}
	}
	return -1
}

var typeNames = []string{"float", "integer", "unsigned", "string", "boolean"}

// value domains, addressed by index 0..2 (statement domain {-2,0,3}; unsigned has no negative values; for booleans
// index 2 repeats true)
var (
	domF = []float64{-2, 0, 3}
	domI = []int64{-2, 0, 3}
	domU = []uint64{2, 0, 3}
	domS = []string{"b", "", "c"}
	domB = []bool{true, false, true}
)

func aggsOf(typ string) []int {
	if typ == "string" || typ == "boolean" {
		return []int{aggCount, aggFirst, aggLast}
	}
	return []int{aggCount, aggSum, aggMin, aggMax, aggFirst, aggLast, aggMean}
}

// Win describes the window. Every is either nanoseconds or months. Offset nanoseconds and months have the same sign.
type Win struct {
	EveryNs  int64 `json:"every_ns,omitempty"`
	EveryMo  int64 `json:"every_months,omitempty"`
	OffNs    int64 `json:"offset_ns,omitempty"`
	OffMo    int64 `json:"offset_months,omitempty"`
	PeriodNs int64 `json:"period_ns,omitempty"` // 0: period = every. Only the "direct" form can set it.
	// Form: "nsec" = req.WindowEvery/req.Offset; "window" = req.Window{Every,Offset};
	// "direct" = unexported newWindowAggregateArrayCursor(interval.Window)
	Form string `json:"form"`
}

func (w Win) whole() bool { return w.EveryNs == math.MaxInt64 }

// Gen is a generated (structured) dataset: ts[i] = Base + i*Step, value index (i + i/3 + i/7) % 3.
type Gen struct {
	N    int   `json:"n"`
	Base int64 `json:"base"`
	Step int64 `json:"step"`
}

type Case struct {
	Fam    string  `json:"family"`
	M      int     `json:"max_points_per_block"`
	Type   string  `json:"type"`
	Agg    string  `json:"aggregate"`
	Win    Win     `json:"window"`
	TS     []int64 `json:"timestamps,omitempty"`
	VI     []int   `json:"value_indexes,omitempty"`
	Gen    *Gen    `json:"generated,omitempty"`
	Mode   int     `json:"shard_mode"` // 0: one cursor returns all arrays; 1: one shard per array; 2: like 1 with a shard without data before each
	Chunks []int   `json:"chunks"`     // lengths of the input arrays in order
	// Prior: series (only data and chunks are used) served by the same result set before this one (only set when the
	// failure does not reproduce with a fresh result set)
	Prior []Case `json:"prior_series,omitempty"`
}

func (cs *Case) data() (ts []int64, vi []int) {
	if cs.Gen != nil {
		ts = make([]int64, cs.Gen.N)
		vi = make([]int, cs.Gen.N)
		for i := range ts {
			ts[i] = cs.Gen.Base + int64(i)*cs.Gen.Step
			vi[i] = (i + i/3 + i/7) % 3
		}
		return
	}
	return cs.TS, cs.VI
}

// ---------------------------------------------------------------------------------------------------------------
// reference model (written from the statement; never calls the code under test or flux's interval package)

func floorDiv(a, b int64) int64 {
	q := a / b
	if a%b != 0 && (a < 0) != (b < 0) {
		q--
	}
	return q
}

func monthStart(m int64) int64 { // m = months since 1970-01
	return time.Date(1970, time.Month(1+m), 1, 0, 0, 0, 0, time.UTC).UnixNano()
}

// zero is the start of window 0: the epoch plus the offset.
func (w Win) zero() int64 {
	z := w.OffNs
	if w.OffMo != 0 {
		z += monthStart(w.OffMo)
	}
	return z
}

// bounds returns the window [start, stop) of the period=every partition that contains t.
func (w Win) bounds(t int64) (start, stop int64) {
	if w.EveryMo == 0 {
		z := w.zero()
		start = z + floorDiv(t-z, w.EveryNs)*w.EveryNs
		return start, start + w.EveryNs
	}
	// calendar windows: window k starts OffMo + k*EveryMo months after 1970-01-01T00:00 plus OffNs (0 <= OffNs < 28d)
	startOf := func(k int64) int64 { return monthStart(w.OffMo+k*w.EveryMo) + w.OffNs }
	tt := time.Unix(0, t).UTC()
	m := int64(tt.Year()-1970)*12 + int64(tt.Month()) - 1
	k := floorDiv(m-w.OffMo, w.EveryMo) + 1
	for startOf(k) > t {
		k--
	}
	return startOf(k), startOf(k + 1)
}

type grp struct {
	stop int64
	idx  []int // indexes of the points of the window, ascending
}

// groups buckets the points (ascending times) into the windows that contain at least one point, ascending by window.
func (w Win) groups(ts []int64) []grp {
	var out []grp
	if len(ts) == 0 {
		return out
	}
	if w.whole() {
		g := grp{stop: math.MaxInt64}
		for i := range ts {
			g.idx = append(g.idx, i)
		}
		return []grp{g}
	}
	if w.PeriodNs == 0 || w.PeriodNs == w.EveryNs {
		for i, t := range ts {
			_, stop := w.bounds(t)
			if n := len(out); n > 0 && out[n-1].stop == stop {
				out[n-1].idx = append(out[n-1].idx, i)
			} else {
				out = append(out, grp{stop: stop, idx: []int{i}})
			}
		}
		return out
	}
	// overlapping / underlapping windows (nanosecond windows only): window k = [z+k*every, z+k*every+period)
	z := w.zero()
	kLo := floorDiv(ts[0]-z-w.PeriodNs, w.EveryNs) - 1
	kHi := floorDiv(ts[len(ts)-1]-z, w.EveryNs) + 1
	for k := kLo; k <= kHi; k++ {
		start := z + k*w.EveryNs
		g := grp{stop: start + w.PeriodNs}
		for i, t := range ts {
			if t >= start && t < g.stop {
				g.idx = append(g.idx, i)
			}
		}
		if len(g.idx) > 0 {
			out = append(out, g)
		}
	}
	return out
}

// outs holds an output stream: the concatenation of the arrays returned by Next, typed.
type outs struct {
	typ    string // float | integer | unsigned | string | boolean | nil
	ts     []int64
	f      []float64
	i      []int64
	u      []uint64
	s      []string
	b      []bool
	blocks []int
	over   bool // more Next calls than allowed
	ragged bool // an array with len(Timestamps) != len(Values)
}

func (o *outs) reset() {
	o.typ = ""
	o.ts, o.f, o.i, o.u, o.s, o.b, o.blocks = o.ts[:0], o.f[:0], o.i[:0], o.u[:0], o.s[:0], o.b[:0], o.blocks[:0]
	o.over, o.ragged = false, false
}

func (o *outs) String() string {
	var v any
	switch o.typ {
	case "float":
		v = o.f
	case "integer":
		v = o.i
	case "unsigned":
		v = o.u
	case "string":
		v = o.s
	case "boolean":
		v = o.b
	}
	return fmt.Sprintf("%s times=%v values=%v", o.typ, o.ts, v)
}

type number interface{ ~int64 | ~uint64 | ~float64 }

// refNumeric fills want for a numeric input type. put appends a value of the input type.
func refNumeric[V number](agg int, ts []int64, vs []V, gs []grp, want *outs, put func(o *outs, v V)) {
	for _, g := range gs {
		switch agg {
		case aggCount:
			want.ts = append(want.ts, g.stop)
			want.i = append(want.i, int64(len(g.idx)))
		case aggSum:
			var s V
			for _, i := range g.idx {
				s += vs[i]
			}
			want.ts = append(want.ts, g.stop)
			put(want, s)
		case aggMean:
			var s float64
			for _, i := range g.idx {
				s += float64(vs[i])
			}
			want.ts = append(want.ts, g.stop)
			want.f = append(want.f, s/float64(len(g.idx)))
		case aggMin, aggMax:
			// selector: the (first) point holding the extreme value
			best := g.idx[0]
			for _, i := range g.idx[1:] {
				if (agg == aggMin && vs[i] < vs[best]) || (agg == aggMax && vs[i] > vs[best]) {
					best = i
				}
			}
			want.ts = append(want.ts, ts[best])
			put(want, vs[best])
		case aggFirst:
			want.ts = append(want.ts, ts[g.idx[0]])
			put(want, vs[g.idx[0]])
		case aggLast:
			l := g.idx[len(g.idx)-1]
			want.ts = append(want.ts, ts[l])
			put(want, vs[l])
		}
	}
}

func refBasic[V any](agg int, ts []int64, vs []V, gs []grp, want *outs, put func(o *outs, v V)) {
	for _, g := range gs {
		switch agg {
		case aggCount:
			want.ts = append(want.ts, g.stop)
			want.i = append(want.i, int64(len(g.idx)))
		case aggFirst:
			want.ts = append(want.ts, ts[g.idx[0]])
			put(want, vs[g.idx[0]])
		case aggLast:
			l := g.idx[len(g.idx)-1]
			want.ts = append(want.ts, ts[l])
			put(want, vs[l])
		}
	}
}

func outType(typ string, agg int) string {
	switch agg {
	case aggCount:
		return "integer"
	case aggMean:
		return "float"
	}
	return typ
}

// dataset is one series in all five typed forms (ascending and descending)
type dataset struct {
	ts, rts []int64
	vi      []int
	f, rf   []float64
	i, ri   []int64
	u, ru   []uint64
	s, rs   []string
	b, rb   []bool
}

func rev[V any](a []V) []V {
	r := make([]V, len(a))
	for i, v := range a {
		r[len(a)-1-i] = v
	}
	return r
}

func newDataset(ts []int64, vi []int) *dataset {
	d := &dataset{ts: ts, vi: vi}
	n := len(ts)
	d.f, d.i, d.u, d.s, d.b = make([]float64, n), make([]int64, n), make([]uint64, n), make([]string, n), make([]bool, n)
	for k, x := range vi {
		d.f[k], d.i[k], d.u[k], d.s[k], d.b[k] = domF[x], domI[x], domU[x], domS[x], domB[x]
	}
	d.rts, d.rf, d.ri, d.ru, d.rs, d.rb = rev(d.ts), rev(d.f), rev(d.i), rev(d.u), rev(d.s), rev(d.b)
	return d
}

// reference computes the expected output stream of (type, agg, window) over the dataset.
func (d *dataset) reference(typ string, agg int, w Win, want *outs) {
	want.reset()
	want.typ = outType(typ, agg)
	gs := w.groups(d.ts)
	switch typ {
	case "float":
		refNumeric(agg, d.ts, d.f, gs, want, func(o *outs, v float64) { o.f = append(o.f, v) })
	case "integer":
		refNumeric(agg, d.ts, d.i, gs, want, func(o *outs, v int64) { o.i = append(o.i, v) })
	case "unsigned":
		refNumeric(agg, d.ts, d.u, gs, want, func(o *outs, v uint64) { o.u = append(o.u, v) })
	case "string":
		refBasic(agg, d.ts, d.s, gs, want, func(o *outs, v string) { o.s = append(o.s, v) })
	case "boolean":
		refBasic(agg, d.ts, d.b, gs, want, func(o *outs, v bool) { o.b = append(o.b, v) })
	}
}

// ---------------------------------------------------------------------------------------------------------------
// mock storage cursors. Like the TSM cursors, a mock returns the SAME array object on every call and overwrites its
// buffer, so a consumer must not rely on an earlier array after calling Next again.

type mockBase struct {
	d      *dataset
	sizes  []int // lengths of the arrays to return
	pos    int   // next point
	k      int   // next array
	desc   bool
	closed bool
}

func (m *mockBase) Close()                     { m.closed = true }
func (m *mockBase) Err() error                 { return nil }
func (m *mockBase) Stats() cursors.CursorStats { return cursors.CursorStats{} }
func (m *mockBase) span() (lo, hi int) {
	if m.k >= len(m.sizes) {
		return 0, 0
	}
	lo, hi = m.pos, m.pos+m.sizes[m.k]
	m.pos, m.k = hi, m.k+1
	return
}
func (m *mockBase) times() []int64 {
	if m.desc {
		return m.d.rts
	}
	return m.d.ts
}

func fill[V any](bt *[]int64, bv *[]V, ts []int64, vs []V) {
	*bt = append((*bt)[:0], ts...)
	*bv = append((*bv)[:0], vs...)
}

type mockF struct {
	mockBase
	a cursors.FloatArray
}

func (m *mockF) Next() *cursors.FloatArray {
	lo, hi := m.span()
	v := m.d.f
	if m.desc {
		v = m.d.rf
	}
	fill(&m.a.Timestamps, &m.a.Values, m.times()[lo:hi], v[lo:hi])
	return &m.a
}

type mockI struct {
	mockBase
	a cursors.IntegerArray
}

func (m *mockI) Next() *cursors.IntegerArray {
	lo, hi := m.span()
	v := m.d.i
	if m.desc {
		v = m.d.ri
	}
	fill(&m.a.Timestamps, &m.a.Values, m.times()[lo:hi], v[lo:hi])
	return &m.a
}

type mockU struct {
	mockBase
	a cursors.UnsignedArray
}

func (m *mockU) Next() *cursors.UnsignedArray {
	lo, hi := m.span()
	v := m.d.u
	if m.desc {
		v = m.d.ru
	}
	fill(&m.a.Timestamps, &m.a.Values, m.times()[lo:hi], v[lo:hi])
	return &m.a
}

type mockS struct {
	mockBase
	a cursors.StringArray
}

func (m *mockS) Next() *cursors.StringArray {
	lo, hi := m.span()
	v := m.d.s
	if m.desc {
		v = m.d.rs
	}
	fill(&m.a.Timestamps, &m.a.Values, m.times()[lo:hi], v[lo:hi])
	return &m.a
}

type mockB struct {
	mockBase
	a cursors.BooleanArray
}

func (m *mockB) Next() *cursors.BooleanArray {
	lo, hi := m.span()
	v := m.d.b
	if m.desc {
		v = m.d.rb
	}
	fill(&m.a.Timestamps, &m.a.Values, m.times()[lo:hi], v[lo:hi])
	return &m.a
}

// mocks is a pool of one mock cursor per type (reused from series to series; each keeps its array buffer)
type mocks struct {
	f mockF
	i mockI
	u mockU
	s mockS
	b mockB
}

func (p *mocks) get(typ string, b mockBase) cursors.Cursor {
	if p == nil {
		p = &mocks{}
	}
	switch typ {
	case "float":
		p.f.mockBase = b
		return &p.f
	case "integer":
		p.i.mockBase = b
		return &p.i
	case "unsigned":
		p.u.mockBase = b
		return &p.u
	case "string":
		p.s.mockBase = b
		return &p.s
	case "boolean":
		p.b.mockBase = b
		return &p.b
	}
	panic("bad type " + typ)
}

// shardIter is one shard: it serves the arrays `sizes` of the chunking starting at point `from` (ascending position;
// for a descending request the reversed series is chunked with the same sizes), or no cursor at all.
type shardIter struct {
	typ   string
	d     *dataset
	sizes []int
	from  int
	none  bool
	pool  *mocks // nil: a fresh mock per call
}

func (s *shardIter) Stats() cursors.CursorStats { return cursors.CursorStats{} }
func (s *shardIter) Next(ctx context.Context, r *cursors.CursorRequest) (cursors.Cursor, error) {
	if s.none {
		return nil, nil
	}
	return s.pool.get(s.typ, mockBase{d: s.d, sizes: s.sizes, pos: s.from, desc: !r.Ascending}), nil
}

// row is one series handed to the result set: a dataset and its split into input arrays
type row struct {
	d      *dataset
	gen    *Gen // set if the dataset is a generated one
	chunks []int
}

// rowCursor is the SeriesCursor handed to the result set: one series per row.
type rowCursor struct {
	typ  string
	rows []row
	mode int
	i    int
	sr   reads.SeriesRow
	it   shardIter
	q    [1]cursors.CursorIterator
	pool mocks
}

func (r *rowCursor) Close()     {}
func (r *rowCursor) Err() error { return nil }
func (r *rowCursor) Next() *reads.SeriesRow {
	if r.i >= len(r.rows) {
		return nil
	}
	rw := r.rows[r.i]
	r.i++
	r.sr = reads.SeriesRow{Name: []byte("m"), Field: "f"}
	if r.mode == 0 || len(rw.chunks) == 0 {
		r.it = shardIter{typ: r.typ, d: rw.d, sizes: rw.chunks, pool: &r.pool}
		r.q[0] = &r.it
		r.sr.Query = r.q[:]
		return &r.sr
	}
	var q cursors.CursorIterators
	from := 0
	for k := range rw.chunks {
		if r.mode == 2 {
			q = append(q, &shardIter{none: true})
		}
		q = append(q, &shardIter{typ: r.typ, d: rw.d, sizes: rw.chunks[k : k+1], from: from})
		from += rw.chunks[k]
	}
	r.sr.Query = q
	return &r.sr
}

// ---------------------------------------------------------------------------------------------------------------
// driving the real code

func fluxDur(ns, mo int64) values.Duration {
	neg := ns < 0 || mo < 0
	if neg {
		ns, mo = -ns, -mo
	}
	return values.MakeDuration(ns, mo, neg)
}

func pbDur(ns, mo int64) *datatypes.Duration {
	neg := ns < 0 || mo < 0
	if neg {
		ns, mo = -ns, -mo
	}
	return &datatypes.Duration{Nsecs: ns, Months: mo, Negative: neg}
}

func request(agg int, w Win) *datatypes.ReadWindowAggregateRequest {
	req := &datatypes.ReadWindowAggregateRequest{
		Range:     &datatypes.TimestampRange{Start: math.MinInt64, End: math.MaxInt64},
		Aggregate: []*datatypes.Aggregate{{Type: aggPB[agg]}},
	}
	if w.Form == "window" {
		req.Window = &datatypes.Window{Every: pbDur(w.EveryNs, w.EveryMo)}
		if w.OffNs != 0 || w.OffMo != 0 {
			req.Window.Offset = pbDur(w.OffNs, w.OffMo)
		}
	} else {
		req.WindowEvery, req.Offset = w.EveryNs, w.OffNs
	}
	return req
}

// drain reads the cursor to exhaustion (at most maxCalls non-empty arrays) and concatenates the arrays.
func (o *outs) drain(cur cursors.Cursor, maxCalls int) {
	o.reset()
	calls := 0
	more := func(nt, nv int) bool {
		if nt == 0 {
			return false
		}
		if nt != nv {
			o.ragged = true
			return false
		}
		calls++
		if calls > maxCalls {
			o.over = true
			return false
		}
		o.blocks = append(o.blocks, nt)
		return true
	}
	switch c := cur.(type) {
	case nil:
		o.typ = "nil"
	case cursors.FloatArrayCursor:
		o.typ = "float"
		for {
			a := c.Next()
			if !more(len(a.Timestamps), len(a.Values)) {
				break
			}
			o.ts, o.f = append(o.ts, a.Timestamps...), append(o.f, a.Values...)
		}
	case cursors.IntegerArrayCursor:
		o.typ = "integer"
		for {
			a := c.Next()
			if !more(len(a.Timestamps), len(a.Values)) {
				break
			}
			o.ts, o.i = append(o.ts, a.Timestamps...), append(o.i, a.Values...)
		}
	case cursors.UnsignedArrayCursor:
		o.typ = "unsigned"
		for {
			a := c.Next()
			if !more(len(a.Timestamps), len(a.Values)) {
				break
			}
			o.ts, o.u = append(o.ts, a.Timestamps...), append(o.u, a.Values...)
		}
	case cursors.StringArrayCursor:
		o.typ = "string"
		for {
			a := c.Next()
			if !more(len(a.Timestamps), len(a.Values)) {
				break
			}
			o.ts, o.s = append(o.ts, a.Timestamps...), append(o.s, a.Values...)
		}
	case cursors.BooleanArrayCursor:
		o.typ = "boolean"
		for {
			a := c.Next()
			if !more(len(a.Timestamps), len(a.Values)) {
				break
			}
			o.ts, o.b = append(o.ts, a.Timestamps...), append(o.b, a.Values...)
		}
	default:
		o.typ = fmt.Sprintf("%T", cur)
	}
}

func eqS[V comparable](a, b []V) bool {
	if len(a) != len(b) {
		return false
	}
	for i := range a {
		if a[i] != b[i] {
			return false
		}
	}
	return true
}

// compare returns "" if got is what the statement demands, else the violated clause.
func compare(got, want *outs, w Win, agg int) string {
	if got.over {
		return "does-not-terminate"
	}
	if got.ragged {
		return "ragged-array"
	}
	if got.typ == "nil" {
		if len(want.ts) == 0 {
			return ""
		}
		return "windows"
	}
	if got.typ != want.typ {
		return "value-type"
	}
	if len(got.ts) != len(want.ts) {
		return "windows"
	}
	// for an unbounded window (every = MaxInt64) the statement names no stop time for count/sum/mean: accept any
	if !(w.whole() && (agg == aggCount || agg == aggSum || agg == aggMean)) && !eqS(got.ts, want.ts) {
		return "timestamps"
	}
	ok := true
	switch want.typ {
	case "float":
		ok = eqS(got.f, want.f)
	case "integer":
		ok = eqS(got.i, want.i)
	case "unsigned":
		ok = eqS(got.u, want.u)
	case "string":
		ok = eqS(got.s, want.s)
	case "boolean":
		ok = eqS(got.b, want.b)
	}
	if !ok {
		return "values"
	}
	return ""
}

// session is one result set (one request) serving a sequence of series.
type session struct {
	rs  reads.ResultSet
	err error
}

func openSession(typ string, agg int, w Win, rows []row, mode int) (s *session) {
	s = &session{}
	rc := &rowCursor{typ: typ, rows: rows, mode: mode}
	s.rs, s.err = reads.NewWindowAggregateResultSet(context.Background(), request(agg, w), rc)
	return s
}

// next advances to the next series and drains its cursor into got. A panic of the repo code is returned as text.
func (s *session) next(got *outs, maxCalls int) (panicked string) {
	defer func() {
		if r := recover(); r != nil {
			panicked = fmt.Sprint(r)
		}
	}()
	got.reset()
	if s.err != nil {
		got.typ = "error: " + s.err.Error()
		return
	}
	if !s.rs.Next() {
		got.typ = fmt.Sprintf("error: result set has no row (err=%v)", s.rs.Err())
		return
	}
	cur := s.rs.Cursor()
	got.drain(cur, maxCalls)
	if cur != nil {
		cur.Close()
	}
	return
}

// direct drives the unexported constructor with an arbitrary interval.Window (period may differ from every).
func direct(typ string, d *dataset, agg int, w Win, chunks []int, got *outs, maxCalls int) (panicked string) {
	defer func() {
		if r := recover(); r != nil {
			panicked = fmt.Sprint(r)
		}
	}()
	got.reset()
	period := w.PeriodNs
	if period == 0 {
		period = w.EveryNs
	}
	win, err := interval.NewWindow(fluxDur(w.EveryNs, w.EveryMo), fluxDur(period, w.EveryMo), fluxDur(w.OffNs, w.OffMo))
	if err != nil {
		got.typ = "error: " + err.Error()
		return
	}
	in := (*mocks)(nil).get(typ, mockBase{d: d, sizes: chunks})
	cur, err := reads.VerifC20NewWindowAggregateArrayCursor(context.Background(), &datatypes.Aggregate{Type: aggPB[agg]}, win, in)
	if err != nil {
		got.typ = "error: " + err.Error()
		return
	}
	got.drain(cur, maxCalls)
	return
}

// runCase re-executes one case from scratch (fresh result set): used for confirmation and replay.
func runCase(cs *Case) (clause, obs string) {
	old := reads.MaxPointsPerBlock
	reads.MaxPointsPerBlock = cs.M
	defer func() { reads.MaxPointsPerBlock = old }()
	d := newDataset(cs.data())
	agg := aggIndex(cs.Agg)
	var got, want outs
	d.reference(cs.Type, agg, cs.Win, &want)
	maxCalls := len(want.ts) + 3
	var p string
	if cs.Win.Form == "direct" {
		p = direct(cs.Type, d, agg, cs.Win, cs.Chunks, &got, maxCalls)
	} else {
		var rows []row
		for i := range cs.Prior {
			pc := &cs.Prior[i]
			rows = append(rows, row{d: newDataset(pc.data()), chunks: pc.Chunks})
		}
		rows = append(rows, row{d: d, chunks: cs.Chunks})
		s := openSession(cs.Type, agg, cs.Win, rows, cs.Mode)
		for k := range rows {
			mc := maxCalls
			if k < len(rows)-1 {
				mc = len(rows[k].d.ts) + 3
			}
			if p = s.next(&got, mc); p != "" {
				break
			}
		}
	}
	if p != "" {
		return "panic", "panic: " + p
	}
	clause = compare(&got, &want, cs.Win, agg)
	return clause, fmt.Sprintf("got %s blocks=%v | expected %s", got.String(), got.blocks, want.String())
}

// ---------------------------------------------------------------------------------------------------------------
// enumeration

// compositions of n in "simplest first" order (fewest arrays first)
var compCache = map[int][][]int{}

func compositions(n int) [][]int {
	if c, ok := compCache[n]; ok {
		return c
	}
	var out [][]int
	if n == 0 {
		out = [][]int{{}}
	} else {
		masks := make([]int, 0, 1<<(n-1))
		for m := 0; m < 1<<(n-1); m++ {
			masks = append(masks, m)
		}
		sort.SliceStable(masks, func(a, b int) bool { return bits.OnesCount(uint(masks[a])) < bits.OnesCount(uint(masks[b])) })
		for _, m := range masks {
			var c []int
			run := 1
			for g := 0; g < n-1; g++ {
				if m&(1<<g) != 0 {
					c = append(c, run)
					run = 1
				} else {
					run++
				}
			}
			out = append(out, append(c, run))
		}
	}
	compCache[n] = out
	return out
}

type explorer struct {
	c         *vlib.Ctx
	got, want outs
	// outcome counters: [kind: 0 plain, 1 several points merged into a window, 2 unbounded window][agg][blocks 0..3]
	oc       [3][nAggs][4]int64
	f6Agree  int64
	f6Differ int64
	evals    int64
	nontriv  int64
	fullSeen map[int]bool // block sizes M for which a completely filled output block was observed
	needFull map[int]bool // block sizes M for which some correct case had at least M windows
	famEvals map[string]int64
	seenSig  map[string]bool
	complete bool
	sessions int64
}

func (e *explorer) flush() {
	c := e.c
	c.Eval(e.evals)
	c.NontrivialN(e.nontriv)
	c.Extra("result_sets_opened", e.sessions)
	e.evals, e.nontriv, e.sessions = 0, 0, 0
	kinds := [3]string{"", ":merging", ":unbounded-window"}
	for k := range e.oc {
		for a := range e.oc[k] {
			for b, n := range e.oc[k][a] {
				if n > 0 {
					c.OutcomeN(fmt.Sprintf("%s:blocks=%d%s", aggNames[a], b, kinds[k]), n)
				}
			}
		}
	}
	e.oc = [3][nAggs][4]int64{}
	if e.f6Agree > 0 {
		c.OutcomeN("period!=every(direct constructor only, not judged):agrees-with-overlapping-window-reference", e.f6Agree)
	}
	if e.f6Differ > 0 {
		c.OutcomeN("period!=every(direct constructor only, not judged):differs-from-overlapping-window-reference", e.f6Differ)
	}
	e.f6Agree, e.f6Differ = 0, 0
	for k, v := range e.famEvals {
		c.Extra("evaluations_family_"+k, v)
		delete(e.famEvals, k)
	}
}

func sig(cs *Case, clause string, nwant int) string {
	// aggregate / input type / violated clause / does the output span several blocks (carry-over paths)
	return vlib.JoinSig(cs.Agg, cs.Type, clause, fmt.Sprintf("multiblock=%v", nwant > cs.M))
}

// sweep evaluates a sequence of series (rows) for one (family, M, type, agg, window, shard mode) through ONE result
// set; rows of the same dataset are adjacent, the reference is computed once per dataset.
func (e *explorer) sweep(fam string, M int, rows []row, typ string, agg int, w Win, mode int) {
	c := e.c
	if c.Expired() {
		e.complete = false
		return
	}
	judged := !(w.PeriodNs != 0 && w.PeriodNs != w.EveryNs) || periodMismatchIsViolation
	mk := func(k int, prior []row) *Case {
		cs := &Case{Fam: fam, M: M, Type: typ, Agg: aggNames[agg], Win: w, Mode: mode, Chunks: rows[k].chunks}
		fillData := func(pc *Case, r row) {
			if r.gen != nil {
				pc.Gen = r.gen
			} else {
				pc.TS, pc.VI = r.d.ts, r.d.vi
			}
		}
		fillData(cs, rows[k])
		for _, p := range prior {
			pc := Case{Chunks: p.chunks}
			fillData(&pc, p)
			cs.Prior = append(cs.Prior, pc)
		}
		return cs
	}
	var s *session
	var cur *dataset
	maxCalls := 0
	for k := range rows {
		d := rows[k].d
		if d != cur {
			cur = d
			d.reference(typ, agg, w, &e.want)
			maxCalls = len(e.want.ts) + 3
		}
		var p string
		if w.Form == "direct" {
			p = direct(typ, d, agg, w, rows[k].chunks, &e.got, maxCalls)
		} else {
			if s == nil {
				s = openSession(typ, agg, w, rows[k:], mode)
				e.sessions++
			}
			p = s.next(&e.got, maxCalls)
		}
		clause := ""
		if p != "" {
			clause = "panic"
		} else {
			clause = compare(&e.got, &e.want, w, agg)
		}
		// accounting
		e.evals++
		e.famEvals[fam]++
		if len(d.ts) > 0 {
			e.nontriv++
		}
		nb := min(len(e.got.blocks), 3)
		for _, b := range e.got.blocks {
			if b == M {
				e.fullSeen[M] = true
			}
		}
		if clause == "" && len(e.want.ts) >= M && !w.whole() {
			e.needFull[M] = true
		}
		switch {
		case !judged || (w.Form == "direct" && w.PeriodNs != 0 && w.PeriodNs != w.EveryNs):
			if clause == "" {
				e.f6Agree++
			} else {
				e.f6Differ++
			}
		case w.whole():
			e.oc[2][agg][nb]++
		case len(e.want.ts) < len(d.ts):
			e.oc[1][agg][nb]++
		default:
			e.oc[0][agg][nb]++
		}
		if clause == "" {
			if len(e.got.blocks) > 1 && len(rows[k].chunks) > 1 && c.WantSample() {
				c.Sample(map[string]any{"family": fam, "type": typ, "aggregate": aggNames[agg], "window": w, "max_points_per_block": M,
					"points": len(d.ts), "input_arrays": rows[k].chunks, "output_blocks": append([]int{}, e.got.blocks...), "output": e.got.String()})
			}
			continue
		}
		// a failing case: the next row starts a fresh result set
		s = nil
		if !judged {
			continue
		}
		cs := mk(k, nil)
		sg := sig(cs, clause, len(e.want.ts))
		if e.seenSig[sg] {
			c.Violation(sg, "", nil) // counts only
			continue
		}
		cl, obs := runCase(cs)
		if cl == "" && k > 0 && w.Form != "direct" { // only fails after earlier series of the same result set?
			cs = mk(k, rows[k-1:k])
			if cl, obs = runCase(cs); cl == "" {
				first := 0
				for j := k; j > 0 && rows[j-1].d == d; j-- {
					first = j - 1
				}
				cs = mk(k, rows[first:k])
				cl, obs = runCase(cs)
			}
			if cl != "" {
				clause = "after-earlier-series:" + clause
			}
		}
		if cl == "" {
			c.HarnessError(fmt.Sprintf("case failed (%s) in the explorer but not when re-executed: %+v", clause, *cs))
			continue
		}
		sg = sig(cs, clause, len(e.want.ts))
		e.seenSig[sg] = true
		c.Violation(sg, fmt.Sprintf("%s %s, window %+v, MaxPointsPerBlock=%d, times=%v valueIdx=%v gen=%v arrays=%v shardmode=%d priorSeries=%d: clause %q: %s",
			cs.Type, cs.Agg, cs.Win, cs.M, cs.TS, cs.VI, cs.Gen, cs.Chunks, cs.Mode, len(cs.Prior), clause, obs), cs)
	}
}

func nsWindows(everys, offs []int64, form string) []Win {
	var out []Win
	for _, ev := range everys {
		for _, o := range offs {
			out = append(out, Win{EveryNs: ev, OffNs: o, Form: form})
		}
	}
	return out
}

// subsets of {0..T-1} ordered by size, then numerically
func masksBySize(T int) []int {
	var out []int
	for n := 0; n <= T; n++ {
		for m := 0; m < 1<<T; m++ {
			if bits.OnesCount(uint(m)) == n {
				out = append(out, m)
			}
		}
	}
	return out
}

// datasetRows enumerates every subset of universe (ascending times) with value assignments and returns, for the
// datasets of this shard, one row per split of the dataset into input arrays (all compositions).
// nvals > 0: every assignment over nvals value indexes; nvals == 0: the fixed assignment position%3;
// nvals < 0: the three fixed assignments (position+s)%3, s = 0,1,2.
func datasetRows(c *vlib.Ctx, idx *int64, universe []int64, nvals int) []row {
	var out []row
	for pass := 0; pass < 2; pass++ {
		id, count := *idx, 0
		for _, m := range masksBySize(len(universe)) {
			var ts []int64
			for b := 0; b < len(universe); b++ {
				if m&(1<<b) != 0 {
					ts = append(ts, universe[b])
				}
			}
			n := len(ts)
			total := 1
			if nvals > 0 {
				for k := 0; k < n; k++ {
					total *= nvals
				}
			} else if nvals < 0 && n > 0 {
				total = 3
			}
			for a := 0; a < total; a++ {
				id++
				if !c.Mine(id) {
					continue
				}
				if pass == 0 {
					count += len(compositions(n))
					continue
				}
				vi := make([]int, n)
				x := a
				for k := 0; k < n; k++ {
					if nvals > 0 {
						vi[k] = x % nvals
						x /= nvals
					} else {
						vi[k] = (k + a) % 3
					}
				}
				d := newDataset(ts, vi)
				for _, ch := range compositions(n) {
					out = append(out, row{d: d, chunks: ch})
				}
			}
		}
		if pass == 0 {
			out = make([]row, 0, count)
		} else {
			*idx = id
		}
	}
	return out
}

func seq(n int) []int64 {
	out := make([]int64, n)
	for i := range out {
		out[i] = int64(i)
	}
	return out
}

func utc(y int, mo time.Month, d, h, mi, s, ns int) int64 {
	return time.Date(y, mo, d, h, mi, s, ns, time.UTC).UnixNano()
}

const smallM = 3

func run(c *vlib.Ctx) {
	if reads.MaxPointsPerBlock != 1000 {
		c.HarnessError(fmt.Sprintf("reads.MaxPointsPerBlock is %d at start, expected the shipped value 1000", reads.MaxPointsPerBlock))
		return
	}
	// a worker is single-threaded; without this, 16 workers x GOMAXPROCS GC threads thrash the machine
	defer runtime.GOMAXPROCS(runtime.GOMAXPROCS(2))
	defer debug.SetGCPercent(debug.SetGCPercent(400)) // tiny live heap, many small short-lived objects
	e := &explorer{c: c, fullSeen: map[int]bool{}, needFull: map[int]bool{}, famEvals: map[string]int64{}, seenSig: map[string]bool{}, complete: true}
	defer func() { reads.MaxPointsPerBlock = 1000 }()
	var idx int64

	all := func(fam string, M int, rows []row, wins []Win, modes []int) {
		reads.MaxPointsPerBlock = M
		for _, typ := range typeNames {
			for _, agg := range aggsOf(typ) {
				for _, w := range wins {
					for _, mode := range modes {
						e.sweep(fam, M, rows, typ, agg, w, mode)
					}
				}
				e.flush()
			}
		}
	}

	// ---- F1: exhaustive small datasets, nanosecond windows, request form WindowEvery/Offset, block size 3
	winF1 := nsWindows([]int64{1, 2, 3}, []int64{-1, 0, 1, 2}, "nsec")
	if c.Thorough() {
		all("F1-exhaustive", smallM, datasetRows(c, &idx, seq(8), 3), winF1, []int{0})
	} else {
		all("F1-exhaustive", smallM, datasetRows(c, &idx, seq(5), 3), winF1, []int{0})
		all("F1-exhaustive", smallM, datasetRows(c, &idx, seq(8), -1), winF1, []int{0})
	}

	// ---- F2: request form Window{Every,Offset}, one shard per array (with and without empty shards), negative times
	T2 := 4
	if c.Thorough() {
		T2 = 6
	}
	uni2 := make([]int64, T2)
	for i := range uni2 {
		uni2[i] = int64(i) - 3
	}
	all("F2-shards-windowform", smallM, datasetRows(c, &idx, uni2, 3), nsWindows([]int64{1, 2, 3}, []int64{-1, 0, 1, 2}, "window"), []int{0, 1, 2})

	// ---- F3: calendar (month) windows around month / year / leap-day boundaries
	uni3 := []int64{
		utc(1969, 12, 31, 23, 59, 59, 999999999),
		utc(1970, 1, 31, 23, 59, 59, 999999999),
		utc(1970, 2, 1, 0, 0, 0, 0),
		utc(1970, 2, 1, 0, 0, 0, 1),
		utc(1970, 2, 28, 23, 59, 59, 999999999),
		utc(1970, 3, 1, 0, 0, 0, 0),
		utc(1971, 12, 31, 23, 59, 59, 999999999),
		utc(1972, 1, 1, 0, 0, 0, 0),
		utc(1972, 2, 29, 12, 0, 0, 0),
		utc(1972, 3, 1, 0, 0, 0, 0),
	}
	if c.Quick() {
		uni3 = uni3[:8]
	}
	var winF3 []Win
	for _, ev := range []int64{1, 2, 3, 12} {
		for _, off := range [][2]int64{{0, 0}, {0, 1}, {0, -1}, {1, 0}, {1, 1}} { // {ns, months}
			winF3 = append(winF3, Win{EveryMo: ev, OffNs: off[0], OffMo: off[1], Form: "window"})
		}
	}
	all("F3-months", smallM, datasetRows(c, &idx, uni3, 0), winF3, []int{0})

	// ---- F5: the unbounded window (every = MaxInt64: one aggregate over the whole series; last reads descending)
	T5 := 5
	if c.Thorough() {
		T5 = 6
	}
	all("F5-unbounded-window", smallM, datasetRows(c, &idx, seq(T5), 3),
		[]Win{{EveryNs: math.MaxInt64, Form: "nsec"}, {EveryNs: math.MaxInt64, Form: "window"}}, []int{0, 1})

	// ---- F6 (informational): period != every through the unexported constructor
	var winF6 []Win
	for _, ev := range []int64{1, 2, 3} {
		for _, per := range []int64{ev, ev + 1, 2 * ev} {
			for _, off := range []int64{0, 1} {
				winF6 = append(winF6, Win{EveryNs: ev, PeriodNs: per, OffNs: off, Form: "direct"})
			}
		}
	}
	T6 := 4
	if c.Thorough() {
		T6 = 5
	}
	all("F6-direct-constructor", smallM, datasetRows(c, &idx, seq(T6), 3), winF6, []int{0})

	// ---- F4: shipped block size 1000, generated series with 999 .. 2002 windows, structured splits into arrays
	for _, ev := range []int64{1, 2, 3} {
		for _, off := range []int64{0, 1} {
			for _, W := range []int{999, 1000, 1001, 2000, 2001} {
				idx++
				if !c.Mine(idx) {
					continue
				}
				n := W * int(ev)
				gen := &Gen{N: n, Base: 0, Step: 1}
				d := newDataset((&Case{Gen: gen}).data())
				var rows []row
				rows = append(rows, row{d, gen, []int{n}})
				for _, s := range []int{1000, 999, 1001, 500, 7, 1} {
					var r []int
					for left := n; left > 0; left -= s {
						r = append(r, min(s, left))
					}
					rows = append(rows, row{d, gen, r})
				}
				// two arrays, split at p: every position (thorough) or the positions around the block boundaries
				for p := 1; p < n; p++ {
					near := false
					for _, b := range []int{1000 * int(ev), 2000 * int(ev)} {
						near = near || (p >= b-2*int(ev)-1 && p <= b+2*int(ev)+1)
					}
					if c.Thorough() || near {
						rows = append(rows, row{d, gen, []int{p, n - p}})
					}
				}
				reads.MaxPointsPerBlock = 1000
				for _, typ := range typeNames {
					if c.Quick() && (typ == "unsigned" || typ == "boolean") {
						continue
					}
					for _, agg := range aggsOf(typ) {
						e.sweep("F4-block-1000", 1000, rows, typ, agg, Win{EveryNs: ev, OffNs: off, Form: "nsec"}, 0)
					}
				}
				e.flush()
			}
		}
	}
	e.flush()
	if !e.complete {
		c.Cap("wall budget expired before all families were enumerated")
	}
	for _, M := range []int{smallM, 1000} {
		if e.needFull[M] && !e.fullSeen[M] {
			c.HarnessError(fmt.Sprintf("no completely filled output block of %d points was observed: the MaxPointsPerBlock override is not effective", M))
		}
	}
}

func TestCheck(t *testing.T) {
	vlib.Main(t, &vlib.Check{
		ID: "C20", Level: "exploration",
		Rule: "real path NewWindowAggregateResultSet->createCursor->multi-shard cursor->newWindowAggregateArrayCursor->*Window*ArrayCursor.Next over a buffer-reusing mock array cursor (one result set serves many series), " +
			"compared with an independent reference (own window arithmetic, aggregate per window, stop time for count/sum/mean, first extreme point for min/max, point for first/last; only non-empty windows). " +
			"F1: EVERY subset of times {0..7} x EVERY value assignment over 3 values (quick: every assignment for subsets of {0..4}, 3 fixed assignments for subsets of {0..7}) x EVERY split into input arrays (all compositions) x every in {1,2,3} x offset in {-1,0,1,2} (period=every) x " +
			"{count,sum,min,max,first,last,mean} x {float,integer,unsigned} + {count,first,last} x {string,boolean}, MaxPointsPerBlock=3 (const->var overlay) so outputs span up to 3 blocks and every carry-over path is hit; " +
			"F2: same over times {-3..0} (thorough {-3..2}) with the request given as Window{Every,Offset} and arrays spread over shards (one cursor / one shard per array / plus shards without data); " +
			"F3: every subset of 8 (thorough 10) instants around month, year and leap-day boundaries x all compositions x every in {1,2,3,12} months x offsets {0,+1mo,-1mo,+1ns,+1mo+1ns}; " +
			"F4: shipped MaxPointsPerBlock=1000, generated series with 999/1000/1001/2000/2001 (+1 with offset) windows of 1..3 points, arrays: one, uniform sizes {1000,999,1001,500,7,1}, every two-array split (quick: splits around the block boundaries; float,integer,string only); " +
			"F5: every=MaxInt64 (one unbounded window, last served by a descending cursor) over all datasets of {0..4} (thorough {0..5}); " +
			"F6 (informational, not judged): period in {every+1, 2*every} through the unexported constructor over {0..3} (thorough {0..4}). " +
			"A case = (dataset, arrays, window, aggregate, type, shard mode); non-trivial = dataset not empty; cases are distinct by construction.",
		Assumptions: []string{
			"the storage layer's request has no period: createCursor always builds period=every and the planner only pushes down windows with every=period, so period!=every is evaluated (F6) but not judged",
			"min/max are selectors returning the FIRST point holding the extreme value (as flux's min()/max() do on the raw data); count/sum/mean are stamped with the window stop",
			"for the unbounded window (every=MaxInt64) the time stamp of count/sum/mean is not checked (the statement names no stop)",
			"value domains are small exact numbers, so float summation order cannot matter; unsigned uses {2,0,3}",
			"reads.MaxPointsPerBlock is turned from a constant into a variable by the build overlay (shim.json); the code of the cursors is otherwise the repo's",
			"month windows: reference uses Go's time.Date calendar arithmetic (UTC), offsets keep the day-of-month at 1",
		},
		QuickBudgetS: 50, ThoroughBudgetS: 800,
		Run: run,
		Replay: func(c *vlib.Ctx, raw json.RawMessage) (bool, string) {
			var cs Case
			if err := json.Unmarshal(raw, &cs); err != nil {
				return false, err.Error()
			}
			clause, obs := runCase(&cs)
			if cs.Win.PeriodNs != 0 && cs.Win.PeriodNs != cs.Win.EveryNs && !periodMismatchIsViolation {
				return false, "period != every is not judged: " + obs
			}
			return clause != "", fmt.Sprintf("clause=%q %s", clause, obs)
		},
	})
}
