// C12: the line protocol parser is total and accepts exactly well-formed lines.
// Bounded-exhaustive: every byte string up to a length bound over an 11-byte alphabet, every single (thorough: double)
// byte mutation of valid templates, every short sequence of known-status lines, limit cases, a timestamp × precision
// family judged against the exact (math/big) nanosecond value, and a tags family (every key sequence of 2..4 tags over a
// small key alphabet: every multiset of keys in every ordering) judged by "unique tag keys".
package c12

import (
	"bytes"
	"context"
	"encoding/json"
	"fmt"
	"io"
	"math/big"
	"regexp"
	"runtime/debug"
	"sort"
	"strconv"
	"strings"
	"sync"
	"testing"
	"time"

	"github.com/influxdata/influxdb/v2/http/points"
	"github.com/influxdata/influxdb/v2/kit/platform"
	"github.com/influxdata/influxdb/v2/models"
	"verif/h/vlib"
)

// Case is replayable: the input bytes (base64 in JSON), precision, and for the modelled families the expectation.
type Case struct {
	Fam    string   `json:"family"`
	In     []byte   `json:"input"`
	Text   string   `json:"input_quoted"` // human-readable copy of In (Go %q)
	Prec   string   `json:"precision"`
	HTTP   bool     `json:"http_parser"`
	Expect *Expect  `json:"expect,omitempty"`
	Frags  []string `json:"fragments,omitempty"`
	Keys   []string `json:"tag_keys,omitempty"` // family tags: the tag keys of the enumerated line, in input order
}

// Expect is the reference verdict for inputs built from parts whose well-formedness is known by construction.
type Expect struct {
	Points   []string `json:"points"`   // expected points, in order: "name|tags|fields|ns" (ns = "default" if no timestamp)
	Rejected []string `json:"rejected"` // texts of the lines that must be named by the error, in order
}

type finding struct {
	Clause string // discriminating class (goes into the signature)
	Detail string
}

var defaultTime = time.Unix(0, 1500000000123456789).UTC()

var frameRe = regexp.MustCompile(`(?m)^github\.com/influxdata/influxdb/v2/([^\n]*?)\(0x|^github\.com/influxdata/influxdb/v2/([^\n]*?)\(\.\.\.\)|^github\.com/influxdata/influxdb/v2/([^\n]*?)\(\)`)

func guard(f func()) (panicked bool, desc, frame string) {
	defer func() {
		if r := recover(); r != nil {
			panicked = true
			frame = "?"
			if m := frameRe.FindStringSubmatch(string(debug.Stack())); m != nil {
				for _, g := range m[1:] {
					if g != "" {
						frame = g
					}
				}
			}
			desc = fmt.Sprintf("panic: %v @ %s", r, frame)
		}
	}()
	f()
	return
}

type parsed struct {
	pts []models.Point
	err error
}

// parse calls the code under test on a private copy (the parser keeps sub-slices and may sort in place).
func parse(in []byte, prec string) parsed {
	buf := append(make([]byte, 0, len(in)), in...)
	pts, err := models.ParsePointsWithPrecision(buf, defaultTime, prec)
	return parsed{pts, err}
}

func errText(err error) string {
	if err == nil {
		return ""
	}
	return err.Error()
}

// pointText is the raw identity of a returned point: escaped key, raw field text, time.
func pointText(p models.Point) string {
	return string(p.Key()) + " " + fieldText(p) + " " + strconv.FormatInt(p.UnixNano(), 10)
}

func fieldText(p models.Point) string {
	s := p.String() // "key fields[ ts]"
	s = strings.TrimPrefix(s, string(p.Key())+" ")
	return strings.TrimSuffix(s, " "+strconv.FormatInt(p.UnixNano(), 10))
}

// invariants checks the clauses the statement gives for every returned point.
func invariants(p models.Point, out *[]finding) {
	pan, desc, frame := guard(func() {
		if len(p.Name()) == 0 {
			*out = append(*out, finding{"point/empty-measurement", fmt.Sprintf("point %q has an empty measurement", pointText(p))})
		}
		tags := p.Tags()
		seen := map[string]bool{}
		for _, t := range tags {
			if seen[string(t.Key)] {
				*out = append(*out, finding{"point/duplicate-tag-key", fmt.Sprintf("point %q has tag key %q twice", pointText(p), t.Key)})
				break
			}
			seen[string(t.Key)] = true
		}
		n, empty := 0, 0
		it := p.FieldIterator()
		maxField := 0
		for it.Next() {
			if len(it.FieldKey()) == 0 {
				empty++
				continue
			}
			n++
			if l := len(it.FieldKey()); l > maxField {
				maxField = l
			}
		}
		if empty > 0 {
			// a field without a name: not a well-formed line (and, if it is the only field, the point has no usable field)
			where := "after-comma"
			if strings.HasPrefix(fieldText(p), "=") {
				where = "leading"
			}
			*out = append(*out, finding{"point/empty-field-key/" + where, fmt.Sprintf("point %q has a field with an empty key (%d named fields)", pointText(p), n)})
		} else if n == 0 {
			*out = append(*out, finding{"point/no-field", fmt.Sprintf("point %q has no field", pointText(p))})
		}
		// series key + field key: the composite key the storage engine builds is key + 4-byte separator + field key
		if sz := len(p.Key()) + 4 + maxField; sz > models.MaxKeyLength {
			*out = append(*out, finding{"point/key-too-long", fmt.Sprintf("point with key length %d and field key length %d exceeds MaxKeyLength", len(p.Key()), maxField)})
		}
		if ns := p.UnixNano(); ns < models.MinNanoTime || ns > models.MaxNanoTime || !p.Time().Equal(time.Unix(0, ns)) {
			*out = append(*out, finding{"point/time-out-of-range", fmt.Sprintf("point %q has time %v", pointText(p), p.Time())})
		}
		if fs, err := p.Fields(); err != nil {
			*out = append(*out, finding{"point/field-unreadable", fmt.Sprintf("point %q was accepted but Fields() fails: %v", pointText(p), err)})
		} else if len(fs) == 0 {
			if n > 0 {
				*out = append(*out, finding{"point/fields-empty", fmt.Sprintf("point %q: Fields() is empty", pointText(p))})
			}
		}
	})
	if pan {
		*out = append(*out, finding{"point/panic/" + frame, fmt.Sprintf("accessing returned point %q: %s", pointText2(p), desc)})
	}
}

func pointText2(p models.Point) (s string) {
	defer func() {
		if recover() != nil {
			s = "?"
		}
	}()
	return p.String()
}

// splitLines: physical lines of the input (split at every '\n').
func splitLines(in []byte) [][]byte { return bytes.Split(in, []byte{'\n'}) }

// segmentOK checks per-line exactness for one segmentation (groups of physical lines joined by '\n'):
// whole result = concatenation of the per-group results parsed alone; error = per-group errors joined by "\n".
func segmentOK(whole parsed, groups [][]byte, prec string) (ok bool, why string) {
	var wantPts []string
	var wantErr []string
	for _, g := range groups {
		r := parse(g, prec)
		for _, p := range r.pts {
			wantPts = append(wantPts, pointText(p))
		}
		if r.err != nil {
			wantErr = append(wantErr, r.err.Error())
		}
	}
	var gotPts []string
	for _, p := range whole.pts {
		gotPts = append(gotPts, pointText(p))
	}
	if strings.Join(gotPts, "\x00") != strings.Join(wantPts, "\x00") {
		return false, fmt.Sprintf("points: whole input gives %q, lines parsed alone give %q", gotPts, wantPts)
	}
	if errText(whole.err) != strings.Join(wantErr, "\n") {
		return false, fmt.Sprintf("error: whole input gives %q, lines parsed alone give %q", errText(whole.err), strings.Join(wantErr, "\n"))
	}
	return true, ""
}

// perLine is the per-line exactness oracle. A '\n' separates lines, except that one inside a double-quoted string
// field value belongs to the value; the oracle does not model quoting: if the input contains a '"' it accepts any
// segmentation whose non-separating newlines are each preceded by a '"' within their group.
func perLine(in []byte, whole parsed, prec string, out *[]finding) {
	lines := splitLines(in)
	if len(lines) == 1 {
		return
	}
	ok, why := segmentOK(whole, lines, prec)
	if ok {
		return
	}
	if bytes.IndexByte(in, '"') >= 0 && len(lines) <= 9 {
		k := len(lines) - 1                           // newline j sits between lines[j] and lines[j+1]
		for mask := (1 << k) - 2; mask >= 0; mask-- { // bit j set = newline j separates
			var groups [][]byte
			cur := append([]byte(nil), lines[0]...)
			legal := true
			for j := 0; j < k; j++ {
				if mask&(1<<j) != 0 {
					groups = append(groups, cur)
					cur = append([]byte(nil), lines[j+1]...)
				} else {
					if bytes.IndexByte(cur, '"') < 0 {
						legal = false
						break
					}
					cur = append(append(cur, '\n'), lines[j+1]...)
				}
			}
			if !legal {
				continue
			}
			groups = append(groups, cur)
			if ok2, _ := segmentOK(whole, groups, prec); ok2 {
				return
			}
		}
	}
	kind := "error-text"
	if strings.HasPrefix(why, "points") {
		kind = "points"
	}
	*out = append(*out, finding{"per-line/" + kind, why})
}

type nopCloser struct{ io.Reader }

func (nopCloser) Close() error { return nil }

// httpParser: http/points.Parser must agree with models.ParsePointsWithPrecision (no points + error if any line fails).
func httpParser(in []byte, prec string, whole parsed, out *[]finding) {
	var pp *points.ParsedPoints
	var err error
	pan, desc, frame := guard(func() {
		pp, err = points.NewParser(prec).Parse(context.Background(), platform.ID(1), platform.ID(2), nopCloser{bytes.NewReader(in)})
	})
	switch {
	case pan:
		*out = append(*out, finding{"http/panic/" + frame, desc})
	case (err != nil) != (whole.err != nil):
		*out = append(*out, finding{"http/accept-mismatch", fmt.Sprintf("points.Parser error=%v but models error=%v", err, whole.err)})
	case err != nil:
		if pp != nil {
			*out = append(*out, finding{"http/points-with-error", "points.Parser returned points together with an error"})
		}
		if !strings.Contains(err.Error(), whole.err.Error()) {
			*out = append(*out, finding{"http/error-text", fmt.Sprintf("points.Parser error %q does not carry the per-line error %q", err, whole.err)})
		}
	default:
		if pp == nil || len(pp.Points) != len(whole.pts) || pp.RawSize != len(in) {
			*out = append(*out, finding{"http/points-mismatch", fmt.Sprintf("points.Parser returned nil=%v, models %d points", pp == nil, len(whole.pts))})
			return
		}
		for i, p := range pp.Points {
			if whole.pts[i].Time().Equal(defaultTime) {
				// no timestamp in the line: points.Parser stamps time.Now(); check it is representable, then
				// normalise so that observations stay deterministic
				if ns := p.UnixNano(); ns < models.MinNanoTime || ns > models.MaxNanoTime {
					*out = append(*out, finding{"http/default-time-out-of-range", fmt.Sprintf("point %d has default time %v", i, p.Time())})
				}
				p.SetTime(defaultTime)
			}
			invariants(p, out)
			if string(p.Key()) != string(whole.pts[i].Key()) || fieldText(p) != fieldText(whole.pts[i]) {
				*out = append(*out, finding{"http/points-mismatch", fmt.Sprintf("point %d: %q vs %q", i, pointText(p), pointText(whole.pts[i]))})
				return
			}
		}
	}
}

// viewText is the reference-comparable rendering of a returned point: unescaped name, tags, typed fields, time.
func viewText(p models.Point) string {
	var tg []string
	for _, t := range p.Tags() {
		tg = append(tg, string(t.Key)+"="+string(t.Value))
	}
	fs, err := p.Fields()
	if err != nil {
		return "fields-error:" + err.Error()
	}
	var fl []string
	for k, v := range fs {
		fl = append(fl, fmt.Sprintf("%s=%T:%v", k, v, v))
	}
	sort.Strings(fl)
	ns := strconv.FormatInt(p.UnixNano(), 10)
	if p.Time().Equal(defaultTime) {
		ns = "default"
	}
	return string(p.Name()) + "|" + strings.Join(tg, ",") + "|" + strings.Join(fl, ",") + "|" + ns
}

var unableRe = regexp.MustCompile(`(?s)^unable to parse '(.*)': [^']*$`)

// expectation compares with the by-construction verdict.
func expectation(cs Case, whole parsed, out *[]finding) {
	e := cs.Expect
	var got []string
	pan, desc, frame := guard(func() {
		for _, p := range whole.pts {
			got = append(got, viewText(p))
		}
	})
	if pan {
		*out = append(*out, finding{"expect/panic/" + frame, desc})
		return
	}
	if strings.Join(got, "\x00") != strings.Join(e.Points, "\x00") {
		cl := "expect/points"
		if len(got) < len(e.Points) {
			cl = "expect/well-formed-line-not-returned"
		} else if len(got) > len(e.Points) {
			cl = "expect/malformed-line-accepted"
		}
		*out = append(*out, finding{cl, fmt.Sprintf("expected points %q, got %q (error: %q)", e.Points, got, errText(whole.err))})
	}
	// the error must name exactly the rejected lines, in order
	var named []string
	if whole.err != nil {
		// entries are "unable to parse '<line>': <reason>" joined by "\n"; lines may contain "\n" themselves, so match
		// the expected texts greedily in order instead of splitting.
		rest := whole.err.Error()
		for len(rest) > 0 {
			if !strings.HasPrefix(rest, "unable to parse '") {
				named = append(named, "?unparseable error text: "+rest)
				break
			}
			rest = rest[len("unable to parse '"):]
			matched := false
			for _, r := range e.Rejected {
				if strings.HasPrefix(rest, r+"': ") {
					named = append(named, r)
					rest = rest[len(r)+3:]
					matched = true
					break
				}
			}
			if !matched {
				j := strings.Index(rest, "': ")
				if j < 0 {
					named = append(named, "?"+rest)
					break
				}
				named = append(named, rest[:j])
				rest = rest[j+3:]
			}
			if j := strings.Index(rest, "\nunable to parse '"); j >= 0 {
				rest = rest[j+1:]
			} else {
				rest = ""
			}
		}
	}
	if strings.Join(named, "\x00") != strings.Join(e.Rejected, "\x00") {
		*out = append(*out, finding{"expect/error-names-wrong-lines", fmt.Sprintf("error must name exactly %q, names %q (error text %q)", e.Rejected, named, errText(whole.err))})
	}
}

// check runs every clause on one input; a hang is handled by the caller's watchdog.
func check(cs Case) (whole parsed, fs []finding) {
	pan, desc, frame := guard(func() { whole = parse(cs.In, cs.Prec) })
	if pan {
		return whole, []finding{{"parse/panic/" + frame, desc}}
	}
	for _, p := range whole.pts {
		invariants(p, &fs)
	}
	if len(whole.pts) == 0 && whole.err == nil && len(bytes.TrimLeft(cs.In, " \t\x00\n")) > 0 && cs.Expect == nil {
		// nothing returned and nothing rejected: only legal for blank/comment lines
		for _, l := range splitLines(cs.In) {
			t := bytes.TrimLeft(l, " \t\x00")
			if len(t) > 0 && t[0] != '#' {
				// may still be inside a quoted multi-line value of a previous line; only flag single-line inputs
				if bytes.IndexByte(cs.In, '\n') < 0 {
					fs = append(fs, finding{"parse/line-silently-dropped", fmt.Sprintf("input %q: no point and no error", cs.In)})
				}
				break
			}
		}
	}
	pan, desc, frame = guard(func() { perLine(cs.In, whole, cs.Prec, &fs) })
	if pan {
		fs = append(fs, finding{"per-line/panic/" + frame, desc})
	}
	if cs.Expect != nil {
		expectation(cs, whole, &fs)
	}
	if cs.HTTP {
		httpParser(cs.In, cs.Prec, whole, &fs)
	}
	return
}

// ---------------------------------------------------------------------------------------------
// families

var alphabet = []byte{'m', ',', '=', ' ', '"', '\\', '1', 'i', '\n', '-', 't'}

// extra bytes used only for substitutions in the template family
var extraBytes = []byte{'#', '\t', 0, 'e', '.', 'u', '\r', 'T', 0xff}

var templates = []string{
	"m,t=1 i=1i 1",
	"m t=\"m\\\"t\" -1",
	"m\\ m,t\\==\\,1 m\\ =t",
	"m,t=1,i=1 1=-1,m=t",
	"m 1=1\nm t=t 11\n",
	"m,1=1,t=m i=\"1\n1\",t=-1.1e1 -11",
}

// fragment: a line whose well-formedness is known by construction (from the line protocol grammar).
type fragment struct {
	Text  string
	Point string // expected viewText if well-formed, "" if the line must be rejected, "-" if it is skipped (blank/comment)
}

var fragments = []fragment{
	{"m 1=1", "m||1=float64:1|default"},
	{"m,t=1 i=1i 1", "m|t=1|i=int64:1|1"},
	{"m t=\"1\n1\" -1", "m||t=string:1\n1|-1"},
	{"m\\ m,i=\\,1 m\\ =t,1=1u", "m m|i=,1|1=uint64:1,m =bool:true|default"},
	{"m", ""},
	{"m,t= 1=1", ""},
	{"m 1=1 t", ""},
	{"m,t=1,t=m 1=1", ""},
	{"m 1=1\\", ""},
	{"", "-"},
	{"  ", "-"},
	{"# m 1=1", "-"},
}

func q(b []byte) string { return strconv.Quote(string(b)) }

type explorer struct {
	c    *vlib.Ctx
	idx  int64
	outc map[string]int64
	w    *watch
}

// watch is what the watchdog reads: a progress counter and the case being executed.
type watch struct {
	mu       sync.Mutex
	progress int64
	current  Case
}

func reason(err error) string {
	if err == nil {
		return "ok"
	}
	s := err.Error()
	n := strings.Count(s, "unable to parse '")
	i := strings.LastIndex(s, "': ")
	r := s
	if i >= 0 {
		r = s[i+3:]
	}
	if j := strings.IndexAny(r, ":0123456789"); j > 0 {
		r = strings.TrimSpace(r[:j])
	}
	if len(r) > 40 {
		r = r[:40]
	}
	if n > 3 {
		return fmt.Sprintf("rejected>3 last=%s", r)
	}
	return fmt.Sprintf("rejected=%d last=%s", n, r)
}

// inputFeature is the discriminating feature of an input for signatures (first match wins).
func inputFeature(in []byte) string {
	switch {
	case bytes.Contains(in, []byte("\\\n")):
		return "backslash-before-newline"
	case bytes.IndexAny(in, "\t\x00") >= 0:
		return "tab-or-NUL"
	case bytes.IndexByte(in, '"') >= 0:
		return "with-quote"
	}
	return "plain"
}

// sigOf: violated clause + input feature (the family is not part of the class).
// Clauses about one returned point carry their own feature (computed from the point, see invariants).
func sigOf(cs Case, f finding) string {
	if strings.HasPrefix(f.Clause, "point/") || strings.HasPrefix(f.Clause, "http/") {
		return f.Clause
	}
	if cs.Fam == "timestamps" && strings.HasPrefix(f.Clause, "expect/") {
		// class = violated clause + where the exact nanosecond value lies + precision
		return vlib.JoinSig("timestamps", strings.TrimPrefix(f.Clause, "expect/"), tsFeature(cs))
	}
	if cs.Fam == "tags" && strings.HasPrefix(f.Clause, "expect/") {
		// class = violated clause + which key repeats + whether the keys arrive sorted
		return vlib.JoinSig("tags", strings.TrimPrefix(f.Clause, "expect/"), tagFeature(cs.Keys))
	}
	return vlib.JoinSig(f.Clause, inputFeature(cs.In))
}

// next advances the case index and reports whether the case belongs to this shard.
func (e *explorer) next() bool {
	e.idx++
	return e.c.Mine(e.idx)
}

func (e *explorer) visit(cs Case) {
	if e.next() {
		e.do(cs)
	}
}

func (e *explorer) do(cs Case) {
	e.w.mu.Lock()
	e.w.current = cs
	e.w.progress++
	progress := e.w.progress
	e.w.mu.Unlock()
	whole, fs := check(cs)
	e.c.Eval(1)
	nontrivial := len(whole.pts) > 0 || bytes.IndexByte(cs.In, '\n') >= 0 || cs.Expect != nil
	if nontrivial {
		e.c.NontrivialN(1)
	}
	np := strconv.Itoa(len(whole.pts))
	if len(whole.pts) > 2 {
		np = ">2"
	}
	label := strings.TrimSuffix(cs.Fam, "2")
	if cs.Fam == "timestamps" {
		label += "[" + tsFeature(cs) + "]"
	}
	if cs.Fam == "tags" {
		label += "[" + tagFeature(cs.Keys) + "]"
	}
	e.outc[fmt.Sprintf("%s: points=%s %s", label, np, reason(whole.err))]++
	for _, f := range fs {
		cs.Text = q(cs.In)
		e.c.Violation(sigOf(cs, f), f.Clause+": input "+cs.Text+": "+f.Detail, cs)
	}
	if nontrivial && len(whole.pts) > 0 && e.c.WantSample() && progress%501 == 0 {
		cs.Text = q(cs.In)
		e.c.Sample(map[string]any{"case": cs, "points": len(whole.pts), "error": errText(whole.err)})
	}
}

func mutants(t []byte, subst []byte) [][]byte {
	var out [][]byte
	for i := range t {
		out = append(out, append(append([]byte(nil), t[:i]...), t[i+1:]...))                 // deletion
		out = append(out, append(append(append([]byte(nil), t[:i+1]...), t[i]), t[i+1:]...)) // duplication
		for _, b := range subst {
			if b != t[i] {
				m := append([]byte(nil), t...)
				m[i] = b
				out = append(out, m)
			}
		}
	}
	return out
}

func longKeyCases() []Case {
	var out []Case
	// key = measurement "m" + ",t=" + value; composite size = len(key)+4+len(field key)
	for _, fk := range []string{"f", "field"} {
		for _, d := range []int{-1, 0, 1} {
			total := models.MaxKeyLength + d
			vlen := total - 4 - len(fk) - len("m,t=")
			in := "m,t=" + strings.Repeat("v", vlen) + " " + fk + "=1 1"
			ex := &Expect{}
			if d <= 0 {
				ex.Points = []string{"m|t=" + strings.Repeat("v", vlen) + "|" + fk + "=float64:1|1"}
			} else {
				ex.Rejected = []string{in}
			}
			out = append(out, Case{Fam: "limits", In: []byte(in), Prec: "ns", HTTP: true, Expect: ex})
		}
	}
	// measurement-only key at the limit (second field is the long one)
	for _, d := range []int{-1, 0, 1} {
		total := models.MaxKeyLength + d
		flen := total - 4 - 1
		in := "m a=1," + strings.Repeat("f", flen) + "=2"
		ex := &Expect{}
		if d <= 0 {
			ex.Points = []string{"m||a=float64:1," + strings.Repeat("f", flen) + "=float64:2|default"}
		} else {
			ex.Rejected = []string{in}
		}
		out = append(out, Case{Fam: "limits", In: []byte(in), Prec: "ns", HTTP: true, Expect: ex})
	}
	// timestamps at the representable limits, every precision
	for _, prec := range []string{"ns", "us", "ms", "s"} {
		m := models.GetPrecisionMultiplier("ns")
		switch prec {
		case "us":
			m = 1e3
		case "ms":
			m = 1e6
		case "s":
			m = 1e9
		}
		type tc struct {
			units string
			ok    bool
			ns    int64
		}
		maxU, minU := models.MaxNanoTime/m, models.MinNanoTime/m
		var tcs []tc
		add := func(u int64, ok bool) { tcs = append(tcs, tc{strconv.FormatInt(u, 10), ok, u * m}) }
		add(maxU, true)
		add(minU, true)
		add(maxU-1, true)
		add(minU+1, true)
		add(0, true)
		if prec == "ns" {
			add(maxU+1, false) // MaxInt64: sentinel
			add(minU-1, false)
			add(minU-2, false)
		} else {
			add(maxU+1, false)
			add(minU-1, false)
		}
		tcs = append(tcs, tc{"9223372036854775808", false, 0}, tc{"-9223372036854775809", false, 0}, tc{"99999999999999999999", false, 0})
		for _, t := range tcs {
			in := "m f=1i " + t.units
			ex := &Expect{}
			if t.ok {
				ex.Points = []string{"m||f=int64:1|" + strconv.FormatInt(t.ns, 10)}
			} else {
				ex.Rejected = []string{in}
			}
			out = append(out, Case{Fam: "limits", In: []byte(in), Prec: prec, HTTP: true, Expect: ex})
		}
	}
	return out
}

// ---------------------------------------------------------------------------------------------
// family "timestamps": "a representable timestamp". The timestamp of a line is an int64 count of precision units;
// its exact nanosecond value (computed here with math/big, never with the code under test) is units × multiplier.
// The line is well-formed iff that value lies in [MinNanoTime, MaxNanoTime]; then the point carries exactly it.

func precMult(prec string) int64 {
	switch prec {
	case "us":
		return 1e3
	case "ms":
		return 1e6
	case "s":
		return 1e9
	}
	return 1
}

// tsCandidates: the int64 unit counts enumerated for one multiplier, ordered by magnitude (then negative first).
func tsCandidates(mult int64) []int64 {
	set := map[int64]bool{}
	addBig := func(x *big.Int) {
		if x.IsInt64() {
			set[x.Int64()] = true
		}
		if n := new(big.Int).Neg(x); n.IsInt64() {
			set[n.Int64()] = true
		}
	}
	around := func(x *big.Int, d int64) {
		for k := -d; k <= d; k++ {
			addBig(new(big.Int).Add(x, big.NewInt(k)))
		}
	}
	one := big.NewInt(1)
	bm := big.NewInt(mult)
	// small values, powers of two ±1 up to 2^63, d·10^e (d∈{1,2,3,5,9}, up to 19 digits) and 10^e±1
	around(big.NewInt(0), 10)
	for j := uint(1); j <= 63; j++ {
		around(new(big.Int).Lsh(one, j), 1)
	}
	for e := int64(0); e <= 18; e++ {
		p := new(big.Int).Exp(big.NewInt(10), big.NewInt(e), nil)
		around(p, 1)
		for _, d := range []int64{2, 3, 5, 9} {
			addBig(new(big.Int).Mul(p, big.NewInt(d)))
		}
	}
	// the int64 limits and the representable limits in units
	around(big.NewInt(models.MaxNanoTime), 3)
	around(big.NewInt(models.MinNanoTime), 3)
	around(new(big.Int).Quo(big.NewInt(models.MaxNanoTime), bm), 2)
	around(new(big.Int).Quo(big.NewInt(models.MinNanoTime), bm), 2)
	// unit counts whose exact product sits at K·2^63 (where a wrapped 64-bit product changes sign / returns to zero):
	// K = 1..24 and larger powers of two and ten; ±2 around floor(K·2^63/mult)
	ks := []int64{}
	for k := int64(1); k <= 24; k++ {
		ks = append(ks, k)
	}
	ks = append(ks, 32, 50, 64, 100, 128, 256, 1000, 1024, 1<<16, 1e5, 1e6, 1<<20, 1<<24, 1e8, 1e9, 1<<30)
	b63 := new(big.Int).Lsh(one, 63)
	for _, k := range ks {
		x := new(big.Int).Mul(b63, big.NewInt(k))
		around(x.Quo(x, bm), 2)
	}
	out := make([]int64, 0, len(set))
	for v := range set {
		out = append(out, v)
	}
	mag := func(v int64) uint64 {
		if v < 0 {
			return uint64(-(v + 1)) + 1
		}
		return uint64(v)
	}
	sort.Slice(out, func(i, j int) bool {
		if mi, mj := mag(out[i]), mag(out[j]); mi != mj {
			return mi < mj
		}
		return out[i] < out[j]
	})
	return out
}

// tsExact returns units × multiplier of a timestamps-family case (units = last token of the input).
func tsExact(cs Case) *big.Int {
	f := strings.Fields(string(cs.In))
	u, ok := new(big.Int).SetString(f[len(f)-1], 10)
	if !ok {
		return new(big.Int)
	}
	return u.Mul(u, big.NewInt(precMult(cs.Prec)))
}

// tsFeature: where the exact nanosecond value lies (how far a wrapped 64-bit product would be off) + precision.
func tsFeature(cs Case) string {
	x := tsExact(cs)
	where := "in-range"
	if x.Cmp(big.NewInt(models.MinNanoTime)) < 0 || x.Cmp(big.NewInt(models.MaxNanoTime)) > 0 {
		a := new(big.Int).Abs(x)
		switch {
		case x.IsInt64():
			where = "out-of-range-sentinel"
		case a.Cmp(new(big.Int).Lsh(big.NewInt(1), 64)) < 0:
			where = "out-of-range-below-2^64"
		default:
			where = "out-of-range-beyond-2^64"
		}
	}
	return where + "/prec=" + cs.Prec
}

func timestampCases() []Case {
	var out []Case
	lo, hi := big.NewInt(models.MinNanoTime), big.NewInt(models.MaxNanoTime)
	for _, prec := range []string{"ns", "us", "ms", "s"} {
		for _, u := range tsCandidates(precMult(prec)) {
			in := "ts v=2i " + strconv.FormatInt(u, 10)
			exact := new(big.Int).Mul(big.NewInt(u), big.NewInt(precMult(prec)))
			if exact.IsInt64() && exact.Int64() == defaultTime.UnixNano() {
				continue // indistinguishable from "no timestamp" in viewText
			}
			ex := &Expect{}
			if exact.Cmp(lo) >= 0 && exact.Cmp(hi) <= 0 {
				ex.Points = []string{"ts||v=int64:2|" + exact.String()}
			} else {
				ex.Rejected = []string{in}
			}
			out = append(out, Case{Fam: "timestamps", In: []byte(in), Prec: prec, HTTP: true, Expect: ex})
		}
	}
	return out
}

// ---------------------------------------------------------------------------------------------
// family "tags": "unique tag keys" / "the error names exactly the lines that were rejected". A line with n tags whose
// keys are EVERY sequence of length n over a small key alphabet (= every multiset of keys, with and without repeated
// keys, in every ordering, sorted and unsorted), values pairwise distinct. Reference, from the statement: a line that
// repeats a tag key is not well-formed (it must be rejected and named by the error, and yields no point); a line with
// pairwise distinct keys is well-formed and yields the point whose tags are the given pairs ordered by key (bytewise).

// tagKeyAlphabet: a prefix pair whose extension byte is above '=' (a, ab), one whose extension byte is below '='
// (a, a-: the raw texts "a-=" / "a=" order the other way round than the keys), an unrelated key and a key that starts
// with a byte below '=' and is the smallest of all.
var tagKeyAlphabet = []string{"a", "b", "ab", "a-", "0", "ba"}

// tagFeature: which key repeats (none / only the smallest key of the line / some other key) and the input order.
func tagFeature(keys []string) string {
	smallest := ""
	for i, k := range keys {
		if i == 0 || k < smallest {
			smallest = k
		}
	}
	cnt := map[string]int{}
	dup := "none"
	for _, k := range keys {
		cnt[k]++
		if cnt[k] == 2 {
			if k != smallest {
				dup = "non-smallest-key"
			} else if dup == "none" {
				dup = "smallest-key"
			}
		}
	}
	order := "sorted"
	for i := 1; i < len(keys); i++ {
		if keys[i-1] > keys[i] {
			order = "unsorted"
		}
	}
	return "dup=" + dup + "/order=" + order
}

// tagLine builds the line for a key sequence and its by-construction verdict ("" = must be rejected).
func tagLine(keys []string, valPrefix string) (line, point string) {
	type kv struct{ k, v string }
	var tags []kv
	var sb strings.Builder
	sb.WriteString("tg")
	dup := false
	seen := map[string]bool{}
	for i, k := range keys {
		v := valPrefix + strconv.Itoa(i)
		tags = append(tags, kv{k, v})
		sb.WriteString("," + k + "=" + v)
		dup = dup || seen[k]
		seen[k] = true
	}
	sb.WriteString(" f=1i 7")
	if dup {
		return sb.String(), ""
	}
	sort.Slice(tags, func(i, j int) bool { return tags[i].k < tags[j].k })
	var tg []string
	for _, t := range tags {
		tg = append(tg, t.k+"="+t.v)
	}
	return sb.String(), "tg|" + strings.Join(tg, ",") + "|f=int64:1|7"
}

func tagCases(thorough bool, visit func(Case)) {
	alpha, maxTags := tagKeyAlphabet[:5], 4
	if thorough {
		alpha, maxTags = tagKeyAlphabet, 5
	}
	for n := 2; n <= maxTags; n++ {
		idx := make([]int, n)
		for {
			keys := make([]string, n)
			rev := make([]string, n)
			for i, x := range idx {
				keys[i] = alpha[x]
				rev[n-1-i] = alpha[x]
			}
			line, pt := tagLine(keys, "v")
			rline, rpt := tagLine(rev, "w")
			// contexts: alone; after / before a well-formed line; followed by the line with its keys in reverse order
			type part struct{ text, point string }
			for _, ctx := range [][]part{
				{{line, pt}},
				{{"m 1=1", "m||1=float64:1|default"}, {line, pt}},
				{{line, pt}, {"m,t=1 i=1i 1", "m|t=1|i=int64:1|1"}},
				{{line, pt}, {rline, rpt}},
			} {
				ex := &Expect{}
				var texts []string
				for _, p := range ctx {
					texts = append(texts, p.text)
					if p.point == "" {
						ex.Rejected = append(ex.Rejected, p.text)
					} else {
						ex.Points = append(ex.Points, p.point)
					}
				}
				visit(Case{Fam: "tags", In: []byte(strings.Join(texts, "\n")), Prec: "ns", HTTP: true, Expect: ex, Keys: keys})
			}
			i := n - 1
			for ; i >= 0; i-- {
				idx[i]++
				if idx[i] < len(alpha) {
					break
				}
				idx[i] = 0
			}
			if i < 0 {
				break
			}
		}
	}
}

func explore(c *vlib.Ctx, w *watch) {
	e := &explorer{c: c, outc: map[string]int64{}, w: w}
	defer func() {
		for k, v := range e.outc {
			c.OutcomeN(k, v)
		}
	}()

	// family "limits"
	for _, cs := range longKeyCases() {
		e.visit(cs)
	}

	// family "timestamps"
	for _, cs := range timestampCases() {
		e.visit(cs)
	}

	// family "tags"
	tagCases(c.Thorough(), e.visit)

	// family "lines": every sequence of 1..3 (thorough: 4) fragments joined by '\n', with and without a final '\n'
	maxSeq := 3
	if c.Thorough() {
		maxSeq = 4
	}
	for n := 1; n <= maxSeq; n++ {
		total := 1
		for i := 0; i < n; i++ {
			total *= len(fragments)
		}
		for code := 0; code < total; code++ {
			if c.Expired() {
				c.Cap(fmt.Sprintf("lines family: budget expired at sequence length %d", n))
				return
			}
			x := code
			var parts []string
			ex := &Expect{}
			for i := 0; i < n; i++ {
				f := fragments[x%len(fragments)]
				x /= len(fragments)
				parts = append(parts, f.Text)
				switch f.Point {
				case "":
					ex.Rejected = append(ex.Rejected, f.Text)
				case "-":
				default:
					ex.Points = append(ex.Points, f.Point)
				}
			}
			for _, tail := range []string{"", "\n"} {
				in := strings.Join(parts, "\n") + tail
				e.visit(Case{Fam: "lines", In: []byte(in), Prec: "ns", HTTP: n <= 2, Expect: ex, Frags: parts})
			}
		}
	}

	// family "mutants": every single (thorough: also every double) deletion / duplication / substitution
	subst := append(append([]byte(nil), alphabet...), extraBytes...)
	for ti, t := range templates {
		e.visit(Case{Fam: "mutants", In: []byte(t), Prec: "ns", HTTP: true})
		singles := mutants([]byte(t), subst)
		for _, m := range singles {
			for _, prec := range []string{"ns", "s"} {
				e.visit(Case{Fam: "mutants", In: m, Prec: prec, HTTP: true})
			}
		}
		if c.Thorough() {
			for _, m := range singles {
				if c.Expired() {
					c.Cap(fmt.Sprintf("mutants family: budget expired in double mutations of template %d", ti))
					return
				}
				for _, m2 := range mutants(m, alphabet) {
					e.visit(Case{Fam: "mutants2", In: m2, Prec: "ns"})
				}
			}
		}
	}

	// family "bytes": every string over the alphabet, shortest first
	maxLen := 6
	if c.Thorough() {
		maxLen = 7
	}
	httpLen := 4
	if c.Thorough() {
		httpLen = 5
	}
	buf := make([]byte, 0, maxLen)
	digits := make([]int, maxLen)
	for l := 0; l <= maxLen; l++ {
		for i := range digits {
			digits[i] = 0
		}
		buf = buf[:l]
		n := 0
		for {
			if n&0xffff == 0 && c.Expired() {
				c.Cap(fmt.Sprintf("bytes family: complete up to length %d, budget expired inside length %d", l-1, l))
				return
			}
			n++
			if e.next() {
				for i := 0; i < l; i++ {
					buf[i] = alphabet[digits[i]]
				}
				e.do(Case{Fam: "bytes", In: append([]byte(nil), buf...), Prec: "ns", HTTP: l <= httpLen})
			}
			// odometer
			i := l - 1
			for ; i >= 0; i-- {
				digits[i]++
				if digits[i] < len(alphabet) {
					break
				}
				digits[i] = 0
			}
			if i < 0 {
				break
			}
		}
	}
}

const hangAfter = 10 * time.Second

// runWithWatchdog runs the exploration in a goroutine; if one case does not finish within hangAfter, it is
// reported as a hang and the worker stops (the stuck goroutine cannot be killed).
func runWithWatchdog(c *vlib.Ctx) {
	w := &watch{}
	done := make(chan struct{})
	go func() {
		defer close(done)
		explore(c, w)
	}()
	// The stall is measured in watchdog ticks that saw no progress, not in elapsed wall time: if the whole process is
	// descheduled on a loaded machine the ticker is stalled too (missed ticks are dropped), so that is not a hang.
	const period = 500 * time.Millisecond
	last := int64(-1)
	stalled := 0
	tick := time.NewTicker(period)
	defer tick.Stop()
	for {
		select {
		case <-done:
			return
		case <-tick.C:
			w.mu.Lock()
			p, cs := w.progress, w.current
			w.mu.Unlock()
			if p != last {
				last, stalled = p, 0
				continue
			}
			stalled++
			if p > 0 && time.Duration(stalled)*period > hangAfter {
				cs.Text = q(cs.In)
				c.Violation(vlib.JoinSig("hang", inputFeature(cs.In)), fmt.Sprintf("input %s: parser did not return within %v", cs.Text, hangAfter), cs)
				c.Cap("worker stopped after a hang")
				return
			}
		}
	}
}

func replay(c *vlib.Ctx, raw json.RawMessage) (bool, string) {
	var cs Case
	if err := json.Unmarshal(raw, &cs); err != nil {
		return false, err.Error()
	}
	type res struct {
		whole parsed
		fs    []finding
	}
	ch := make(chan res, 1)
	go func() {
		w, fs := check(cs)
		ch <- res{w, fs}
	}()
	select {
	case r := <-ch:
		var sb strings.Builder
		fmt.Fprintf(&sb, "input=%s precision=%s points=%d error=%q\n", q(cs.In), cs.Prec, len(r.whole.pts), errText(r.whole.err))
		for _, f := range r.fs {
			fmt.Fprintf(&sb, "  %s: %s\n", f.Clause, f.Detail)
		}
		return len(r.fs) > 0, sb.String()
	case <-time.After(hangAfter):
		return true, fmt.Sprintf("input=%s precision=%s: hang (no return within %v)", q(cs.In), cs.Prec, hangAfter)
	}
}

func TestCheck(t *testing.T) {
	vlib.Main(t, &vlib.Check{
		ID: "C12", Level: "exploration",
		Rule: "family bytes: every byte string of length 0..6 (thorough 0..7) over {m , = space \" \\ 1 i \\n - t}; family mutants: 6 valid templates, every single deletion/duplication/substitution by each of the 11 alphabet bytes + {# tab NUL e . u CR T 0xff} at precisions ns and s (thorough: additionally every second mutation over the 11-byte alphabet); family lines: every sequence of 1..3 (thorough 4) of 12 lines of known well-formedness (4 valid incl. quoted newline and escapes, 5 malformed incl. duplicate tag and trailing backslash, blank, whitespace, comment) joined by \\n with/without final \\n, reference = concatenation of the known verdicts; family limits: composite key size MaxKeyLength−1/=/+1 (3 shapes) and timestamps at Min/Max±1 and int64 overflow × {ns,us,ms,s}; family timestamps: for every precision {ns,us,ms,s} (multiplier 1/1e3/1e6/1e9) every int64 unit count u = ±x (≈3.5·10³ lines in total) with x ∈ {0..10, 2^j−1..2^j+1 (j≤63), 10^e−1..10^e+1 and d·10^e (d∈{2,3,5,9}, e≤18, i.e. up to 19 digits), MaxNanoTime−3..+3, Max/MinNanoTime÷mult −2..+2, ⌊K·2^63/mult⌋−2..+2 for K∈{1..24,32,50,64,100,128,256,1000,1024,2^16,10^5,10^6,2^20,2^24,10^8,10^9,2^30}} that fits int64; reference = exact product u·mult in math/big: the line must be rejected (and named by the error) iff the product is outside [MinNanoTime,MaxNanoTime], else the point's time must equal the product; family tags: lines \"tg,k1=v0,..,kn=v(n-1) f=1i 7\" for n = 2..4 (thorough 2..5) tags whose key sequence (k1..kn) is EVERY sequence over the key alphabet {a, b, ab, a-, 0} (thorough + ba) — i.e. every multiset of keys with and without repeated keys in every ordering, sorted and unsorted; prefix pairs whose extension byte lies above / below '=' — with pairwise distinct values, each in 4 contexts (alone, after a well-formed line, before a well-formed line, followed by the line with the reversed key sequence); reference from the statement: a line that repeats a tag key must be rejected and named by the error and yields no point, a line with pairwise distinct keys must be returned as the point whose tags are the given pairs ordered bytewise by key. Per input: models.ParsePointsWithPrecision (and http/points.Parser for limits, timestamps, tags, mutants, lines≤2, bytes≤4/5) must return within 10 s without panic; every returned point: non-empty measurement, ≥1 field, no field with an empty key, readable fields, unique tag keys, key+4+field ≤ MaxKeyLength, time in [MinNanoTime,MaxNanoTime]; per-line exactness: result = concatenation of the results of the \\n-separated lines parsed alone and error = their errors joined (inputs with a '\"' may keep a newline inside a group that contains a quote). non-trivial = input returns ≥1 point, or contains a newline, or has a by-construction expectation (cases distinct by construction)",
		Assumptions: []string{
			"arbitrary bytes beyond length 7 / outside the alphabet are not covered except through the template mutations",
			"per-line exactness on the bytes/mutants families is metamorphic (single-line results come from the parser itself); the lines, limits, timestamps and tags families use verdicts known by construction",
			"hang detection uses a 10 s wall-clock watchdog per input (normal cost ≈ 1 µs)",
		},
		QuickBudgetS: 45, ThoroughBudgetS: 800,
		Run:    runWithWatchdog,
		Replay: replay,
	})
}
