// C04: compaction preserves the logical content of TSM files.
//
// Bounded-exhaustive over small sets of real TSM files (and cache contents) run through the real
// Compactor (CompactFull / CompactFast with every points-per-block setting, WriteSnapshot, and the
// cache key iterator); the output files are parsed independently from their bytes (tsmkit.ReadRawTSM)
// and compared with the reference merge of tsmkit written from the statement.
package c04

import (
	"bytes"
	"context"
	"encoding/json"
	"fmt"
	"os"
	"path/filepath"
	"runtime"
	"runtime/debug"
	"sort"
	"strings"
	"testing"
	"time"

	"github.com/influxdata/influxdb/v2/tsdb"
	"github.com/influxdata/influxdb/v2/tsdb/engine/tsm1"
	"go.uber.org/zap"
	"verif/h/tsmkit"
	"verif/h/vlib"
)

// KeyLayout is the block structure of one key (identified by its block type) in one file / batch.
type KeyLayout struct {
	Type   string        `json:"type"`
	Blocks tsmkit.Layout `json:"blocks"`
}

// FileSpec is one input TSM file (files[0] is the oldest) or, for cache cases, one write batch.
type FileSpec struct {
	Keys  []KeyLayout    `json:"keys"`
	Tombs tsmkit.TombSet `json:"tombstones,omitempty"` // applied to every key of the file
	// Reverse (cache batches only): the batch's values are written in descending time order.
	Reverse bool `json:"reverse,omitempty"`
}

// Case is one compaction / snapshot run.
type Case struct {
	Kind  string     `json:"kind"` // compact | snapshot | cacheiter | rollover
	Via   string     `json:"via,omitempty"`
	Files []FileSpec `json:"files,omitempty"`
	Fast  bool       `json:"fast,omitempty"`
	PPB   int        `json:"points_per_block,omitempty"`
	// rollover cases: two files with NBlocks one-point blocks in total for the Float key (split
	// NBlocks/2 : rest, consecutive timestamps), optionally a trailing Integer key with one point,
	// optionally a tombstone [1,1] on file 1 to force the decode path.
	NBlocks   int  `json:"n_blocks,omitempty"`
	SecondKey bool `json:"second_key,omitempty"`
	Tomb11    bool `json:"tombstone_1_1,omitempty"`
}

const (
	viaOpen   = "FileStore.Open"
	viaPooled = "pooled-readers"
)

var ppbs = []int{1, 2, 3, 1000}

func tombVariants(maxT int64) []tsmkit.TombSet {
	return []tsmkit.TombSet{
		nil,
		{tsmkit.FullRange},
		{{Min: 2, Max: 3}},
		{{Min: 1, Max: 1}},
		{{Min: maxT, Max: maxT + 4}},
		{{Min: 1, Max: 1}, {Min: 2, Max: 3}},
	}
}

func modeName(fast bool) string {
	if fast {
		return "CompactFast"
	}
	return "CompactFull"
}

func sameLayoutAllTypes(l tsmkit.Layout) []KeyLayout {
	var ks []KeyLayout
	for _, t := range tsmkit.AllTypes {
		ks = append(ks, KeyLayout{Type: tsmkit.TypeName(t), Blocks: l})
	}
	return ks
}

func (f FileSpec) keyData() ([]tsmkit.KeyData, [][]byte) {
	var kd []tsmkit.KeyData
	var keys [][]byte
	for _, k := range f.Keys {
		typ, ok := tsmkit.TypeByName(k.Type)
		if !ok || len(k.Blocks) == 0 {
			continue
		}
		kd = append(kd, tsmkit.KeyData{Key: tsmkit.KeyFor(typ), Typ: typ, Blocks: k.Blocks})
		keys = append(keys, tsmkit.KeyFor(typ))
	}
	sort.Slice(keys, func(i, j int) bool { return bytes.Compare(keys[i], keys[j]) < 0 })
	return kd, keys
}

func (f FileSpec) String() string {
	var ks []string
	same := len(f.Keys) == len(tsmkit.AllTypes)
	for _, k := range f.Keys {
		same = same && k.Blocks.String() == f.Keys[0].Blocks.String()
	}
	if same {
		ks = append(ks, "all5types="+f.Keys[0].Blocks.String())
	} else {
		for _, k := range f.Keys {
			ks = append(ks, k.Type+"="+k.Blocks.String())
		}
	}
	s := strings.Join(ks, ",")
	if len(f.Tombs) > 0 {
		s += " tomb=" + f.Tombs.String()
	}
	if f.Reverse {
		s += " (written descending)"
	}
	return s
}

func describe(cs Case) string {
	var fs []string
	for i, f := range cs.Files {
		fs = append(fs, fmt.Sprintf("#%d{%s}", i+1, f))
	}
	switch cs.Kind {
	case "compact":
		return fmt.Sprintf("%s(pointsPerBlock=%d) of files %s", modeName(cs.Fast), cs.PPB, strings.Join(fs, " "))
	case "snapshot":
		return fmt.Sprintf("Compactor.WriteSnapshot of a cache written with batches %s", strings.Join(fs, " "))
	case "cacheiter":
		return fmt.Sprintf("NewCacheKeyIterator(size=%d) over a cache written with batches %s", cs.PPB, strings.Join(fs, " "))
	case "rollover":
		return fmt.Sprintf("%s(pointsPerBlock=%d) of two files with %d one-point blocks of one key (secondKey=%v tombstone[1,1]=%v)", modeName(cs.Fast), cs.PPB, cs.NBlocks, cs.SecondKey, cs.Tomb11)
	}
	return cs.Kind
}

// ---- reference model ----

// keyModel is the expected logical content of one key after merging the inputs.
type keyModel struct {
	typ      byte
	want     []tsmkit.Point  // required points, ascending
	optional map[int64]int64 // statement-silent timestamps (newest holder tombstoned, older holder live)
}

func reference(files []FileSpec) map[string]*keyModel {
	out := map[string]*keyModel{}
	for _, typ := range tsmkit.AllTypes {
		name := tsmkit.TypeName(typ)
		var per [][]tsmkit.Point
		newestHolderLive := map[int64]bool{}
		present := false
		for i, f := range files {
			var l tsmkit.Layout
			for _, k := range f.Keys {
				if k.Type == name {
					l = k.Blocks
				}
			}
			if len(l) > 0 {
				present = true
			}
			per = append(per, tsmkit.LivePoints(i+1, l, f.Tombs))
			for _, t := range l.Times() {
				newestHolderLive[t] = !f.Tombs.Covers(t)
			}
		}
		if !present {
			continue
		}
		km := &keyModel{typ: typ}
		for _, p := range tsmkit.MergeNewestWins(per) {
			if !newestHolderLive[p.T] {
				if km.optional == nil {
					km.optional = map[int64]int64{}
				}
				km.optional[p.T] = p.Code
				continue
			}
			km.want = append(km.want, p)
		}
		out[string(tsmkit.KeyFor(typ))] = km
	}
	return out
}

// inputBlockSets lists, per key, the time sets of the input blocks (to recognise pass-through blocks).
func inputBlockSets(files []FileSpec) map[string][]string {
	out := map[string][]string{}
	for _, f := range files {
		for _, k := range f.Keys {
			typ, ok := tsmkit.TypeByName(k.Type)
			if !ok {
				continue
			}
			for _, b := range k.Blocks {
				out[string(tsmkit.KeyFor(typ))] = append(out[string(tsmkit.KeyFor(typ))], fmt.Sprint(b))
			}
		}
	}
	return out
}

type finding struct{ clause, feature, detail string }

func hasClause(fs []finding, clause string) bool {
	for _, f := range fs {
		if f.clause == clause {
			return true
		}
	}
	return false
}

// judgeOutput checks the parsed output files (in returned order) against the statement.
// ppb<=0 disables the block size clause.
func judgeOutput(outs [][]tsmkit.RawKey, model map[string]*keyModel, ppb int, inBlocks map[string][]string) []finding {
	var fs []finding
	add := func(clause, feature, f string, a ...any) {
		for _, x := range fs {
			if x.clause == clause && x.feature == feature {
				return
			}
		}
		fs = append(fs, finding{clause, feature, fmt.Sprintf(f, a...)})
	}
	type acc struct {
		pts      []tsmkit.Point
		lastMax  int64
		nblocks  int
		finished bool
	}
	got := map[string]*acc{}
	var lastKey []byte
	for fi, keys := range outs {
		if len(keys) == 0 {
			add("empty-output-file", "", "output file %d has no keys", fi+1)
		}
		for ki, rk := range keys {
			if lastKey != nil {
				c := bytes.Compare(lastKey, rk.Key)
				if c > 0 || (c == 0 && ki > 0) {
					add("keys-not-ascending", "", "output file %d: key %q follows %q", fi+1, rk.Key, lastKey)
				}
			}
			lastKey = rk.Key
			km := model[string(rk.Key)]
			if km == nil {
				add("unexpected-key", "", "output holds key %q that no input holds", rk.Key)
				continue
			}
			if rk.Typ != km.typ {
				add("type-changed", "", "key %q has index type %d, inputs have %d", rk.Key, rk.Typ, km.typ)
			}
			a := got[string(rk.Key)]
			if a == nil {
				a = &acc{}
				got[string(rk.Key)] = a
			}
			if len(rk.Blocks) == 0 {
				add("key-without-blocks", "", "key %q has an index record without blocks", rk.Key)
			}
			for bi, b := range rk.Blocks {
				if b.Typ != km.typ {
					add("type-changed", "", "key %q block %d has block type %d, inputs have %d", rk.Key, bi, b.Typ, km.typ)
				}
				if len(b.Points) == 0 {
					add("empty-block", "", "key %q block %d is empty", rk.Key, bi)
					continue
				}
				for i := 1; i < len(b.Points); i++ {
					if b.Points[i].T <= b.Points[i-1].T {
						add("block-not-sorted", "", "key %q block %d: t=%d after t=%d", rk.Key, bi, b.Points[i].T, b.Points[i-1].T)
					}
				}
				mn, mx := b.Points[0].T, b.Points[len(b.Points)-1].T
				if b.MinTime != mn || b.MaxTime != mx {
					add("index-minmax-mismatch", "", "key %q block %d: index says [%d,%d], decoded block spans [%d,%d]", rk.Key, bi, b.MinTime, b.MaxTime, mn, mx)
				}
				if a.nblocks > 0 && b.MinTime <= a.lastMax {
					add("blocks-overlap", "", "key %q: block [%d,%d] starts at or before the previous block's max %d", rk.Key, b.MinTime, b.MaxTime, a.lastMax)
				}
				if b.MaxTime > a.lastMax || a.nblocks == 0 {
					a.lastMax = b.MaxTime
				}
				a.nblocks++
				if ppb > 0 && len(b.Points) > ppb {
					var ts []int64
					for _, p := range b.Points {
						ts = append(ts, p.T)
					}
					pass := false
					for _, s := range inBlocks[string(rk.Key)] {
						pass = pass || s == fmt.Sprint(ts)
					}
					add("block-exceeds-points-per-block", fmt.Sprintf("passthrough-of-input-block=%v", pass),
						"key %q block %v has %d points, requested points-per-block is %d", rk.Key, ts, len(b.Points), ppb)
				}
				a.pts = append(a.pts, b.Points...)
			}
		}
	}
	// logical content
	var mkeys []string
	for k := range model {
		mkeys = append(mkeys, k)
	}
	sort.Strings(mkeys)
	for _, k := range mkeys {
		km := model[k]
		var pts []tsmkit.Point
		if a := got[k]; a != nil {
			pts = a.pts
		}
		seen := map[int64]int{}
		val := map[int64]int64{}
		for _, p := range pts {
			seen[p.T]++
			val[p.T] = p.Code
		}
		wantAt := map[int64]int64{}
		for _, p := range km.want {
			wantAt[p.T] = tsmkit.ObservedCode(km.typ, p.Code)
			if seen[p.T] == 0 {
				add("lost-point", "", "key %q: live point t=%d is not in the output", k, p.T)
			}
		}
		for _, p := range pts {
			w, ok := wantAt[p.T]
			if !ok {
				if o, okk := km.optional[p.T]; okk {
					w = tsmkit.ObservedCode(km.typ, o)
				} else {
					add("resurrected-point", "", "key %q: output holds t=%d which is deleted / not in any input", k, p.T)
					continue
				}
			}
			if seen[p.T] > 1 {
				add("duplicate-point", "", "key %q: t=%d appears %d times", k, p.T, seen[p.T])
			}
			if p.Code != w {
				add("stale-value", "", "key %q: t=%d has value code %d, the newest input holding it live has %d", k, p.T, p.Code, w)
			}
		}
	}
	return fs
}

func fmtOutputs(outs [][]tsmkit.RawKey) string {
	var sb strings.Builder
	for fi, keys := range outs {
		fmt.Fprintf(&sb, "out%d{", fi+1)
		for _, rk := range keys {
			name := string(rk.Key)
			if i := strings.Index(name, "typ="); i >= 0 {
				name = name[i+4:]
				if j := strings.Index(name, "#"); j >= 0 {
					name = name[:j]
				}
			}
			fmt.Fprintf(&sb, " %s:", name)
			if len(rk.Blocks) > 8 {
				fmt.Fprintf(&sb, "(%d blocks)", len(rk.Blocks))
				continue
			}
			for _, b := range rk.Blocks {
				sb.WriteString("[")
				for i, p := range b.Points {
					if i > 0 {
						sb.WriteString(" ")
					}
					fmt.Fprintf(&sb, "%d:%d", p.T, p.Code)
				}
				sb.WriteString("]")
			}
		}
		sb.WriteString(" } ")
	}
	if sb.Len() == 0 {
		return "(no output file)"
	}
	return sb.String()
}

// ---- running the compactor ----

const gcEvery = 48

var gcCount int

// gcTick is called once per written output; see the comment in Run.
func gcTick() {
	if gcCount++; gcCount%gcEvery == 0 {
		runtime.GC()
	}
}

type env struct {
	outDir string
	comp   *tsm1.Compactor
}

func newEnv(outDir string) *env {
	c := tsm1.NewCompactor()
	c.Dir = outDir
	c.Open()
	return &env{outDir: outDir, comp: c}
}

// compact runs one compaction and returns the parsed outputs; the output files are removed.
// keep lists file names that legitimately live in outDir (inputs when they share the directory).
func (e *env) compact(fs *tsm1.FileStore, paths []string, fast bool, ppb int, keep map[string]bool, crossCheck bool) (outs [][]tsmkit.RawKey, fnds []finding) {
	gcTick()
	e.comp.FileStore = fs
	var files []string
	var err error
	if fast {
		files, err = e.comp.CompactFast(paths, zap.NewNop(), ppb)
	} else {
		files, err = e.comp.CompactFull(paths, zap.NewNop(), ppb)
	}
	defer e.clean(keep)
	if err != nil {
		return nil, []finding{{"error", "", "compaction returned error: " + strings.ReplaceAll(err.Error(), e.outDir, "<dir>")}}
	}
	return e.collect(files, keep, crossCheck)
}

// collect parses the returned files and checks the directory for strays.
func (e *env) collect(files []string, keep map[string]bool, crossCheck bool) (outs [][]tsmkit.RawKey, fnds []finding) {
	returned := map[string]bool{}
	for _, f := range files {
		returned[filepath.Base(f)] = true
		if filepath.Dir(f) != e.outDir {
			fnds = append(fnds, finding{"output-outside-dir", "", "returned file " + filepath.Base(f) + " is not in the compactor's directory"})
		}
		keys, err := tsmkit.ReadRawTSM(f)
		if err != nil {
			fnds = append(fnds, finding{"unreadable-output", "", "output " + filepath.Base(f) + ": " + strings.ReplaceAll(err.Error(), e.outDir, "<dir>")})
			continue
		}
		outs = append(outs, keys)
		if crossCheck {
			if d := readerCrossCheck(f, keys); d != "" {
				fnds = append(fnds, finding{"tsmreader-disagrees-with-file-bytes", "", "output " + filepath.Base(f) + ": " + d})
			}
		}
	}
	ents, _ := os.ReadDir(e.outDir)
	for _, en := range ents {
		if !returned[en.Name()] && !keep[en.Name()] {
			fnds = append(fnds, finding{"stray-file", "", "file " + en.Name() + " left in the directory but not returned"})
		}
	}
	return outs, fnds
}

func (e *env) clean(keep map[string]bool) {
	ents, _ := os.ReadDir(e.outDir)
	for _, en := range ents {
		if !keep[en.Name()] {
			os.RemoveAll(filepath.Join(e.outDir, en.Name()))
		}
	}
}

// readerCrossCheck reads an output file with the repo's TSMReader (BlockIterator + ReadAll) and
// compares with the independent parse.
func readerCrossCheck(path string, keys []tsmkit.RawKey) string {
	f, err := os.Open(path)
	if err != nil {
		return "harness: " + err.Error()
	}
	r, err := tsm1.NewTSMReader(f)
	if err != nil {
		f.Close()
		return "NewTSMReader: " + err.Error()
	}
	defer r.Close()
	type blk struct {
		key      string
		min, max int64
		typ      byte
		n        int
	}
	var want, got []blk
	for _, rk := range keys {
		for _, b := range rk.Blocks {
			want = append(want, blk{string(rk.Key), b.MinTime, b.MaxTime, rk.Typ, len(b.Points)})
		}
	}
	it := r.BlockIterator()
	for it.Next() {
		key, mn, mx, typ, _, buf, err := it.Read()
		if err != nil {
			return "BlockIterator.Read: " + err.Error()
		}
		n, err := tsm1.BlockCount(buf)
		if err != nil {
			return "BlockCount: " + err.Error()
		}
		got = append(got, blk{string(key), mn, mx, typ, n})
	}
	if it.Err() != nil {
		return "BlockIterator: " + it.Err().Error()
	}
	if fmt.Sprint(want) != fmt.Sprint(got) {
		return fmt.Sprintf("BlockIterator yields %v, file bytes hold %v", got, want)
	}
	for _, rk := range keys {
		vs, err := r.ReadAll(rk.Key)
		if err != nil {
			return "ReadAll: " + err.Error()
		}
		var a, b []tsmkit.Point
		for _, v := range vs {
			a = append(a, tsmkit.Point{T: v.UnixNano(), Code: tsmkit.ValueCode(v)})
		}
		for _, bl := range rk.Blocks {
			b = append(b, bl.Points...)
		}
		if fmt.Sprint(a) != fmt.Sprint(b) {
			return fmt.Sprintf("ReadAll(%q) = %v, file bytes hold %v", rk.Key, a, b)
		}
	}
	return ""
}

// ---- bookkeeping ----

type ocKey struct {
	kind, mode string
	ppb        int
	nout       int8
	nblocks    int8 // total blocks of the first key present, capped
	tomb       bool
	silent     bool
	empty      bool
	clause     string
}

func (k ocKey) String() string {
	if k.clause != "" {
		return "VIOLATION/" + k.clause
	}
	s := fmt.Sprintf("%s/%s/ppb=%d/outfiles=%d/blocks=%d/tomb=%v", k.kind, k.mode, k.ppb, k.nout, k.nblocks, k.tomb)
	if k.silent {
		s += "/statement-silent-ts"
	}
	return s
}

type tally struct {
	evals, nontrivial int64
	oc                map[ocKey]int64
}

func (t *tally) flush(c *vlib.Ctx) {
	c.Eval(t.evals)
	c.NontrivialN(t.nontrivial)
	for k, n := range t.oc {
		c.OutcomeN(k.String(), n)
	}
	t.evals, t.nontrivial, t.oc = 0, 0, map[ocKey]int64{}
}

func featuresOf(cs Case) string {
	tomb := false
	for _, f := range cs.Files {
		tomb = tomb || len(f.Tombs) > 0
	}
	p := "small"
	if cs.PPB >= 1000 {
		p = "1000"
	}
	return fmt.Sprintf("files=%d,tombstones=%v,ppb=%s", len(cs.Files), tomb, p)
}

func sigOf(cs Case, f finding) string {
	call := cs.Kind
	switch cs.Kind {
	case "compact", "rollover":
		call = "Compactor." + modeName(cs.Fast)
		if cs.Kind == "rollover" {
			call += "/rollover"
		}
	case "snapshot":
		call = "Compactor.WriteSnapshot"
	case "cacheiter":
		call = "NewCacheKeyIterator"
	}
	parts := []string{call, f.clause}
	if f.feature != "" {
		parts = append(parts, f.feature)
	}
	// pass-through of an oversized input block does not depend on the shape of the file set
	if !(f.clause == "block-exceeds-points-per-block" && f.feature == "passthrough-of-input-block=true") {
		parts = append(parts, featuresOf(cs))
	}
	return vlib.JoinSig(parts...)
}

func report(c *vlib.Ctx, tl *tally, cs Case, outs [][]tsmkit.RawKey, fnds []finding, k ocKey) {
	tl.evals++
	if len(fnds) == 0 {
		tl.oc[k]++
		return
	}
	for _, f := range fnds {
		tl.oc[ocKey{clause: f.clause}]++
		c.Violation(sigOf(cs, f), fmt.Sprintf("%s: %s; output: %s", describe(cs), f.detail, fmtOutputs(outs)), cs)
	}
}

func outcomeOf(cs Case, outs [][]tsmkit.RawKey, model map[string]*keyModel) ocKey {
	k := ocKey{kind: cs.Kind, mode: modeName(cs.Fast), ppb: cs.PPB, nout: int8(len(outs))}
	if cs.Kind != "compact" {
		k.mode = "-"
	}
	nb := 0
	var first []byte
	for _, keys := range outs {
		for _, rk := range keys {
			if first == nil {
				first = rk.Key
			}
			if bytes.Equal(rk.Key, first) {
				nb += len(rk.Blocks)
			}
		}
	}
	if nb > 6 {
		nb = 6
	}
	k.nblocks = int8(nb)
	for _, f := range cs.Files {
		k.tomb = k.tomb || len(f.Tombs) > 0
	}
	for _, m := range model {
		k.silent = k.silent || len(m.optional) > 0
	}
	return k
}

// nontrivialSet: two input files hold blocks of the same key that overlap in time, or a tombstone
// partially covers a block.
func nontrivialSet(files []FileSpec) bool {
	for i := range files {
		for _, ka := range files[i].Keys {
			for _, a := range ka.Blocks {
				for _, r := range files[i].Tombs {
					if r.Min <= a[len(a)-1] && r.Max >= a[0] && !(r.Min <= a[0] && r.Max >= a[len(a)-1]) {
						return true
					}
				}
				for j := i + 1; j < len(files); j++ {
					for _, kb := range files[j].Keys {
						if ka.Type != kb.Type {
							continue
						}
						for _, b := range kb.Blocks {
							if a[0] <= b[len(b)-1] && b[0] <= a[len(a)-1] {
								return true
							}
						}
					}
				}
			}
		}
	}
	return false
}

// ---- file pools ----

// variantSpace describes the per-file variants of a family.
type variantSpace struct {
	name  string
	specs []FileSpec // every file variant (layouts x tombstone sets), simplest first
	ntomb int        // variant index % ntomb == 0  <=>  no tombstones
}

// spaceSameLayout: 5 keys (one per type) sharing one layout, x tombstone family.
func spaceSameLayout(maxT int64) variantSpace {
	tombs := tombVariants(maxT)
	vs := variantSpace{name: fmt.Sprintf("same-layout N=%d", maxT), ntomb: len(tombs)}
	for _, l := range tsmkit.Layouts(int(maxT), 2) {
		for _, ts := range tombs {
			vs.specs = append(vs.specs, FileSpec{Keys: sameLayoutAllTypes(l), Tombs: ts})
		}
	}
	return vs
}

// spaceTwoKeys: a Float key and an Integer key with independent layouts (either may be absent, not
// both) x a reduced tombstone family applied to both keys.
func spaceTwoKeys(maxT int64) variantSpace {
	tombs := []tsmkit.TombSet{nil, {tsmkit.FullRange}, {{Min: 1, Max: 1}}, {{Min: 2, Max: 3}}}
	vs := variantSpace{name: fmt.Sprintf("two-keys N=%d", maxT), ntomb: len(tombs)}
	ls := append([]tsmkit.Layout{nil}, tsmkit.Layouts(int(maxT), 2)...)
	for _, la := range ls {
		for _, lb := range ls {
			if la == nil && lb == nil {
				continue
			}
			for _, ts := range tombs {
				var ks []KeyLayout
				if la != nil {
					ks = append(ks, KeyLayout{Type: "Float", Blocks: la})
				}
				if lb != nil {
					ks = append(ks, KeyLayout{Type: "Integer", Blocks: lb})
				}
				vs.specs = append(vs.specs, FileSpec{Keys: ks, Tombs: ts})
			}
		}
	}
	return vs
}

type pool struct {
	dir     string
	vs      variantSpace
	readers [][]tsm1.TSMFile
}

func (p *pool) tsm(pos, v int) string {
	return filepath.Join(p.dir, fmt.Sprintf("g%d", pos), fmt.Sprintf("v%05d", v), tsmkit.FileName(pos, 1))
}

func writeFile(path string, pos int, f FileSpec) error {
	kd, keys := f.keyData()
	if err := tsmkit.WriteTSM(path, pos, kd); err != nil {
		return err
	}
	return tsmkit.WriteTombstone(path, keys, f.Tombs)
}

func buildPool(dir string, nfiles int, vs variantSpace, openReaders bool) (*pool, error) {
	p := &pool{dir: dir, vs: vs}
	if err := os.MkdirAll(dir, 0o777); err != nil {
		return nil, err
	}
	tombMaster := map[string]string{}
	for pos := 1; pos <= nfiles; pos++ {
		var rs []tsm1.TSMFile
		base := ""
		for v, spec := range vs.specs {
			path := p.tsm(pos, v)
			if err := os.MkdirAll(filepath.Dir(path), 0o777); err != nil {
				return nil, err
			}
			kd, keys := spec.keyData()
			if v%vs.ntomb == 0 {
				base = path
				if err := tsmkit.WriteTSM(path, pos, kd); err != nil {
					return nil, err
				}
			} else {
				if err := os.Link(base, path); err != nil {
					return nil, err
				}
				// tombstone file content depends only on (keys, ranges)
				id := fmt.Sprintf("%q/%v", keys, spec.Tombs)
				m, ok := tombMaster[id]
				if !ok {
					m = filepath.Join(dir, fmt.Sprintf("tomb%d.tsm", len(tombMaster)))
					if err := tsmkit.WriteTombstone(m, keys, spec.Tombs); err != nil {
						return nil, err
					}
					tombMaster[id] = m
				}
				if err := os.Link(tsmkit.TombstonePath(m), tsmkit.TombstonePath(path)); err != nil {
					return nil, err
				}
			}
			if openReaders {
				f, err := os.Open(path)
				if err != nil {
					return nil, err
				}
				r, err := tsm1.NewTSMReader(f, tsm1.WithParseFileNameFunc(tsm1.DefaultParseFileName))
				if err != nil {
					return nil, err
				}
				rs = append(rs, r)
			}
		}
		p.readers = append(p.readers, rs)
	}
	return p, nil
}

func (p *pool) close() {
	for _, rs := range p.readers {
		for _, r := range rs {
			r.Close()
		}
	}
	os.RemoveAll(p.dir)
}

// exploreCompactions enumerates every nfiles-tuple of file variants x {CompactFull, CompactFast} x ppbs.
func exploreCompactions(c *vlib.Ctx, scratch string, idx *int64, via string, nfiles int, vs variantSpace, maxTombFiles int, what string) bool {
	p, err := buildPool(filepath.Join(scratch, "pool"), nfiles, vs, via == viaPooled)
	if err != nil {
		c.HarnessError("building file pool: " + err.Error())
		return false
	}
	defer p.close()
	t0 := time.Now()
	c.Logf("%s: pool of %d variants x %d positions built", what, len(vs.specs), nfiles)
	defer func() { c.Logf("%s: finished after %s", what, time.Since(t0)) }()
	tl := &tally{oc: map[ocKey]int64{}}
	defer tl.flush(c)
	outDir := filepath.Join(scratch, "out")
	os.MkdirAll(outDir, 0o777)
	defer os.RemoveAll(outDir)
	e := newEnv(outDir)
	defer e.comp.Close()
	nv := len(vs.specs)
	choice := make([]int, nfiles)
	for {
		ok := true
		if maxTombFiles >= 0 {
			n := 0
			for _, v := range choice {
				if v%vs.ntomb != 0 {
					n++
				}
			}
			ok = n <= maxTombFiles
		}
		if ok {
			*idx++
		}
		if ok && c.Mine(*idx) {
			if c.Expired() {
				c.Cap("budget expired during " + what)
				return false
			}
			files := make([]FileSpec, nfiles)
			paths := make([]string, nfiles)
			for i, v := range choice {
				files[i] = vs.specs[v]
			}
			model := reference(files)
			inBlocks := inputBlockSets(files)
			nt := nontrivialSet(files)
			var fs *tsm1.FileStore
			keep := map[string]bool{}
			if via == viaPooled {
				rs := make([]tsm1.TSMFile, nfiles)
				for i, v := range choice {
					rs[i] = p.readers[i][v]
					paths[i] = p.tsm(i+1, v)
				}
				fs = tsm1.VerifFileStoreOf(rs)
			} else {
				for i, v := range choice {
					dst := filepath.Join(outDir, tsmkit.FileName(i+1, 1))
					paths[i] = dst
					keep[filepath.Base(dst)] = true
					if err := os.Link(p.tsm(i+1, v), dst); err != nil {
						c.HarnessError(err.Error())
						return false
					}
					if len(files[i].Tombs) > 0 {
						keep[filepath.Base(tsmkit.TombstonePath(dst))] = true
						if err := os.Link(tsmkit.TombstonePath(p.tsm(i+1, v)), tsmkit.TombstonePath(dst)); err != nil {
							c.HarnessError(err.Error())
							return false
						}
					}
				}
				fs = tsm1.NewFileStore(outDir, tsdb.EngineTags{})
				if err := fs.Open(context.Background()); err != nil {
					c.HarnessError("FileStore.Open: " + err.Error())
					return false
				}
			}
			for _, fast := range []bool{false, true} {
				for _, ppb := range ppbs {
					cs := Case{Kind: "compact", Via: via, Files: files, Fast: fast, PPB: ppb}
					var outs [][]tsmkit.RawKey
					var fnds []finding
					if pn, d := vlib.Guard(func() { outs, fnds = e.compact(fs, paths, fast, ppb, keep, via == viaOpen && ppb == 2) }); pn {
						fnds = []finding{{"panic", strings.TrimSpace(d[strings.LastIndex(d, "@")+1:]), d}}
						e.clean(keep)
					} else if !hasClause(fnds, "error") {
						fnds = append(fnds, judgeOutput(outs, model, ppb, inBlocks)...)
					}
					if nt {
						tl.nontrivial++
					}
					report(c, tl, cs, outs, fnds, outcomeOf(cs, outs, model))
					if len(fnds) == 0 && nt && len(files[0].Tombs) > 0 && ppb == 2 && c.WantSample() {
						c.Sample(map[string]any{"case": cs, "output": fmtOutputs(outs)})
					}
				}
			}
			if via == viaOpen {
				fs.Close()
				e.clean(nil)
			}
			c.Extra("file_sets_"+strings.ReplaceAll(via, ".", "_"), 1)
		}
		k := nfiles - 1
		for k >= 0 {
			choice[k]++
			if choice[k] < nv {
				break
			}
			choice[k] = 0
			k--
		}
		if k < 0 {
			return true
		}
	}
}

// ---- cache snapshots ----

func cacheOf(batches []FileSpec) (*tsm1.Cache, error) {
	cache := tsm1.NewCache(0, tsdb.EngineTags{})
	for bi, b := range batches {
		m := map[string][]tsm1.Value{}
		for _, k := range b.Keys {
			typ, ok := tsmkit.TypeByName(k.Type)
			if !ok {
				continue
			}
			ts := k.Blocks.Times()
			vs := make([]tsm1.Value, 0, len(ts))
			for _, t := range ts {
				vs = append(vs, tsmkit.NewValue(typ, t, tsmkit.Code(bi+1, t)))
			}
			if b.Reverse {
				for i, j := 0, len(vs)-1; i < j; i, j = i+1, j-1 {
					vs[i], vs[j] = vs[j], vs[i]
				}
			}
			if len(vs) > 0 {
				m[string(tsmkit.KeyFor(typ))] = vs
			}
		}
		if err := cache.WriteMulti(m); err != nil {
			return nil, err
		}
	}
	return cache, nil
}

// runCacheCase: kind snapshot (WriteSnapshot as the engine does: Snapshot, Deduplicate, WriteSnapshot)
// or cacheiter (NewCacheKeyIterator with a small block size, drained directly).
func runCacheCase(e *env, fs *tsm1.FileStore, cs Case) (outs [][]tsmkit.RawKey, fnds []finding) {
	gcTick()
	cache, err := cacheOf(cs.Files)
	if err != nil {
		return nil, []finding{{"error", "", "Cache.WriteMulti: " + err.Error()}}
	}
	snap, err := cache.Snapshot()
	if err != nil {
		return nil, []finding{{"error", "", "Cache.Snapshot: " + err.Error()}}
	}
	snap.Deduplicate()
	model := reference(cs.Files)
	if cs.Kind == "snapshot" {
		e.comp.FileStore = fs
		files, err := e.comp.WriteSnapshot(snap, zap.NewNop())
		defer e.clean(nil)
		if err != nil {
			return nil, []finding{{"error", "", "WriteSnapshot returned error: " + strings.ReplaceAll(err.Error(), e.outDir, "<dir>")}}
		}
		outs, fnds = e.collect(files, nil, false)
		return outs, append(fnds, judgeOutput(outs, model, 1000, nil)...)
	}
	it := tsm1.NewCacheKeyIterator(snap, cs.PPB, nil)
	var keys []tsmkit.RawKey
	for it.Next() {
		key, mn, mx, b, err := it.Read()
		if err != nil {
			return nil, []finding{{"error", "", "cacheKeyIterator.Read: " + err.Error()}}
		}
		rb := tsmkit.RawBlock{MinTime: mn, MaxTime: mx}
		if len(b) > 0 {
			rb.Typ = b[0]
		}
		vals, err := tsm1.DecodeBlock(b, nil)
		if err != nil {
			return nil, []finding{{"error", "", "block of cacheKeyIterator does not decode: " + err.Error()}}
		}
		for _, v := range vals {
			rb.Points = append(rb.Points, tsmkit.Point{T: v.UnixNano(), Code: tsmkit.ValueCode(v)})
		}
		if n := len(keys); n > 0 && bytes.Equal(keys[n-1].Key, key) {
			keys[n-1].Blocks = append(keys[n-1].Blocks, rb)
		} else {
			keys = append(keys, tsmkit.RawKey{Key: append([]byte(nil), key...), Typ: rb.Typ, Blocks: []tsmkit.RawBlock{rb}})
		}
	}
	if err := it.Err(); err != nil {
		return nil, []finding{{"error", "", "cacheKeyIterator.Err: " + err.Error()}}
	}
	if len(keys) > 0 {
		outs = [][]tsmkit.RawKey{keys}
	}
	return outs, judgeOutput(outs, model, cs.PPB, nil)
}

// exploreCache enumerates every cache content written as 1..2 batches; a batch gives a Float key and
// an Integer key any subset of {1..N} each (not both empty), written ascending or descending.
func exploreCache(c *vlib.Ctx, scratch string, idx *int64, maxT int, what string) bool {
	type batch = FileSpec
	var batches []batch
	for ma := 0; ma < 1<<maxT; ma++ {
		for mb := 0; mb < 1<<maxT; mb++ {
			if ma == 0 && mb == 0 {
				continue
			}
			sub := func(m int) tsmkit.Layout {
				var ts []int64
				for t := 1; t <= maxT; t++ {
					if m&(1<<(t-1)) != 0 {
						ts = append(ts, int64(t))
					}
				}
				if ts == nil {
					return nil
				}
				return tsmkit.Layout{ts}
			}
			for _, rev := range []bool{false, true} {
				var ks []KeyLayout
				if l := sub(ma); l != nil {
					ks = append(ks, KeyLayout{Type: "Float", Blocks: l})
				}
				if l := sub(mb); l != nil {
					ks = append(ks, KeyLayout{Type: "Integer", Blocks: l})
				}
				batches = append(batches, batch{Keys: ks, Reverse: rev})
			}
		}
	}
	sort.SliceStable(batches, func(i, j int) bool {
		n := func(b batch) int {
			s := 0
			for _, k := range b.Keys {
				s += k.Blocks.NPoints()
			}
			return s
		}
		return n(batches[i]) < n(batches[j])
	})
	t0 := time.Now()
	defer func() { c.Logf("%s: finished after %s", what, time.Since(t0)) }()
	tl := &tally{oc: map[ocKey]int64{}}
	defer tl.flush(c)
	outDir := filepath.Join(scratch, "snap")
	os.MkdirAll(outDir, 0o777)
	defer os.RemoveAll(outDir)
	e := newEnv(outDir)
	defer e.comp.Close()
	fs := tsm1.NewFileStore(outDir, tsdb.EngineTags{})
	run := func(files []FileSpec) bool {
		*idx++
		if !c.Mine(*idx) {
			return true
		}
		if c.Expired() {
			c.Cap("budget expired during " + what)
			return false
		}
		model := reference(files)
		for _, cs := range []Case{
			{Kind: "snapshot", Files: files, PPB: 1000},
			{Kind: "cacheiter", Files: files, PPB: 1},
			{Kind: "cacheiter", Files: files, PPB: 2},
			{Kind: "cacheiter", Files: files, PPB: 3},
		} {
			var outs [][]tsmkit.RawKey
			var fnds []finding
			if pn, d := vlib.Guard(func() { outs, fnds = runCacheCase(e, fs, cs) }); pn {
				fnds = []finding{{"panic", strings.TrimSpace(d[strings.LastIndex(d, "@")+1:]), d}}
				e.clean(nil)
			}
			if len(files) > 1 {
				tl.nontrivial++
			}
			report(c, tl, cs, outs, fnds, outcomeOf(cs, outs, model))
		}
		return true
	}
	for i := range batches {
		if !run([]FileSpec{batches[i]}) {
			return false
		}
	}
	for i := range batches {
		for j := range batches {
			if !run([]FileSpec{batches[i], batches[j]}) {
				return false
			}
		}
	}
	return true
}

// ---- roll-over at the real per-key block limit (65535 index entries) ----

func rolloverFiles(dir string, cs Case) (paths []string, model map[string]*keyModel, err error) {
	n1 := cs.NBlocks / 2
	fkey, ikey := tsmkit.KeyFor(tsm1.BlockFloat64), tsmkit.KeyFor(tsm1.BlockInteger)
	km := &keyModel{typ: tsm1.BlockFloat64}
	for pos := 1; pos <= 2; pos++ {
		path := filepath.Join(dir, tsmkit.FileName(pos, 1))
		f, err := os.OpenFile(path, os.O_CREATE|os.O_RDWR|os.O_EXCL, 0o666)
		if err != nil {
			return nil, nil, err
		}
		w, err := tsm1.NewTSMWriter(f)
		if err != nil {
			return nil, nil, err
		}
		from, to := 1, n1
		if pos == 2 {
			from, to = n1+1, cs.NBlocks
		}
		for t := from; t <= to; t++ {
			// value = file number (kept small so that Code stays exact for any t)
			if err := w.Write(fkey, tsm1.Values{tsm1.NewFloatValue(int64(t), float64(pos))}); err != nil {
				return nil, nil, err
			}
			if !(cs.Tomb11 && pos == 1 && t == 1) {
				km.want = append(km.want, tsmkit.Point{T: int64(t), Code: int64(pos)})
			}
		}
		if cs.SecondKey && pos == 2 {
			if err := w.Write(ikey, tsm1.Values{tsm1.NewIntegerValue(7, 207)}); err != nil {
				return nil, nil, err
			}
		}
		if err := w.WriteIndex(); err != nil {
			return nil, nil, err
		}
		if err := w.Close(); err != nil {
			return nil, nil, err
		}
		if cs.Tomb11 && pos == 1 {
			if err := tsmkit.WriteTombstone(path, [][]byte{fkey}, tsmkit.TombSet{{Min: 1, Max: 1}}); err != nil {
				return nil, nil, err
			}
		}
		paths = append(paths, path)
	}
	model = map[string]*keyModel{string(fkey): km}
	if cs.SecondKey {
		model[string(ikey)] = &keyModel{typ: tsm1.BlockInteger, want: []tsmkit.Point{{T: 7, Code: 207}}}
	}
	return paths, model, nil
}

// runRollover builds the two big files in a fresh directory, opens a real FileStore and compacts.
func runRollover(cs Case) (outs [][]tsmkit.RawKey, fnds []finding, extra string) {
	dir := vlib.Scratch("c04-roll-")
	defer os.RemoveAll(dir)
	defer runtime.GC()
	paths, model, err := rolloverFiles(dir, cs)
	if err != nil {
		return nil, []finding{{"harness", "", err.Error()}}, ""
	}
	keep := map[string]bool{}
	ents, _ := os.ReadDir(dir)
	for _, en := range ents {
		keep[en.Name()] = true
	}
	fs := tsm1.NewFileStore(dir, tsdb.EngineTags{})
	if err := fs.Open(context.Background()); err != nil {
		return nil, []finding{{"harness", "", "FileStore.Open: " + err.Error()}}, ""
	}
	defer fs.Close()
	e := newEnv(dir)
	defer e.comp.Close()
	outs, fnds = e.compact(fs, paths, cs.Fast, cs.PPB, keep, false)
	if hasClause(fnds, "error") {
		return outs, fnds, ""
	}
	// rollover cases check content, ordering and the per-file block limit; pass-through of one-point
	// blocks never exceeds ppb=1
	fnds = append(fnds, judgeOutput(outs, model, cs.PPB, nil)...)
	var per []string
	for _, keys := range outs {
		n := 0
		for _, rk := range keys {
			if len(rk.Blocks) > 65535 {
				fnds = append(fnds, finding{"too-many-blocks-for-key-in-file", "", fmt.Sprintf("key %q has %d blocks in one file", rk.Key, len(rk.Blocks))})
			}
			n += len(rk.Blocks)
		}
		per = append(per, fmt.Sprint(n))
	}
	return outs, fnds, "blocks per output file: " + strings.Join(per, ",")
}

// rolloverCases: the decode-path variant (tombstone) is quadratic in the number of blocks inside the
// repo's merge loop (~10 s per case): the quick tier keeps only the two boundary sizes for it, and
// these heavy cases come last (consecutive indexes, so one per shard).
func rolloverCases(quick bool) []Case {
	var out []Case
	sizes := []int{65534, 65535, 65536, 65537, 70000}
	for _, n := range sizes {
		for _, second := range []bool{false, true} {
			out = append(out,
				Case{Kind: "rollover", NBlocks: n, SecondKey: second, Fast: true, PPB: 1000},
				Case{Kind: "rollover", NBlocks: n, SecondKey: second, Fast: false, PPB: 1},
			)
		}
	}
	for _, n := range sizes {
		if quick && n != 65535 && n != 65536 {
			continue
		}
		for _, second := range []bool{false, true} {
			out = append(out, Case{Kind: "rollover", NBlocks: n, SecondKey: second, Fast: false, PPB: 1, Tomb11: true})
		}
	}
	return out
}

func exploreRollover(c *vlib.Ctx, idx *int64, heavyOK func() bool) bool {
	t0 := time.Now()
	defer func() { c.Logf("[R] finished after %s", time.Since(t0)) }()
	tl := &tally{oc: map[ocKey]int64{}}
	defer tl.flush(c)
	for _, cs := range rolloverCases(c.Quick()) {
		*idx++
		if !c.Mine(*idx) {
			continue
		}
		if c.Expired() {
			c.Cap("budget expired during roll-over cases")
			return false
		}
		if cs.Tomb11 && !heavyOK() {
			c.Cap("decode-path roll-over cases skipped: too little budget left for a ~10 s case")
			continue
		}
		var outs [][]tsmkit.RawKey
		var fnds []finding
		if pn, d := vlib.Guard(func() { outs, fnds, _ = runRollover(cs) }); pn {
			fnds = []finding{{"panic", strings.TrimSpace(d[strings.LastIndex(d, "@")+1:]), d}}
		}
		for _, f := range fnds {
			if f.clause == "harness" {
				c.HarnessError("rollover: " + f.detail)
				return false
			}
		}
		tl.nontrivial++
		k := ocKey{kind: "rollover", mode: modeName(cs.Fast), ppb: cs.PPB, nout: int8(len(outs)), tomb: cs.Tomb11}
		if cs.NBlocks >= 65535 {
			k.nblocks = 1
		}
		report(c, tl, cs, outs, fnds, k)
	}
	return true
}

// ---- replay ----

func replayCase(cs Case) (bool, string) {
	verdict := func(outs [][]tsmkit.RawKey, fnds []finding, extra string) (bool, string) {
		var ls []string
		for _, f := range fnds {
			ls = append(ls, f.clause+": "+f.detail)
		}
		sort.Strings(ls)
		obs := describe(cs) + "\noutput (t:valuecode, valuecode=100*file+t; boolean: parity of file): " + fmtOutputs(outs)
		if extra != "" {
			obs += "\n" + extra
		}
		obs += "\nfindings: " + strings.Join(ls, " | ")
		return len(fnds) > 0, obs
	}
	switch cs.Kind {
	case "rollover":
		return verdict(runRollover(cs))
	case "snapshot", "cacheiter":
		dir := vlib.Scratch("c04-replay-")
		defer os.RemoveAll(dir)
		e := newEnv(dir)
		defer e.comp.Close()
		outs, fnds := runCacheCase(e, tsm1.NewFileStore(dir, tsdb.EngineTags{}), cs)
		return verdict(outs, fnds, "")
	case "compact":
		dir := vlib.Scratch("c04-replay-")
		defer os.RemoveAll(dir)
		keep := map[string]bool{}
		var paths []string
		for i, f := range cs.Files {
			path := filepath.Join(dir, tsmkit.FileName(i+1, 1))
			if err := writeFile(path, i+1, f); err != nil {
				return false, "harness: " + strings.ReplaceAll(err.Error(), dir, "<dir>")
			}
			paths = append(paths, path)
		}
		ents, _ := os.ReadDir(dir)
		for _, en := range ents {
			keep[en.Name()] = true
		}
		fs := tsm1.NewFileStore(dir, tsdb.EngineTags{})
		if err := fs.Open(context.Background()); err != nil {
			return false, "harness: FileStore.Open: " + strings.ReplaceAll(err.Error(), dir, "<dir>")
		}
		defer fs.Close()
		e := newEnv(dir)
		defer e.comp.Close()
		var outs [][]tsmkit.RawKey
		var fnds []finding
		if pn, d := vlib.Guard(func() { outs, fnds = e.compact(fs, paths, cs.Fast, cs.PPB, keep, true) }); pn {
			return true, describe(cs) + ": " + strings.ReplaceAll(d, dir, "<dir>")
		}
		if !hasClause(fnds, "error") {
			fnds = append(fnds, judgeOutput(outs, reference(cs.Files), cs.PPB, inputBlockSets(cs.Files))...)
		}
		return verdict(outs, fnds, "")
	}
	return false, "unknown case kind " + cs.Kind
}

func TestCheck(t *testing.T) {
	vlib.Main(t, &vlib.Check{
		ID: "C04", Level: "exploration",
		Rule: "input file = per key any non-empty subset of timestamps {1..N} split into 1-2 contiguous blocks, values (file#,t), written with the real TSMWriter/Tombstoner. Families: " +
			"[S] 'same-layout': 5 keys (one per block type) sharing the layout (N=5: 80 layouts, N=4: 32, N=3: 12, N=2: 4) x tombstone set in {none, whole key, [2,3], [1,1], [N,N+4], [1,1]+[2,3]}; " +
			"[K] 'two-keys': a Float and an Integer key with independent layouts (either may be absent) x tombstone set in {none, whole keys, [1,1], [2,3]}; " +
			"every ordered tuple of files x {CompactFull, CompactFast} x pointsPerBlock in {1,2,3,1000} (the optimize strategy is CompactFull with a non-default pointsPerBlock) through the real Compactor; " +
			"[C] cache: 1-2 WriteMulti batches, each giving a Float and an Integer key any subset of {1..N} (not both empty) in ascending or descending order, snapshotted as the engine does and written with Compactor.WriteSnapshot, plus NewCacheKeyIterator with block size 1,2,3; " +
			"[R] roll-over at the real 65535 blocks-per-key limit: two files with n in {65534,65535,65536,65537,70000} one-point blocks of one key in total, with/without a following second key, x {CompactFast, CompactFull ppb=1, CompactFull ppb=1 with a tombstone forcing the decode path (quick: n in {65535,65536} only for this last variant)}. " +
			"QUICK: [S] pairs N=2 via FileStore.Open in one directory (outputs also cross-read with TSMReader BlockIterator+ReadAll for ppb=2); [S] pairs N=4 with a tombstone set on at most one file; [K] pairs N=2; [C] N=3; [R]. " +
			"THOROUGH (in this order): [S] pairs N=3 via FileStore.Open; [C] N=4; [K] pairs N=3 with tombstones on <=1 file; [S] pairs N=4 with all 6x6 tombstone combinations; [R]; [S] triples N=3 with a tombstone set on at most one file; [S] triples N=4 without tombstones; [S] pairs N=5 with all 6x6 tombstone combinations (largest, last: the budget may cap it). Except where noted inputs are real TSMReaders opened once per variant and handed to a FileStore in path order. " +
			"One evaluation = one compaction/snapshot run, its outputs parsed from the file bytes and compared with the newest-file-wins merge minus tombstones; non-trivial = runs whose inputs hold overlapping blocks of one key in two files or a partially tombstoned block (distinct by construction)",
		Assumptions: []string{
			"a point is live in a file when no tombstone range of that file covers it; where the newest file holding a timestamp has it tombstoned but an older file holds it live the statement is silent and both answers are accepted",
			"'later file' = later in the slice handed to the compactor = higher generation",
			"output files are parsed by an independent reader of the documented TSM layout; block payloads are decoded with tsm1.DecodeBlock (block encoding is another property)",
			"'sorted by key' across several output files: keys ascend within a file and a key may continue in the next file only directly after a roll-over",
			"pooled-reader file sets bypass FileStore.Open (an add-only export sets FileStore.files); the FileStore.Open family covers the integrated path",
			"the MaxTSMFileSize (2 GB) roll-over is out of reach; only the 65535-blocks roll-over is exercised",
			"boolean values can only encode the parity of the writing file's number",
		},
		QuickBudgetS: 45, ThoroughBudgetS: 800,
		Run: func(c *vlib.Ctx) {
			t0 := time.Now()
			defer func() { c.Logf("shard %d done after %s", c.Shard, time.Since(t0)) }()
			runtime.GOMAXPROCS(2)
			// Every TSM file the compactor writes allocates ~2 MB of buffers. With the default GC pacing the
			// runtime hands those pages back to the OS and faults them in again for every case, which
			// dominates the run in this VM. Collect by hand every gcEvery compactions instead (see gcTick).
			debug.SetGCPercent(-1)
			debug.SetMemoryLimit(1 << 30) // safety net only
			scratch := vlib.Scratch("c04-")
			defer os.RemoveAll(scratch)
			var idx int64
			// VERIF_C04_PHASES (debugging only): comma-separated phase letters to run, e.g. "S,K"
			on := func(ph string) bool {
				f := os.Getenv("VERIF_C04_PHASES")
				return f == "" || strings.Contains(f, ph)
			}
			heavyOK := func() bool { // a heavy roll-over case is only started in the first ~60% (quick) / 40% (thorough) of the default budget
				if c.Quick() {
					return time.Since(t0) < 28*time.Second
				}
				return time.Since(t0) < 320*time.Second
			}
			if c.Quick() {
				_ = (!on("O") || exploreCompactions(c, scratch, &idx, viaOpen, 2, spaceSameLayout(2), -1, "[S] pairs N=2 via FileStore.Open")) &&
					(!on("K") || exploreCompactions(c, scratch, &idx, viaPooled, 2, spaceTwoKeys(2), -1, "[K] pairs N=2")) &&
					(!on("C") || exploreCache(c, scratch, &idx, 3, "[C] N=3")) &&
					(!on("S") || exploreCompactions(c, scratch, &idx, viaPooled, 2, spaceSameLayout(4), 1, "[S] pairs N=4 (tombstones on <=1 file)")) &&
					(!on("R") || exploreRollover(c, &idx, heavyOK))
				return
			}
			_ = (!on("O") || exploreCompactions(c, scratch, &idx, viaOpen, 2, spaceSameLayout(3), -1, "[S] pairs N=3 via FileStore.Open")) &&
				(!on("C") || exploreCache(c, scratch, &idx, 4, "[C] N=4")) &&
				(!on("K") || exploreCompactions(c, scratch, &idx, viaPooled, 2, spaceTwoKeys(3), 1, "[K] pairs N=3 (tombstones on <=1 file)")) &&
				(!on("S") || exploreCompactions(c, scratch, &idx, viaPooled, 2, spaceSameLayout(4), -1, "[S] pairs N=4")) &&
				(!on("R") || exploreRollover(c, &idx, heavyOK)) &&
				(!on("S") || exploreCompactions(c, scratch, &idx, viaPooled, 3, spaceSameLayout(3), 1, "[S] triples N=3 (tombstones on <=1 file)")) &&
				(!on("S") || exploreCompactions(c, scratch, &idx, viaPooled, 3, spaceSameLayout(4), 0, "[S] triples N=4 without tombstones")) &&
				(!on("S") || exploreCompactions(c, scratch, &idx, viaPooled, 2, spaceSameLayout(5), -1, "[S] pairs N=5"))
		},
		Replay: func(c *vlib.Ctx, raw json.RawMessage) (bool, string) {
			var cs Case
			if err := json.Unmarshal(raw, &cs); err != nil {
				return false, err.Error()
			}
			return replayCase(cs)
		},
	})
}
