package engkit

import (
	"github.com/influxdata/influxdb/v2/models"
	"github.com/influxdata/influxdb/v2/tsdb"
	"github.com/influxdata/influxql"
)

type seriesElem struct {
	name []byte
	tags models.Tags
}

func (e seriesElem) Name() []byte        { return e.name }
func (e seriesElem) Tags() models.Tags   { return e.tags }
func (e seriesElem) Deleted() bool       { return false }
func (e seriesElem) Expr() influxql.Expr { return nil }

type iter struct {
	keys []string
	i    int
}

func newIter(keys []string) tsdb.SeriesIterator { return &iter{keys: keys} }

func (it *iter) Close() error { return nil }
func (it *iter) Next() (tsdb.SeriesElem, error) {
	if it.i >= len(it.keys) {
		return nil, nil
	}
	name, tags := models.ParseKey([]byte(it.keys[it.i]))
	it.i++
	return seriesElem{[]byte(name), tags}, nil
}
