// Package engkit is a small fixture around a REAL tsm1.Engine (with a real tsi1 index, SeriesFile and WAL
// on a scratch directory), wired the way tsdb.Shard does it, for the engine-level checks (C01, C03, C39).
package engkit

import (
	"context"
	"fmt"
	"os"
	"path/filepath"
	"sort"
	"time"

	"github.com/influxdata/influxdb/v2/models"
	"github.com/influxdata/influxdb/v2/pkg/limiter"
	"github.com/influxdata/influxdb/v2/tsdb"
	"github.com/influxdata/influxdb/v2/tsdb/engine/tsm1"
	_ "github.com/influxdata/influxdb/v2/tsdb/index/tsi1"
	"github.com/influxdata/influxql"
)

type idSets []*tsdb.SeriesIDSet

func (a idSets) ForEach(f func(ids *tsdb.SeriesIDSet)) error {
	for _, v := range a {
		f(v)
	}
	return nil
}

// Eng is an open engine plus what is needed to reopen it.
type Eng struct {
	E     *tsm1.Engine
	Root  string
	idx   tsdb.Index
	sfile *tsdb.SeriesFile
}

// Pt is one stored point of a float field.
type Pt struct {
	T int64   `json:"t"`
	V float64 `json:"v"`
}

// Open opens (or reopens) an engine rooted at root.
func Open(root string) (*Eng, error) {
	dbPath := filepath.Join(root, "data", "db0")
	if err := os.MkdirAll(dbPath, 0o777); err != nil {
		return nil, err
	}
	sfile := tsdb.NewSeriesFile(filepath.Join(dbPath, tsdb.SeriesFileDirectory))
	if err := sfile.Open(); err != nil {
		return nil, err
	}
	opt := tsdb.NewEngineOptions()
	opt.IndexVersion = tsdb.TSI1IndexName
	ids := tsdb.NewSeriesIDSet()
	opt.SeriesIDSets = idSets{ids}
	opt.CompactionLimiter = limiter.NewFixed(4)
	opt.MetricsDisabled = false
	idx, err := tsdb.NewIndex(1, "db0", filepath.Join(dbPath, "index"), ids, sfile, opt)
	if err != nil {
		sfile.Close()
		return nil, err
	}
	if err := idx.Open(); err != nil {
		sfile.Close()
		return nil, err
	}
	e := tsm1.NewEngine(1, idx, filepath.Join(root, "data"), filepath.Join(root, "wal"), sfile, opt).(*tsm1.Engine)
	if err := e.Open(context.Background()); err != nil {
		idx.Close()
		sfile.Close()
		return nil, err
	}
	if err := e.LoadMetadataIndex(1, idx); err != nil {
		e.Close(false)
		idx.Close()
		sfile.Close()
		return nil, err
	}
	return &Eng{E: e, Root: root, idx: idx, sfile: sfile}, nil
}

// Close closes engine, index and series file (data stays on disk).
func (e *Eng) Close() error {
	err := e.E.Close(false)
	e.idx.Close()
	e.sfile.Close()
	return err
}

// Reopen closes and opens again from disk.
func (e *Eng) Reopen() error {
	if err := e.Close(); err != nil {
		return err
	}
	n, err := Open(e.Root)
	if err != nil {
		return err
	}
	*e = *n
	return nil
}

// Write writes float points of one series/field. series is "measurement,tag=value".
func (e *Eng) Write(series, field string, pts ...Pt) error {
	name, tags := models.ParseKey([]byte(series))
	var ps []models.Point
	for _, p := range pts {
		mp, err := models.NewPoint(name, tags, models.Fields{field: p.V}, time.Unix(0, p.T))
		if err != nil {
			return err
		}
		ps = append(ps, mp)
	}
	// what tsdb.Shard.validateSeriesAndFields does before handing points to the engine
	f, created, err := e.E.MeasurementFields([]byte(name)).CreateFieldIfNotExists(field, influxql.Float)
	if err != nil {
		return err
	}
	if created {
		ch := tsdb.FieldChanges{&tsdb.FieldChange{FieldCreate: tsdb.FieldCreate{Measurement: []byte(name), Field: f}, ChangeType: tsdb.AddMeasurementField}}
		if err := e.E.MeasurementFieldSet().Save(ch); err != nil {
			return err
		}
	}
	for _, p := range ps {
		if err := e.E.CreateSeriesIfNotExists(p.Key(), p.Name(), p.Tags()); err != nil {
			return err
		}
	}
	return e.E.WritePoints(context.Background(), ps)
}

// Delete removes [min,max] of the given series through Engine.DeleteSeriesRange.
func (e *Eng) Delete(min, max int64, series ...string) error {
	sort.Strings(series)
	return e.E.DeleteSeriesRange(context.Background(), newIter(series), min, max)
}

// Read returns every point of series/field visible to a cursor over the whole time range.
func (e *Eng) Read(series, field string) ([]Pt, error) {
	name, tags := models.ParseKey([]byte(series))
	ctx := context.Background()
	it, err := e.E.CreateCursorIterator(ctx)
	if err != nil {
		return nil, err
	}
	cur, err := it.Next(ctx, &tsdb.CursorRequest{Name: []byte(name), Tags: tags, Field: field, Ascending: true, StartTime: models.MinNanoTime, EndTime: models.MaxNanoTime})
	if err != nil {
		return nil, err
	}
	if cur == nil {
		return nil, nil
	}
	defer cur.Close()
	fc, ok := cur.(tsdb.FloatArrayCursor)
	if !ok {
		return nil, fmt.Errorf("cursor of type %T", cur)
	}
	var out []Pt
	for {
		a := fc.Next()
		if a.Len() == 0 {
			break
		}
		for i := range a.Timestamps {
			out = append(out, Pt{a.Timestamps[i], a.Values[i]})
		}
	}
	return out, fc.Err()
}
