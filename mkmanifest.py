#!/usr/bin/env python3
"""Assemble MANIFEST.json from h/c*/manifest_entry.json. Properties without an entry go to not_applicable
with the reason found in na_reasons.json (or a default)."""
import json, glob, os, subprocess
V = os.path.dirname(os.path.abspath(__file__))
props = [json.loads(l) for l in open(f'{V}/properties.jsonl')]
entries = {}
accepted = set(open(f'{V}/accepted.txt').read().split())  # checks reviewed by the coordinator
for f in sorted(glob.glob(f'{V}/h/c[0-9][0-9]/manifest_entry.json')):
    e = json.load(open(f))
    if e['property_id'] in accepted:
        entries[e['property_id']] = e
try:
    na = json.load(open(f'{V}/na_reasons.json'))
except FileNotFoundError:
    na = {}
hooks = subprocess.run(['git', '-C', '/repo', 'log', '--format=%H %s'], capture_output=True, text=True).stdout.splitlines()
hook_commits = [l.split()[0] for l in hooks if l.split(' ', 1)[1].startswith('verif hooks')]
engines = {}
for pid, e in entries.items():
    engines.setdefault(e.get('engine', 'enum').split('+')[0].split('/')[0].strip(), []).append(pid)
kinds = {
 'enum': 'bounded-exhaustive enumeration of a declared finite input family on the real functions vs a reference function (h/vlib)',
 'opseq': 'bounded-depth operation-sequence DFS / BFS-to-closure explicit-state search; each transition executes the real handler on a fresh instance (h/vlib)',
 'vsched': 'controlled scheduler (baton passing inside testing/synctest bubbles, modelled sync/atomic injected by build overlay, hook points) + DFS over schedules with iterative preemption bounding (h/shim/vrt)',
 'crashfs': 'crash-image enumeration from a syscall-level write/sync log of the real I/O path (h/crashfs)',
}
m = {
 "version": 1,
 "setup_cmd": "./vf setup",
 "hooks": {
  "guard": "verif",
  "enable": "go test -c -tags verif -overlay <generated per run from /repo's working tree by h/cmd/mkoverlay> (done by ./vf check); add-only re-export files live in /verif/h/overlay/, the scheduler runtime in /verif/h/shim/ is injected as pkg/verifrt/*, hook points are pkg/verifhook.Point calls",
  "baseline_off_cmd": "for m in $(cat /w/out/gomods.txt); do MF=$(cd /repo/$m && . /w/out/goenv.sh && gomodflag); (cd /repo/$m && go test $MF -json -vet=off -count=1 -timeout 25m ./...); done",
  "source_commits": hook_commits,
  "add_only": True
 },
 "engines": [{"name": k, "path": "h", "serves_properties": sorted(v), "kind_free_text": kinds.get(k, k)} for k, v in sorted(engines.items())],
 "checks": [entries[p['id']] for p in props if p['id'] in entries],
 "not_applicable": [{"property_id": p['id'], "reason": na.get(p['id'], "check not built yet (work in progress; DESIGN.md §4 describes the planned bounded-exhaustive check)")} for p in props if p['id'] not in entries],
 "notes": "All checks are bounded-exhaustive explorations of the real code (see DESIGN.md). known_findings.json lists genuine defects (open = reported as KNOWN-FINDING, fixed = repaired by a fix: commit in /repo)."
}
json.dump(m, open(f'{V}/MANIFEST.json', 'w'), indent=1)
print(len(m['checks']), 'checks,', len(m['not_applicable']), 'not applicable; hook commits', hook_commits)
