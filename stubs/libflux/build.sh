#!/bin/sh
# builds libflux.a stub + flux.pc in this directory
set -e
cd "$(dirname "$0")"
INC="$(go env GOMODCACHE)/github.com/influxdata/flux@v0.200.0/libflux/include"
gcc -O1 -c -I"$INC" flux_stub.c -o flux_stub.o
ar rcs libflux.a flux_stub.o
cat > flux.pc <<PC
Name: flux
Description: libflux stub
Version: 0.200.0
Cflags: -I$INC
Libs: -L$(pwd) -lflux
PC
