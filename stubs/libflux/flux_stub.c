/* Stub of libflux (the Rust Flux parser/analyser), which cannot be built offline.
 * Every call fails with a static error object; flux_get_env_stdlib returns a valid
 * empty flatbuffer so flux/runtime's package init succeeds. No verified property
 * needs the Flux language front end. */
#include <stdlib.h>
#include <string.h>
#include <stdio.h>
#include "influxdata/flux.h"
struct flux_error_t { int x; };
struct flux_ast_pkg_t { int x; };
struct flux_semantic_pkg_t { int x; };
struct flux_stateful_analyzer_t { int x; };
static struct flux_error_t the_err;
static struct flux_ast_pkg_t the_pkg;
static struct flux_stateful_analyzer_t the_an;
static char *dup(const char *s, size_t n) { char *p = malloc(n ? n : 1); memcpy(p, s, n); return p; }
static const char empty_fb[12] = {8,0,0,0,4,0,4,0,4,0,0,0};
void flux_semantic_packages(struct flux_buffer_t *b) { b->data = dup(empty_fb, 12); b->len = 12; }
void flux_free_error(struct flux_error_t *e) { (void)e; }
const char *flux_error_str(struct flux_error_t *e) { (void)e; return dup("libflux stub: not available", 28); }
void flux_error_print(struct flux_error_t *e) { (void)e; fprintf(stderr, "libflux stub error\n"); }
void flux_free_bytes(const char *p) { free((void *)p); }
struct flux_ast_pkg_t *flux_parse(const char *f, const char *s) { (void)f; (void)s; return &the_pkg; }
struct flux_error_t *flux_ast_format(struct flux_ast_pkg_t *p, struct flux_buffer_t *b) { (void)p; (void)b; return &the_err; }
struct flux_error_t *flux_ast_get_error(struct flux_ast_pkg_t *p, const char *o) { (void)p; (void)o; return &the_err; }
void flux_free_ast_pkg(struct flux_ast_pkg_t *p) { (void)p; }
struct flux_error_t *flux_merge_ast_pkgs(struct flux_ast_pkg_t *a, struct flux_ast_pkg_t *b) { (void)a; (void)b; return &the_err; }
struct flux_error_t *flux_parse_json(const char *s, struct flux_ast_pkg_t **p) { (void)s; (void)p; return &the_err; }
struct flux_error_t *flux_ast_marshal_json(struct flux_ast_pkg_t *p, struct flux_buffer_t *b) { (void)p; (void)b; return &the_err; }
void flux_get_env_stdlib(struct flux_buffer_t *b) { b->data = dup(empty_fb, 12); b->len = 12; }
struct flux_stateful_analyzer_t *flux_new_stateful_analyzer(const char *o) { (void)o; return &the_an; }
void flux_free_stateful_analyzer(struct flux_stateful_analyzer_t *a) { (void)a; }
struct flux_error_t *flux_analyze_with(struct flux_stateful_analyzer_t *a, const char *s, struct flux_ast_pkg_t *p, struct flux_semantic_pkg_t **o) { (void)a; (void)s; (void)p; (void)o; return &the_err; }
struct flux_error_t *flux_analyze(struct flux_ast_pkg_t *p, const char *o, struct flux_semantic_pkg_t **s) { (void)p; (void)o; (void)s; return &the_err; }
struct flux_error_t *flux_find_var_type(struct flux_semantic_pkg_t *p, const char *n, struct flux_buffer_t *b) { (void)p; (void)n; (void)b; return &the_err; }
void flux_free_semantic_pkg(struct flux_semantic_pkg_t *p) { (void)p; }
struct flux_error_t *flux_semantic_marshal_fb(struct flux_semantic_pkg_t *p, struct flux_buffer_t *b) { (void)p; (void)b; return &the_err; }
