#!/usr/bin/env python3
"""kf_add.py <ID> <root-cause note> [sig-substring ...]: add open known-finding entries for the violation classes
currently recorded in evidence/<ID>.json (only classes containing one of the substrings, if given).
Used by the coordinator after classifying a violation as a genuine defect that is not repaired."""
import json, sys
pid, note, subs = sys.argv[1], sys.argv[2], sys.argv[3:]
ev = json.load(open(f'/verif/evidence/{pid}.json'))
k = json.load(open('/verif/known_findings.json'))
have = {(f['property'], f['signature']) for f in k['findings']}
n = 0
for vc in ev['coverage'].get('violation_classes', []):
    if vc.get('known_finding'): continue
    if subs and not any(s in vc['sig'] for s in subs): continue
    if (pid, vc['sig']) in have: continue
    k['findings'].append({"property": pid, "signature": vc['sig'], "status": "open",
                          "summary": note + " — e.g. " + vc['summary'][:400]})
    n += 1
json.dump(k, open('/verif/known_findings.json', 'w'), indent=1)
print('added', n)
